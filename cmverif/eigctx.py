"""Contracts assumed for the external eigen-solvers and for sparse.remove_null_cols (C05/C06/C07).
They are *assumptions* (listed in every evidence file that uses them), stated once here:

 eigsh(A, k, M, sigma, which, mode, tol) / eigs(A, k, M, sigma, which, tol)
     requires A, M square of equal size n and 0 < k < n (otherwise raises); may also raise for numerical reasons
     (singular shift-inverted operator): modelled by a nondeterministic failure; on success returns k values w and an
     n x k matrix V with  A V = M V diag(w)
 eigh(a, b) / eig(a, b): a, b square of equal size n; returns n values (eigh: ascending) and an n x n matrix, a V = b V diag(w)
 remove_null_cols(m0, m1, ...): all square of equal size n; returns the matrices restricted to the index set U of
     non-null columns of m0 and U itself (|U| = nu, 0 <= nu <= n, increasing)
"""
import z3

from .poly import P
from .core import CheckerError
from . import pysym
from .pysym import Cond, SymRaise, compare, to_z3
from .absnp import AArr, fresh_int, dim_eq, T


def install(itp, log):
    def square_same(name, mats):
        n = mats[0].shape[0]
        for m in mats:
            if not isinstance(m, AArr) or len(m.shape) != 2:
                raise SymRaise('ValueError', ('%s: expected a matrix' % name,))
            for d in m.shape:
                if not itp.truth(dim_eq(d, n)):
                    raise SymRaise('ValueError', ('%s: expected square matrices of equal size' % name,))
        return n

    def sparse_eig(name):
        def c(itp_, args, kw):
            A = kw.get('A', args[0] if args else None)
            M = kw.get('M')
            k = kw.get('k', 6)
            n = square_same(name, [A, M] if M is not None else [A])
            if not itp.truth(compare('>', k, 0)):
                raise SymRaise('ValueError', ('%s: k must be positive' % name,))
            if not itp.truth(compare('<', k, n)):
                raise SymRaise('TypeError', ('%s: cannot use scipy.linalg.eigh / k must be less than ndim(A)' % name,))
            fail = Cond('atom', '%s_fails_numerically~%d' % (name, len(log)))
            call = dict(fn=name, A=A.term, M=None if M is None else M.term, k=T(k), n=T(n),
                        kw={kk: (T(v) if not isinstance(v, str) else v) for kk, v in kw.items() if kk not in ('A', 'M', 'k')})
            log.append(call)
            restricted = isinstance(M.term if M is not None else None, tuple) and M.term[0] == 'restrict'
            # numerical failure (singular shift-inverted operator) is possible only while null rows/columns are present
            if not restricted and itp.truth(fail):
                raise SymRaise('ArpackError', ('%s did not succeed' % name,))
            cid = len(log) - 1
            return (AArr((k,), ('eigvals', cid), 'complex' if name == 'eigs' else 'float'),
                    AArr((n, k), ('eigvecs', cid), 'complex' if name == 'eigs' else 'float'))
        return c

    def dense_eig(name):
        def c(itp_, args, kw):
            a = kw.get('a', args[0] if args else None)
            b = kw.get('b', args[1] if len(args) > 1 else None)
            n = square_same(name, [a, b] if b is not None else [a])
            call = dict(fn=name, A=a.term, M=None if b is None else b.term, k=T(n), n=T(n), kw={})
            log.append(call)
            cid = len(log) - 1
            return (AArr((n,), ('eigvals', cid), 'complex' if name == 'eig' else 'float'),
                    AArr((n, n), ('eigvecs', cid), 'complex' if name == 'eig' else 'float'))
        return c
    itp.contracts['scipy.sparse.linalg.eigsh'] = sparse_eig('eigsh')
    itp.contracts['scipy.sparse.linalg.eigs'] = sparse_eig('eigs')
    itp.contracts['scipy.linalg.eigh'] = dense_eig('eigh')
    itp.contracts['scipy.linalg.eig'] = dense_eig('eig')
    itp.builtins['ArpackError'] = pysym.ExcClass('ArpackError', ('RuntimeError', 'Exception'))
    pysym.EXC_TREE['ArpackError'] = ('RuntimeError', 'Exception')

    def remove_null_cols(itp_, args, kw):
        mats = list(args)
        n = square_same('remove_null_cols', mats)
        nu = fresh_int('n_used', 0, None, itp)
        itp.path.conds.append(compare('<=', nu, n))
        used = AArr((nu,), ('used_cols', mats[0].term), 'int')
        out = [AArr((nu, nu), ('restrict', m.term, mats[0].term), m.kind) for m in mats]
        log.append(dict(fn='remove_null_cols', of=[m.term for m in mats], n=T(n), nu=T(nu)))
        return out + [used]
    itp.contracts['compmech.sparse.remove_null_cols'] = remove_null_cols
