"""F-PY: symbolic executor over the Python ``ast`` of the real source files
(and of the mechanically rewritten .pyx kernels).

Values
  * concrete Python values (int, str, None, bool, list, tuple, dict)
  * ``P``                : symbolic real / integer expressions (normal form)
  * ``Cond``             : symbolic truth values (polynomial comparisons)
  * ``Obj``              : instances of classes defined in the repository
  * numpy object arrays  : fixed-shape arrays of the above (via shims)
  * ``Opaque``           : results of functions known only by contract
Calls are resolved: contract (``Interp.contracts``) -> repository function body
(parsed from the file on this run) -> builtin/shim -> *error* (needs contract).
Branches on symbolic conditions fork the execution (decision replay); loops
over symbolic ranges need an annotation (``Interp.loop_modes``).
"""
import ast
import os
import sys
from fractions import Fraction

import z3
import numpy as _np

from .poly import P, normal
from . import pyxfront
from .core import REPO, CheckerError, Undecided


# ---------------------------------------------------------------------------
# symbolic atoms registry
# ---------------------------------------------------------------------------
INT_ATOMS = set()


def real(name):
    return P.atom(name)


def integer(name):
    INT_ATOMS.add(name)
    return P.atom(name)


def is_int_valued(p):
    """syntactic: polynomial with integer coefficients over integer atoms"""
    if isinstance(p, int):
        return True
    if not isinstance(p, P):
        return False
    for m, c in p.t.items():
        if c.denominator != 1:
            return False
        for a, e in m:
            if a not in INT_ATOMS or e < 0:
                return False
    return True


# ---------------------------------------------------------------------------
class Cond(object):
    """symbolic boolean.  kind: 'cmp' (op, P meaning P op 0), 'and', 'or', 'not', 'const', 'atom'"""
    __slots__ = ('kind', 'a', 'b')

    def __init__(self, kind, a=None, b=None):
        self.kind, self.a, self.b = kind, a, b

    def __bool__(self):
        raise TypeError('truth value of symbolic condition requested: %s' % self)

    def neg(self):
        if self.kind == 'not':
            return self.a
        if self.kind == 'const':
            return Cond('const', not self.a)
        if self.kind == 'cmp':
            inv = {'==': '!=', '!=': '==', '<': '>=', '>=': '<', '>': '<=', '<=': '>'}
            return Cond('cmp', inv[self.a], self.b)
        return Cond('not', self)

    def __repr__(self):
        if self.kind == 'cmp':
            return '(%s %s 0)' % (self.b.text(), self.a)
        if self.kind == 'not':
            return 'not %r' % (self.a,)
        if self.kind in ('and', 'or'):
            return '(%r %s %r)' % (self.a, self.kind, self.b)
        return '%s(%r)' % (self.kind, self.a)

    def atoms(self):
        if self.kind == 'cmp':
            return self.b.atoms()
        if self.kind == 'not':
            return self.a.atoms()
        if self.kind in ('and', 'or'):
            return self.a.atoms() | self.b.atoms()
        if self.kind == 'atom':
            return {self.a}
        return set()


def _holds_symbols(*vals):
    for v in vals:
        if isinstance(v, (P, Cond)):
            return True
        if isinstance(v, (list, tuple)) and _holds_symbols(*v):
            return True
    return False


def compare(op, x, y):
    """symbolic/concrete comparison of two scalar values"""
    if isinstance(x, P) or isinstance(y, P):
        x = x if isinstance(x, P) else P.const(x)
        y = y if isinstance(y, P) else P.const(y)
        d = normal(x - y)
        if d.is_const():
            c = d.const_value()
            return {'==': c == 0, '!=': c != 0, '<': c < 0, '<=': c <= 0, '>': c > 0, '>=': c >= 0}[op]
        return Cond('cmp', op, d)
    return {'==': lambda: x == y, '!=': lambda: x != y, '<': lambda: x < y, '<=': lambda: x <= y,
            '>': lambda: x > y, '>=': lambda: x >= y}[op]()


# ---------------------------------------------------------------------------
_z3cache = {}


def z3atom(a):
    v = _z3cache.get(a)
    if v is None:
        v = z3.Int('i!' + a) if a in INT_ATOMS else z3.Real('r!' + a)
        _z3cache[a] = v
    return v


def to_z3(p):
    if isinstance(p, bool):
        return z3.BoolVal(p)
    if isinstance(p, int):
        return z3.IntVal(p)
    if isinstance(p, Fraction):
        return z3.RealVal('%d/%d' % (p.numerator, p.denominator))
    if isinstance(p, Cond):
        return cond_z3(p)
    if not isinstance(p, P):
        p = P.const(p)
    terms = []
    for m, c in p.t.items():
        if c.denominator == 1:
            t = z3.IntVal(int(c)) if all(a in INT_ATOMS for a, _ in m) else z3.RealVal(int(c))
        else:
            t = z3.RealVal('%d/%d' % (c.numerator, c.denominator))
        for a, e in m:
            v = z3atom(a)
            if e > 0:
                for _ in range(e):
                    t = t * v
            else:
                for _ in range(-e):
                    t = t / (z3.ToReal(v) if z3.is_int(v) else v)
        terms.append(t)
    if not terms:
        return z3.IntVal(0)
    r = terms[0]
    for t in terms[1:]:
        r = r + t
    return r


def cond_z3(c):
    if isinstance(c, bool):
        return z3.BoolVal(c)
    if c.kind == 'cmp':
        e = to_z3(c.b)
        zero = 0
        return {'==': e == zero, '!=': e != zero, '<': e < zero, '<=': e <= zero, '>': e > zero, '>=': e >= zero}[c.a]
    if c.kind == 'not':
        return z3.Not(cond_z3(c.a))
    if c.kind == 'and':
        return z3.And(cond_z3(c.a), cond_z3(c.b))
    if c.kind == 'or':
        return z3.Or(cond_z3(c.a), cond_z3(c.b))
    if c.kind == 'const':
        return z3.BoolVal(bool(c.a))
    if c.kind == 'atom':
        return z3.Bool('b!' + c.a)
    if c.kind == 'z3':
        return c.a
    raise CheckerError('cond_z3: %r' % (c,))


# ---------------------------------------------------------------------------
PARAM_COVER = {}      # qualname -> {optional parameter: given explicitly in some symbolic call}


class Poison(object):
    """value of a variable that is loop-carried in a generically executed loop"""
    def __init__(self, name):
        self.name = name

    def __repr__(self):
        return '<poison %s>' % self.name


class Opaque(object):
    """a value known only through the contract that produced it"""
    def __init__(self, kind, **fields):
        self.kind = kind
        self.f = fields

    # linear algebra on opaque matrices/vectors: kept as terms
    def __add__(self, o):
        if isinstance(o, (int, P)) and not isinstance(o, bool) and (o == 0 or (isinstance(o, P) and o.is_zero())):
            return self
        if not isinstance(o, Opaque):
            return NotImplemented
        return Opaque('sum', terms=_flat_terms(self) + _flat_terms(o))
    __radd__ = __add__

    def __sub__(self, o):
        if not isinstance(o, Opaque):
            return NotImplemented
        return Opaque('sum', terms=_flat_terms(self) + [Opaque('scale', k=-1, of=t) for t in _flat_terms(o)])

    def __neg__(self):
        return Opaque('scale', k=-1, of=self)

    def __mul__(self, k):
        if isinstance(k, Opaque):
            if k.kind == 'complex':
                return Opaque('scale', k=k, of=self)
            return Opaque('matmul', a=self, b=k)
        if isinstance(k, (int, P, Fraction)):
            return Opaque('scale', k=k, of=self)
        if hasattr(k, 'sym_load'):
            return Opaque('matmul', a=self, b=k)
        try:
            import numpy as _np
            if isinstance(k, _np.ndarray) and k.ndim == 1:
                return Opaque('matvec', a=self, b=list(k))
        except ImportError:
            pass
        return NotImplemented
    __rmul__ = __mul__

    def __truediv__(self, k):
        if isinstance(k, (int, P, Fraction)):
            return Opaque('scale', k=P.const(1) / k, of=self)
        return NotImplemented

    def key(self):
        """structural key for equality of opaque terms"""
        def k(v):
            if isinstance(v, Opaque):
                return v.key()
            if hasattr(v, 'key') and callable(getattr(v, 'key')) and not isinstance(v, dict):
                return v.key()
            if isinstance(v, int) and not isinstance(v, bool):
                return ('P', P.const(v).text())
            if isinstance(v, P):
                return ('P', normal(v).text())
            if isinstance(v, (list, tuple)):
                return tuple(k(x) for x in v)
            if isinstance(v, dict):
                return tuple(sorted((kk, k(x)) for kk, x in v.items()))
            if isinstance(v, Obj):
                return ('obj', v.name)
            try:
                import numpy as np
                if isinstance(v, np.ndarray):
                    return ('arr', v.shape, tuple(k(x) for x in v.reshape(-1)))
            except ImportError:
                pass
            return ('v', repr(v))
        if self.kind == 'sum':
            return ('sum', tuple(sorted(k(t) for t in self.f['terms'])))
        return (self.kind, tuple(sorted((kk, k(v)) for kk, v in self.f.items())))

    def __repr__(self):
        return '<%s %s>' % (self.kind, ', '.join('%s=%r' % kv for kv in sorted(self.f.items(), key=lambda kv: kv[0])[:4]))


def is_plain(x):
    """a value of the interpreted program itself (numbers, strings, containers of such, program objects, numpy arrays of them) as opposed
    to a value of the MODEL (opaque terms, abstract arrays, symbolic lists, contract objects): a Python TypeError / AttributeError / IndexError
    raised while operating on a model value is a gap of the model, not an exception of the program"""
    import numpy as _np
    if x is None or isinstance(x, (bool, int, float, complex, str, bytes, Fraction, P, slice, type(Ellipsis))):
        return True
    if isinstance(x, Obj):
        return x.cls is not None
    if isinstance(x, (list, tuple, set, frozenset)):
        return all(is_plain(y) for y in x)
    if isinstance(x, dict):
        return all(is_plain(y) for y in x.values())
    if isinstance(x, _np.ndarray):
        return x.dtype != object or all(is_plain(y) for y in x.reshape(-1)[:50])
    if isinstance(x, (ClassVal, Func, BoundMethod)) if 'ClassVal' in globals() else False:
        return True
    return False


class MemView(Opaque):
    """a Cython typed memoryview handed back to Python (``cdef double [:] x ... return x``): it supports indexing and the buffer
    protocol (numpy converts it) but NO arithmetic -- ``0 + view`` or ``view * 2`` is a TypeError of the program"""
    def __init__(self, of):
        Opaque.__init__(self, 'memoryview', of=of)

    def _no(self, op, o):
        raise SymRaise('TypeError', ("unsupported operand type(s) for %s: '%s' and '_memoryviewslice'" % (op, type(o).__name__),))

    def __add__(self, o):
        if isinstance(o, Opaque) and not isinstance(o, MemView):
            return o + self.f['of']          # numpy array (op) memoryview: numpy converts the view
        self._no('+', o)

    def __radd__(self, o):
        if isinstance(o, Opaque) and not isinstance(o, MemView):
            return o + self.f['of']
        self._no('+', o)

    def __sub__(self, o):
        if isinstance(o, Opaque) and not isinstance(o, MemView):
            return self.f['of'] - o          # handled by ndarray.__rsub__
        self._no('-', o)

    def __rsub__(self, o):
        if isinstance(o, Opaque) and not isinstance(o, MemView):
            return o - self.f['of']
        self._no('-', o)

    def __mul__(self, o):
        if isinstance(o, Opaque) and not isinstance(o, MemView) and o.kind != 'complex':
            return self.f['of'] * o          # handled by ndarray.__rmul__
        self._no('*', o)

    __rmul__ = __mul__

    def __neg__(self):
        raise SymRaise('TypeError', ("bad operand type for unary -: '_memoryviewslice'",))

    def key(self):
        return ('memoryview', self.f['of'].key() if isinstance(self.f['of'], Opaque) else repr(self.f['of']))


def _flat_terms(o):
    if o.kind == 'sum':
        return list(o.f['terms'])
    return [o]


class Obj(object):
    def __init__(self, cls, interp=None, name=None):
        self.cls = cls
        self.attrs = {}
        self.name = name or ('%s#%d' % (cls.name if cls else '?', id(self) % 10000))

    def __repr__(self):
        return '<obj %s>' % self.name


class ClassVal(object):
    def __init__(self, node, module):
        self.node = node
        self.name = node.name
        self.module = module
        self.methods = {}
        self.class_attrs = {}
        self.bases = []

    def find(self, name):
        if name in self.methods:
            return self.methods[name]
        for b in self.bases:
            if isinstance(b, ClassVal):
                r = b.find(name)
                if r is not None:
                    return r
        return None

    def __repr__(self):
        return '<class %s>' % self.name


class Func(object):
    def __init__(self, node, module, qualname, ctypes=None):
        self.node = node
        self.module = module
        self.qualname = qualname
        self.ctypes = ctypes or {}
        self.defaults = None
        self.closure = None

    def __repr__(self):
        return '<func %s>' % self.qualname


class AbstractMask(object):
    """result of comparing an abstract array element-wise; only np.any / np.all may consume it"""
    def __init__(self, term, shape):
        self.term = term
        self.shape = shape

    def __repr__(self):
        return '<mask %s %s %s>' % (self.term[1], self.term[0], self.term[2])


class BoundMethod(object):
    def __init__(self, obj, func):
        self.obj = obj
        self.func = func

    def __repr__(self):
        return '<bound %s of %r>' % (self.func.qualname, self.obj)


class ExternalFunc(object):
    def __init__(self, qualname):
        self.qualname = qualname

    def __repr__(self):
        return '<external %s>' % self.qualname


class ExternalModule(object):
    def __init__(self, name):
        self.name = name

    def __repr__(self):
        return '<external module %s>' % self.name


class SymRaise(Exception):
    """an exception raised by the interpreted program"""
    def __init__(self, tname, args=(), node=None):
        Exception.__init__(self, tname)
        self.tname = tname
        self.eargs = args
        self.node = node


class ExcClass(object):
    def __init__(self, name, bases=('Exception',)):
        self.name = name
        self.bases = bases


EXC_TREE = {
    'Exception': (), 'ValueError': ('Exception',), 'TypeError': ('Exception',), 'RuntimeError': ('Exception',),
    'NotImplementedError': ('RuntimeError', 'Exception'), 'KeyError': ('LookupError', 'Exception'),
    'IndexError': ('LookupError', 'Exception'), 'LookupError': ('Exception',), 'AttributeError': ('Exception',),
    'ZeroDivisionError': ('ArithmeticError', 'Exception'), 'ArithmeticError': ('Exception',),
    'AssertionError': ('Exception',), 'ImportError': ('Exception',), 'StopIteration': ('Exception',),
    'UnboundLocalError': ('NameError', 'Exception'), 'NameError': ('Exception',),
}


class _Break(Exception):
    pass


class _Continue(Exception):
    pass


class _Return(Exception):
    def __init__(self, v):
        self.v = v


class Infeasible(Exception):
    pass


# ---------------------------------------------------------------------------
class Module(object):
    def __init__(self, name, path, kind):
        self.name = name
        self.path = path
        self.kind = kind      # 'py' | 'pyx' | 'pkg'
        self.g = {}
        self.loaded = False
        self.pyx = None

    def __repr__(self):
        return '<module %s>' % self.name


class Frame(object):
    def __init__(self, module, func=None, ctypes=None):
        self.module = module
        self.func = func
        self.l = {}
        self.ctypes = ctypes or {}
        self.globals_decl = set()


class Path(object):
    """one execution path: decisions taken and the facts assumed along it"""
    def __init__(self, decisions):
        self.decisions = list(decisions)
        self.pos = 0
        self.conds = []
        self.pending = []
        self.log = []          # effect log: ('read'|'write', obj, attr) ...
        self.obligations = []  # (name, Cond/z3, node) side obligations met along the path


# ---- which attributes of real-class instances were read, and with what kind of value: an attribute that is only ever read with one
# constant value was never varied by any harness of the run (audit information, written to the evidence)
ATTR_READS = {}


def note_attr_read(cls, name, v):
    v = _unwrap0(v)
    if isinstance(v, P):
        kind = repr(v.const_value()) if v.is_const() else '<symbolic>'
    elif isinstance(v, (bool, int, float, str)) or v is None:
        kind = repr(v)
    elif isinstance(v, (list, tuple)) and len(v) == 0:
        kind = repr(v)
    else:
        kind = '<object>'
    s_ = ATTR_READS.setdefault('%s.%s' % (cls, name), set())
    if len(s_) < 6:
        s_.add(kind)


class Interp(object):
    def __init__(self, repo=REPO):
        self.repo = repo
        self.modules = {}
        self.contracts = {}      # qualname -> callable(interp, args, kwargs)
        self.shims = {}          # external module name -> python object with attributes
        self.loop_modes = {}     # (funcqualname, loop ordinal) -> dict(mode=...)
        self.facts = []          # z3 facts (requires)
        self.path = None
        self.generic = []        # stack of generic-loop contexts
        self.max_paths = 400
        self.fresh = 0
        self.call_depth = 0
        self.on_attr_read = None
        self.on_attr_write = None
        self.solver_time = 0.0
        self.builtins = make_builtins(self)
        self.trace_calls = []
        self.return_hooks = {}          # qualname -> callable(interp, frame, return value)
        self.algebraic_minmax = False   # abs/min/max of symbolic reals as constrained atoms instead of forks
        self.feas_timeout = 3000
        self.abstract_locals = {}       # (function, local name) -> atom: let-abstraction of an intermediate
        self.local_defs = {}            # atom -> [(value, path conds, line)] recorded definitions (own obligation)
        self.generic_concrete = set()   # names of loop variables whose concrete ranges are executed generically
        self.div_conds = []             # side conditions added by executed divisions (kept alive; identified by id())
        self.slot_always = set()        # names of COO slot counters that may be restarted from a constant

    # -- modules ------------------------------------------------------------
    def module(self, name):
        m = self.modules.get(name)
        if m is not None:
            if not m.loaded:
                self._load(m)
            return m
        if '.' in name:
            parent = name.rsplit('.', 1)[0]
            if parent not in self.modules:
                self.module(parent)
                m = self.modules.get(name)
                if m is not None:
                    if not m.loaded:
                        self._load(m)
                    return m
        rel = name.replace('.', '/')
        base = os.path.join(self.repo, rel)
        if os.path.isdir(base):
            m = Module(name, os.path.join(base, '__init__.py'), 'pkg')
        elif os.path.exists(base + '.py'):
            m = Module(name, base + '.py', 'py')
        elif os.path.exists(base + '.pyx'):
            m = Module(name, base + '.pyx', 'pyx')
        else:
            raise SymRaise('ImportError', ('no module %s in repo' % name,))
        self.modules[name] = m
        self._load(m)
        return m

    def _load(self, m):
        m.loaded = True
        if m.kind == 'pyx':
            m.pyx = pyxfront.rewrite(m.path)
            for ext in m.pyx.externs:
                m.g[ext] = ExternalFunc('extern.' + ext)
            fr = Frame(m)
            fr.l = m.g
            saved = self.path
            if self.path is None:
                self.path = Path([])
            try:
                def flat(pm):
                    # ``include`` is textual: the included definitions come first, in the same namespace
                    for sub in pm.included:
                        for st in flat(sub):
                            yield st
                    for st in pm.tree.body:
                        yield st
                for st in flat(m.pyx):
                    if isinstance(st, ast.FunctionDef):
                        f = Func(st, m, m.name + '.' + st.name, m.pyx.ctypes.get(st.name, {}))
                        f.defaults = [self.eval(d, fr) for d in st.args.defaults]
                        f.kw_defaults = []
                        m.g[st.name] = f
                    else:
                        self.exec_stmt(st, fr)
            finally:
                self.path = saved
            return
        if not os.path.exists(m.path):
            return
        with open(m.path) as f:
            src = f.read()
        tree = ast.parse(src, filename=m.path)
        m.tree = tree
        fr = Frame(m)
        fr.l = m.g
        saved = self.path
        if self.path is None:
            self.path = Path([])
        try:
            self.exec_block(tree.body, fr)
        finally:
            self.path = saved

    def is_repo_module(self, name):
        top = name.split('.')[0]
        return top == 'compmech'

    def import_module(self, name):
        if self.is_repo_module(name):
            return self.module(name)
        if name in self.shims:
            return self.shims[name]
        return ExternalModule(name)

    # -- exploration ----------------------------------------------------------
    def explore(self, thunk):
        """run thunk() along every feasible path.  Returns list of
        (Path, ('return', v) | ('raise', SymRaise))"""
        work = [[]]
        results = []
        while work:
            dec = work.pop()
            self.path = Path(dec)
            try:
                v = thunk()
                out = ('return', v)
            except SymRaise as e:
                out = ('raise', e)
            except Infeasible:
                out = None
            except Exception as e:
                if e.__class__.__name__ == 'PathEnd':
                    out = ('end', None)
                else:
                    raise
            for alt in self.path.pending:
                work.append(alt)
            if out is not None:
                results.append((self.path, out))
            if len(results) + len(work) > self.max_paths:
                raise CheckerError('path explosion (> %d paths)' % self.max_paths)
        self.path = None
        return results

    def feasible(self, conds):
        import time
        s = z3.Solver()
        s.set('timeout', self.feas_timeout)
        for f in self.facts:
            s.add(f)
        for c in conds:
            s.add(cond_z3(c) if isinstance(c, Cond) else c)
        t = time.time()
        r = s.check()
        self.solver_time += time.time() - t
        return r != z3.unsat

    def branch(self, cond):
        """decide a symbolic condition on the current path"""
        if isinstance(cond, bool):
            return cond
        p = self.path
        if p.pos < len(p.decisions):
            d = p.decisions[p.pos]
            p.pos += 1
            p.conds.append(cond if d else cond.neg())
            return d
        can_t = self.feasible(p.conds + [cond])
        can_f = self.feasible(p.conds + [cond.neg()])
        if can_t and can_f:
            p.pending.append(p.decisions + [False])
            p.decisions.append(True)
            p.pos += 1
            p.conds.append(cond)
            return True
        if can_t:
            p.decisions.append(True)
            p.pos += 1
            p.conds.append(cond)
            return True
        if can_f:
            p.decisions.append(False)
            p.pos += 1
            p.conds.append(cond.neg())
            return False
        raise Infeasible()

    def truth(self, v):
        """Python truthiness of a value, forking when symbolic"""
        if isinstance(v, Cond):
            if v.kind == 'const':
                return bool(v.a)
            return self.branch(v)
        if isinstance(v, P):
            if v.is_const():
                return v.const_value() != 0
            return self.branch(Cond('cmp', '!=', normal(v)))
        if isinstance(v, Obj):
            return True
        if isinstance(v, Poison):
            raise CheckerError('loop-carried value %s used in a condition (loop needs an invariant)' % v.name)
        if isinstance(v, Opaque):
            return True
        try:
            import numpy as np
            if isinstance(v, np.ndarray):
                if v.size == 1:
                    return self.truth(v.reshape(-1)[0])
                raise SymRaise('ValueError', ('truth value of an array',))
        except ImportError:
            pass
        if hasattr(v, 'sym_truth'):
            return self.truth(v.sym_truth(self))
        if not is_plain(v) and not callable(v) and not isinstance(v, (Func, BoundMethod, Module)):
            # a value of the model (abstract array, symbolic list ...): Python would ask ITS __bool__ / __len__, which the model does not
            # define; answering True would silently drop the other branch
            raise CheckerError('truth value of a model object of type %s is not modelled' % type(v).__name__)
        return bool(v)

    def newname(self, base):
        self.fresh += 1
        return '%s!%d' % (base, self.fresh)

    # -- statements -------------------------------------------------------------
    def exec_block(self, stmts, fr):
        for s in stmts:
            self.exec_stmt(s, fr)

    def exec_stmt(self, s, fr):
        m = getattr(self, 'st_' + s.__class__.__name__, None)
        if m is None:
            raise CheckerError('%s:%d: unsupported statement %s' % (fr.module.path, s.lineno, s.__class__.__name__))
        return m(s, fr)

    def st_Expr(self, s, fr):
        if isinstance(s.value, ast.Constant):
            return
        self.eval(s.value, fr)

    def st_Pass(self, s, fr):
        pass

    def st_Global(self, s, fr):
        fr.globals_decl.update(s.names)

    def st_Nonlocal(self, s, fr):
        pass

    def st_Import(self, s, fr):
        for a in s.names:
            if a.asname:
                fr.l[a.asname] = self.import_module(a.name)
            else:
                top = a.name.split('.')[0]
                self.import_module(a.name)
                fr.l[top] = self.import_module(top)

    def st_ImportFrom(self, s, fr):
        if s.module == '__future__':
            return
        base = s.module or ''
        if s.level:
            pk = fr.module.name.split('.')
            if fr.module.kind != 'pkg':
                pk = pk[:-1]
            pk = pk[:len(pk) - (s.level - 1)]
            base = '.'.join(pk + ([s.module] if s.module else []))
        for a in s.names:
            if not self.is_repo_module(base):
                mod = self.import_module(base)
                if a.name == '*':
                    continue
                if (base + '.' + a.name) in self.shims:
                    fr.l[a.asname or a.name] = self.shims[base + '.' + a.name]
                    continue
                if hasattr(mod, 'sym_getattr'):
                    fr.l[a.asname or a.name] = mod.sym_getattr(self, a.name)
                    continue
                if isinstance(mod, ExternalModule):
                    v = ExternalFunc(base + '.' + a.name)
                    if (base + '.' + a.name) in self.shims:
                        v = self.shims[base + '.' + a.name]
                else:
                    v = getattr(mod, a.name, None)
                    if v is None:
                        v = ExternalFunc(base + '.' + a.name)
                fr.l[a.asname or a.name] = v
                continue
            mod = self.module(base)
            if a.name == '*':
                for k, v in mod.g.items():
                    if not k.startswith('_'):
                        fr.l[k] = v
                continue
            if a.name in mod.g:
                fr.l[a.asname or a.name] = mod.g[a.name]
            else:
                # submodule
                try:
                    fr.l[a.asname or a.name] = self.module(base + '.' + a.name)
                except SymRaise:
                    raise SymRaise('ImportError', ('cannot import %s from %s' % (a.name, base),), s)

    def st_FunctionDef(self, s, fr):
        q = (fr.func.qualname + '.' if fr.func else fr.module.name + '.') + s.name
        f = Func(s, fr.module, q)
        f.defaults = [self.eval(d, fr) for d in s.args.defaults]
        f.kw_defaults = [None if d is None else self.eval(d, fr) for d in s.args.kw_defaults]
        if fr.func is not None:
            f.closure = fr
        fr.l[s.name] = f

    def st_ClassDef(self, s, fr):
        c = ClassVal(s, fr.module)
        c.bases = [self.eval(b, fr) for b in s.bases]
        cfr = Frame(fr.module)
        for st in s.body:
            if isinstance(st, ast.FunctionDef):
                f = Func(st, fr.module, fr.module.name + '.' + s.name + '.' + st.name)
                f.defaults = [self.eval(d, fr) for d in st.args.defaults]
                f.kw_defaults = [None if d is None else self.eval(d, fr) for d in st.args.kw_defaults]
                c.methods[st.name] = f
            elif isinstance(st, ast.Expr) and isinstance(st.value, ast.Constant):
                pass
            else:
                self.exec_stmt(st, cfr)
        c.class_attrs = cfr.l
        fr.l[s.name] = c

    def st_Return(self, s, fr):
        raise _Return(None if s.value is None else self.eval(s.value, fr))

    def st_Break(self, s, fr):
        raise _Break()

    def st_Continue(self, s, fr):
        raise _Continue()

    def st_Delete(self, s, fr):
        for t in s.targets:
            if isinstance(t, ast.Name):
                fr.l.pop(t.id, None)
            elif isinstance(t, ast.Subscript):
                o = self.eval(t.value, fr)
                k = self.eval_index(t.slice, fr)
                del o[k]
            elif isinstance(t, ast.Attribute):
                o = self.eval(t.value, fr)
                if isinstance(o, Obj):
                    o.attrs.pop(t.attr, None)

    def st_Assert(self, s, fr):
        v = self.eval(s.test, fr)
        if not self.truth(v):
            raise SymRaise('AssertionError', (), s)

    def st_Raise(self, s, fr):
        if s.exc is None:
            raise SymRaise('Exception', ('re-raise',), s)
        e = self.eval(s.exc, fr)
        if isinstance(e, ExcClass):
            raise SymRaise(e.name, (), s)
        if isinstance(e, SymRaise):
            e.node = s
            raise e
        raise SymRaise('Exception', (e,), s)

    def st_Try(self, s, fr):
        try:
            try:
                self.exec_block(s.body, fr)
            except SymRaise as e:
                for h in s.handlers:
                    if h.type is None or self._exc_match(e, self.eval(h.type, fr)):
                        if h.name:
                            fr.l[h.name] = e
                        self.exec_block(h.body, fr)
                        break
                else:
                    raise
            else:
                self.exec_block(s.orelse, fr)
        finally:
            if s.finalbody:
                self.exec_block(s.finalbody, fr)

    def _exc_match(self, e, t):
        if isinstance(t, tuple):
            return any(self._exc_match(e, x) for x in t)
        if isinstance(t, ExcClass):
            return e.tname == t.name or t.name in EXC_TREE.get(e.tname, ('Exception',))
        return False

    def st_With(self, s, fr):
        for it in s.items:
            v = self.eval(it.context_expr, fr)
            if it.optional_vars is not None:
                self.assign(it.optional_vars, v, fr)
        self.exec_block(s.body, fr)

    def st_If(self, s, fr):
        v = self.eval(s.test, fr)
        if self.truth(v):
            self.exec_block(s.body, fr)
        else:
            self.exec_block(s.orelse, fr)

    def st_Assign(self, s, fr):
        v = self.eval(s.value, fr)
        for t in s.targets:
            self.assign(t, v, fr)

    def st_AnnAssign(self, s, fr):
        if s.value is not None:
            self.assign(s.target, self.eval(s.value, fr), fr)

    def st_AugAssign(self, s, fr):
        t = s.target
        if isinstance(t, ast.Subscript):
            o = self.eval(t.value, fr)
            k = self.eval_index(t.slice, fr)
            if hasattr(o, 'sym_augstore'):
                o.sym_augstore(self, k, s.op.__class__.__name__, self.eval(s.value, fr), s)
                return
            cur = self.subscript(o, k, t)
            new = self.binop(s.op, cur, self.eval(s.value, fr), s, fr)
            self.store_subscript(o, k, new, t)
            return
        cur = self.eval(_load(t), fr)
        rhs = self.eval(s.value, fr)
        # C integer division for declared ints in .pyx (cdivision)
        if isinstance(s.op, ast.Div) and isinstance(t, ast.Name) and fr.ctypes.get(t.id) in ('int', 'long'):
            new = self.c_intdiv(cur, rhs, s)
        elif isinstance(t, ast.Name) and t.id in self.slot_always and isinstance(s.op, ast.Add) and isinstance(rhs, int) and rhs == 1 \
                and (isinstance(cur, (int, Poison)) or hasattr(cur, 'seq')):
            # slot counter that is (re)started from a constant (c = -1): every advance is a fresh slot token
            from . import kernel as _kernel
            _kernel.COUNTER[0] += 1
            new = _kernel.Slot(_kernel.COUNTER[0], tuple(g.var for g in self.generic), list(self.path.conds))
        elif self.generic and isinstance(t, ast.Name) and (isinstance(cur, Poison) or hasattr(cur, 'seq')):
            new = self.generic[-1].carried(self, t.id, s, rhs, fr)
        elif hasattr(cur, 'sym_augassign'):
            new = cur.sym_augassign(self, s.op.__class__.__name__, rhs, s)
            if new is NotImplemented:
                new = self.binop(s.op, cur, rhs, s, fr)
        elif hasattr(cur, 'oid') and hasattr(cur, 'term'):
            # numpy in-place update of an array object: same object identity, new value
            new = self.binop(s.op, cur, rhs, s, fr)
            if hasattr(new, 'oid'):
                new.oid = cur.oid
                if getattr(cur, 'maybe_held', False):
                    new.maybe_held = True
            self.path.log.append(('mutate', cur.oid, s.lineno, bool(getattr(cur, 'maybe_held', False))))
        elif isinstance(cur, _np.ndarray) and cur.dtype == object and isinstance(t, ast.Name):
            # numpy in-place operator on an array object: the SAME array is updated (every alias sees it) when the result fits
            res = self.binop(s.op, cur, rhs, s, fr)
            if isinstance(res, _np.ndarray) and res.shape == cur.shape:
                cur[...] = res
                new = cur
            else:
                new = res
        elif isinstance(cur, list) and isinstance(s.op, ast.Add) and isinstance(rhs, (list, tuple)):
            # list.__iadd__ extends the SAME object (visible through every alias: another name, an attribute, a default argument)
            cur.extend(rhs)
            new = cur
        elif isinstance(cur, list) and isinstance(s.op, ast.Mult) and isinstance(_unwrap0(rhs), int) and not isinstance(_unwrap0(rhs), bool):
            cur[:] = cur * _unwrap0(rhs)
            new = cur
        else:
            new = self.binop(s.op, cur, rhs, s, fr)
        self.assign(t, new, fr)

    def c_intdiv(self, a, b, node):
        if isinstance(a, int) and isinstance(b, int):
            if b == 0:
                raise SymRaise('ZeroDivisionError', (), node)
            q = abs(a) // abs(b)
            return q if (a >= 0) == (b >= 0) else -q
        raise CheckerError('symbolic C integer division at line %d' % node.lineno)

    def assign(self, t, v, fr):
        if isinstance(t, ast.Name):
            if self.abstract_locals and fr.func is not None and isinstance(v, P):
                alias = self.abstract_locals.get((fr.func.qualname.split('.')[-1], t.id)) or self.abstract_locals.get(('*', t.id))
                if alias is not None:
                    self.local_defs.setdefault(alias, []).append((v, list(self.path.conds), getattr(t, 'lineno', None)))
                    v = P.atom(alias)
            if t.id in fr.globals_decl:
                fr.module.g[t.id] = v
            else:
                fr.l[t.id] = v
        elif isinstance(t, ast.Attribute):
            o = self.eval(t.value, fr)
            self.setattr(o, t.attr, v, t)
        elif isinstance(t, ast.Subscript):
            o = self.eval(t.value, fr)
            k = self.eval_index(t.slice, fr)
            self.store_subscript(o, k, v, t)
        elif isinstance(t, (ast.Tuple, ast.List)):
            vals = self.iterate(v, t)
            if len(vals) != len(t.elts):
                raise SymRaise('ValueError', ('unpack: expected %d values, got %d' % (len(t.elts), len(vals)),), t)
            for te, ve in zip(t.elts, vals):
                self.assign(te, ve, fr)
        else:
            raise CheckerError('unsupported assignment target %s' % t.__class__.__name__)

    def store_subscript(self, o, k, v, node):
        if hasattr(o, 'sym_store'):
            return o.sym_store(self, k, v, node)
        if isinstance(o, (list, dict)):
            try:
                o[k] = v
            except (IndexError, KeyError, TypeError) as e:
                raise SymRaise(e.__class__.__name__, (str(e),), node)
            return
        import numpy as np
        if isinstance(o, np.ndarray):
            try:
                o[k] = _unwrap0(v)
            except (IndexError, ValueError) as e:
                raise SymRaise(e.__class__.__name__, (str(e),), node)
            return
        raise CheckerError('line %d: store into %r' % (node.lineno, type(o)))

    def setattr(self, o, name, v, node=None):
        if isinstance(o, Obj):
            if self.on_attr_write:
                self.on_attr_write(o, name, v)
            if self.path is not None:
                self.path.log.append(('write', o.name, name))
            o.attrs[name] = v
            return
        if isinstance(o, Module):
            o.g[name] = v
            return
        if hasattr(o, 'sym_setattr'):
            return o.sym_setattr(self, name, v)
        raise CheckerError('setattr on %r.%s' % (o, name))

    # -- loops --------------------------------------------------------------------
    def loop_key(self, fr, node):
        return (fr.func.qualname if fr.func else fr.module.name, node.lineno)

    def st_For(self, s, fr):
        it = self.eval(s.iter, fr)
        if isinstance(it, SymRange):
            mode = self.loop_mode(fr, s)
            return mode.run_for(self, s, it, fr)
        if hasattr(it, 'factory') and hasattr(it, 'elem'):
            mode = self.loop_mode(fr, s)
            return mode.run_list(self, s, it, fr)
        if isinstance(it, range) and isinstance(s.target, ast.Name) and s.target.id in self.generic_concrete \
                and it.step == 1 and len(it) > 1:
            mode = self.loop_mode(fr, s)
            return mode.run_for(self, s, SymRange(it.start, it.stop), fr)
        vals = self.iterate(it, s)
        broke = False
        for v in vals:
            self.assign(s.target, v, fr)
            try:
                self.exec_block(s.body, fr)
            except _Continue:
                continue
            except _Break:
                broke = True
                break
        if not broke:
            self.exec_block(s.orelse, fr)

    def loop_mode(self, fr, s):
        q = fr.func.qualname if fr.func else fr.module.name
        for key in ((q, s.lineno), (q, '*'), ('*', '*')):
            if key in self.loop_modes:
                return self.loop_modes[key]
        raise CheckerError('%s:%d: loop over a symbolic range in %s needs an invariant/schema annotation'
                           % (fr.module.path, s.lineno, q))

    def st_While(self, s, fr):
        q = fr.func.qualname if fr.func else fr.module.name
        mode = self.loop_modes.get((q, s.lineno))
        if mode is not None:
            return mode.run_while(self, s, fr)
        n = 0
        while True:
            v = self.eval(s.test, fr)
            if not self.truth(v):
                self.exec_block(s.orelse, fr)
                return
            try:
                self.exec_block(s.body, fr)
            except _Continue:
                pass
            except _Break:
                return
            n += 1
            if n > 10000:
                raise CheckerError('%s:%d: while loop does not terminate concretely' % (fr.module.path, s.lineno))

    def iterate(self, it, node=None):
        if isinstance(it, (list, tuple)):
            return list(it)
        if isinstance(it, dict):
            return list(it.keys())
        if isinstance(it, (range, str)):
            return list(it)
        if isinstance(it, SymRange):
            raise CheckerError('line %s: iteration over symbolic range outside a for statement' % getattr(node, 'lineno', '?'))
        if hasattr(it, 'sym_iter'):
            return it.sym_iter(self)
        import numpy as np
        if isinstance(it, np.ndarray):
            return [it[i] for i in range(it.shape[0])]
        try:
            return list(it)
        except TypeError:
            if it is None or isinstance(it, (int, float, bool, P, Fraction, Obj)):
                raise SymRaise('TypeError', ('not iterable: %r' % (it,),), node)
            # a model object (symbolic list, abstract array, contract value) that the executor cannot iterate here: a gap of the
            # model, not a TypeError of the program
            raise CheckerError('line %s: iteration over %s is not modelled' % (getattr(node, 'lineno', '?'), type(it).__name__))

    # -- expressions ----------------------------------------------------------------
    def eval(self, e, fr):
        m = getattr(self, 'ex_' + e.__class__.__name__, None)
        if m is None:
            raise CheckerError('%s:%d: unsupported expression %s' % (fr.module.path, getattr(e, 'lineno', 0), e.__class__.__name__))
        return m(e, fr)

    def ex_Constant(self, e, fr):
        v = e.value
        if isinstance(v, float):
            return P.const(v)
        if isinstance(v, complex):
            return Opaque('complex', re=P.const(v.real), im=P.const(v.imag))
        return v

    def ex_JoinedStr(self, e, fr):
        return '<fstring>'

    def ex_Name(self, e, fr):
        n = e.id
        f = fr
        while f is not None:
            if n in f.l and n not in f.globals_decl:
                v = f.l[n]
                if isinstance(v, Poison) and not self.generic:
                    raise CheckerError('%s:%d: variable %s is loop-carried/undefined after a generic loop' % (fr.module.path, e.lineno, n))
                return v
            f = f.func.closure if (f.func is not None and f.func.closure is not None) else None
        if n in fr.module.g:
            return fr.module.g[n]
        if n in self.builtins:
            return self.builtins[n]
        raise SymRaise('NameError', (n,), e)

    def ex_Attribute(self, e, fr):
        o = self.eval(e.value, fr)
        return self.getattr(o, e.attr, e)

    def getattr(self, o, name, node=None):
        if isinstance(o, Obj):
            if name in o.attrs:
                if o.cls is not None:
                    note_attr_read(o.cls.name, name, o.attrs[name])
                if self.on_attr_read:
                    self.on_attr_read(o, name)
                if self.path is not None:
                    self.path.log.append(('read', o.name, name))
                return o.attrs[name]
            if name == '__class__':
                return o.cls
            if o.cls is not None:
                f = o.cls.find(name)
                if f is not None:
                    return BoundMethod(o, f)
                if name in o.cls.class_attrs:
                    return o.cls.class_attrs[name]
            if name == '__dict__':
                return o.attrs
            if o.cls is None or getattr(o, 'partial_model', False):
                # an object made by a contract (stand-in for a library / dependency object): a missing attribute is a gap of the
                # contract, not an AttributeError of the program
                raise CheckerError('line %s: attribute %s of the contract object %s is not modelled' % (getattr(node, 'lineno', '?'), name, o.name))
            raise SymRaise('AttributeError', ('%s has no attribute %s' % (o.name, name),), node)
        if isinstance(o, ClassVal):
            if name == '__name__':
                return o.name
            f = o.find(name)
            if f is not None:
                return f
            if name in o.class_attrs:
                return o.class_attrs[name]
            raise SymRaise('AttributeError', (name,), node)
        if isinstance(o, Module):
            if name in o.g:
                return o.g[name]
            try:
                return self.module(o.name + '.' + name)
            except SymRaise:
                raise SymRaise('AttributeError', ('module %s has no attribute %s' % (o.name, name),), node)
        if isinstance(o, ExternalModule):
            q = o.name + '.' + name
            if q in self.shims:
                return self.shims[q]
            return ExternalFunc(q)
        if isinstance(o, ExternalFunc):
            return ExternalFunc(o.qualname + '.' + name)
        if isinstance(o, Opaque):
            if name in o.f:
                return o.f[name]
            h = getattr(o, 'sym_getattr', None)
            if h is not None:
                return h(self, name)
            if ('attr:' + o.kind + '.' + name) in self.contracts:
                return self.contracts['attr:' + o.kind + '.' + name](self, o)
            raise CheckerError('line %s: attribute %s of opaque %s needs a contract' % (getattr(node, 'lineno', '?'), name, o.kind))
        if hasattr(o, 'sym_getattr'):
            return o.sym_getattr(self, name)
        if getattr(o, '_is_shim', False):
            try:
                return getattr(o, name)
            except AttributeError:
                raise CheckerError('line %s: shim %s has no attribute %s (needs a contract)' % (getattr(node, 'lineno', '?'), type(o).__name__, name))
        if isinstance(o, P):
            if name in ('real',):
                return o
            raise SymRaise('AttributeError', ('float has no attribute ' + name,), node)
        if isinstance(o, str):
            if name in ('lower', 'upper', 'format', 'join', 'startswith', 'endswith', 'split', 'strip', 'replace'):
                return getattr(o, name)
        if isinstance(o, (list, dict, tuple)):
            if name in ('append', 'extend', 'keys', 'values', 'items', 'get', 'index', 'pop', 'insert',
                        'copy', 'count', 'update', 'remove', 'sort', 'reverse', 'setdefault'):
                return getattr(o, name)
        import numpy as np
        if isinstance(o, np.ndarray):
            if name in ('shape', 'ndim', 'size', 'T'):
                return getattr(o, name)
            if name == 'dot':
                return lambda other: other.sym_rdot(self, o) if hasattr(other, 'sym_rdot') else o.dot(other)
            if name in ('any', 'all'):
                # truth of the entries: decided entry by entry on the current path (a symbolic entry splits the path)
                def anyall(axis=None, _o=o, _name=name):
                    if axis is not None:
                        raise CheckerError('ndarray.%s(axis=...) is not modelled' % _name)
                    for x in _o.reshape(-1):
                        x = _unwrap0(x)
                        t = self.truth(compare('!=', x, 0)) if isinstance(x, P) else bool(x)
                        if _name == 'any' and t:
                            return True
                        if _name == 'all' and not t:
                            return False
                    return _name == 'all'
                return anyall
            if name in ('ravel', 'copy', 'reshape', 'flatten', 'astype', 'sum', 'transpose', 'min', 'max', 'dot', 'tolist'):
                fn = getattr(o, name)
                if name == 'astype':
                    return lambda *a, **k: o.copy()
                return fn
        if o is None:
            raise SymRaise('AttributeError', ("'NoneType' object has no attribute '%s'" % name,), node)
        if isinstance(o, SymRaise) and name == 'args':
            return o.eargs
        if o is dict and name == 'fromkeys':
            # Python's own semantics: every key is bound to the SAME value object
            return lambda keys, value=None: dict.fromkeys(list(keys), value)
        raise CheckerError('line %s: getattr %r . %s unsupported' % (getattr(node, 'lineno', '?'), type(o).__name__, name))

    def eval_index(self, sl, fr):
        if isinstance(sl, ast.Slice):
            return slice(None if sl.lower is None else _toint(self.eval(sl.lower, fr)),
                         None if sl.upper is None else _toint(self.eval(sl.upper, fr)),
                         None if sl.step is None else _toint(self.eval(sl.step, fr)))
        if isinstance(sl, ast.Tuple):
            return tuple(self.eval_index(x, fr) for x in sl.elts)
        v = self.eval(sl, fr)
        return _toint(v)

    def ex_Subscript(self, e, fr):
        o = self.eval(e.value, fr)
        k = self.eval_index(e.slice, fr)
        return self.subscript(o, k, e)

    def subscript(self, o, k, node):
        if hasattr(o, 'sym_load'):
            return o.sym_load(self, k, node)
        if isinstance(o, Poison):
            raise CheckerError('line %d: subscript of loop-carried value %s' % (node.lineno, o.name))
        if isinstance(o, P):
            raise CheckerError('line %d: subscript of a symbolic scalar (the abstraction of this value needs a contract)' % node.lineno)
        if isinstance(k, P) or (isinstance(k, tuple) and any(isinstance(x, P) for x in k)):
            raise CheckerError('line %d: symbolic index into concrete container %r' % (node.lineno, type(o).__name__))
        try:
            return o[k]
        except KeyError as ex:
            raise SymRaise('KeyError', (k,), node)
        except IndexError as ex:
            if not is_plain(o):
                raise CheckerError('line %d: index %r of %s is not modelled (%s)' % (node.lineno, k, type(o).__name__, ex))
            raise SymRaise('IndexError', (str(ex),), node)
        except TypeError as ex:
            if not (is_plain(o) and is_plain(k)):
                raise CheckerError('line %d: subscript of %s with %s is not modelled (%s)' % (node.lineno, type(o).__name__, type(k).__name__, ex))
            raise SymRaise('TypeError', (str(ex),), node)

    def ex_Tuple(self, e, fr):
        out = []
        for x in e.elts:
            if isinstance(x, ast.Starred):
                out.extend(self.iterate(self.eval(x.value, fr), x))
            else:
                out.append(self.eval(x, fr))
        return tuple(out)

    def ex_List(self, e, fr):
        return list(self.ex_Tuple(e, fr))

    def ex_Set(self, e, fr):
        return set(self.ex_Tuple(e, fr))

    def ex_Dict(self, e, fr):
        d = {}
        for k, v in zip(e.keys, e.values):
            if k is None:
                d.update(self.eval(v, fr))
            else:
                d[self.eval(k, fr)] = self.eval(v, fr)
        return d

    def ex_ListComp(self, e, fr):
        if len(e.generators) == 1 and not e.generators[0].ifs:
            src = self.eval(e.generators[0].iter, fr)
            if hasattr(src, 'factory') and hasattr(src, 'elem'):
                from .induct import GList
                var = self.newname('j').replace('!', '')
                j = integer(var)
                self.assign(e.generators[0].target, src.elem(j), fr)
                return GList(self.eval(e.elt, fr), var, src.n)
        out = []
        self._comp(e.generators, 0, fr, lambda f2: out.append(self.eval(e.elt, f2)))
        return out

    def ex_GeneratorExp(self, e, fr):
        return self.ex_ListComp(e, fr)

    def ex_SetComp(self, e, fr):
        return set(self.ex_ListComp(e, fr))

    def ex_DictComp(self, e, fr):
        out = {}

        def add(f2):
            out[self.eval(e.key, f2)] = self.eval(e.value, f2)
        self._comp(e.generators, 0, fr, add)
        return out

    def _comp(self, gens, i, fr, emit):
        if i == len(gens):
            emit(fr)
            return
        g = gens[i]
        for v in self.iterate(self.eval(g.iter, fr), g.iter):
            self.assign(g.target, v, fr)
            if all(self.truth(self.eval(c, fr)) for c in g.ifs):
                self._comp(gens, i + 1, fr, emit)

    def ex_Lambda(self, e, fr):
        node = ast.FunctionDef(name='<lambda>', args=e.args, body=[ast.Return(value=e.body, lineno=e.lineno, col_offset=0)],
                               decorator_list=[], lineno=e.lineno, col_offset=0)
        f = Func(node, fr.module, (fr.func.qualname if fr.func else fr.module.name) + '.<lambda>')
        f.defaults = [self.eval(d, fr) for d in e.args.defaults]
        f.kw_defaults = [None if d is None else self.eval(d, fr) for d in e.args.kw_defaults]
        f.closure = fr
        return f

    def ex_IfExp(self, e, fr):
        if self.truth(self.eval(e.test, fr)):
            return self.eval(e.body, fr)
        return self.eval(e.orelse, fr)

    def ex_BoolOp(self, e, fr):
        if isinstance(e.op, ast.And):
            v = True
            for x in e.values:
                v = self.eval(x, fr)
                if not self.truth(v):
                    # Python returns the operand itself (a number that is zero on this path stays that number)
                    return v if not isinstance(v, Cond) else False
            return v if not isinstance(v, (Cond,)) else True
        v = False
        for x in e.values:
            v = self.eval(x, fr)
            if self.truth(v):
                return v if not isinstance(v, (Cond,)) else True
        return v if not isinstance(v, Cond) else False

    def ex_UnaryOp(self, e, fr):
        v = self.eval(e.operand, fr)
        if isinstance(e.op, ast.Not):
            if isinstance(v, Cond):
                return v.neg()
            return not self.truth(v)
        if isinstance(e.op, ast.USub):
            if isinstance(v, Poison):
                raise CheckerError('line %d: loop-carried %s used' % (e.lineno, v.name))
            return -v
        if isinstance(e.op, ast.UAdd):
            return v
        if isinstance(e.op, ast.Invert):
            if hasattr(v, 'sym_invert'):
                return v.sym_invert(self)
            if isinstance(v, Cond):
                return v.neg()
            if isinstance(v, bool):
                return not v
            return ~v
        raise CheckerError('unsupported unary op')

    def ex_Compare(self, e, fr):
        left = self.eval(e.left, fr)
        result = True
        for op, rn in zip(e.ops, e.comparators):
            right = self.eval(rn, fr)
            r = self.cmp1(op, left, right, e)
            if not isinstance(r, (Cond, bool)) and hasattr(r, 'shape'):
                if len(e.ops) != 1:
                    raise CheckerError('line %d: chained comparison of arrays' % e.lineno)
                return r
            if isinstance(r, Cond):
                if result is True:
                    result = r
                else:
                    result = Cond('and', result, r)
            elif not r:
                return False
            left = right
        return result

    def cmp1(self, op, a, b, node):
        name = op.__class__.__name__
        if name == 'Is':
            if hasattr(a, 'isnone') and b is None:
                return a.isnone
            if hasattr(b, 'isnone') and a is None:
                return b.isnone
            return a is b or (isinstance(a, (int, str, bool)) and isinstance(b, (int, str, bool)) and type(a) == type(b) and a == b and not isinstance(a, str))
        if name == 'IsNot':
            r = self.cmp1(ast.Is(), a, b, node)
            return r.neg() if isinstance(r, Cond) else (not r)
        if name == 'In':
            if isinstance(b, (list, tuple, set)):
                for x in b:
                    r = self.cmp1(ast.Eq(), a, x, node)
                    if isinstance(r, Cond):
                        if self.truth(r):
                            return True
                    elif r:
                        return True
                return False
            if isinstance(b, dict) or type(b).__name__ in ('dict_keys', 'dict_values'):
                return a in b
            if isinstance(b, str):
                if not isinstance(a, str):
                    raise SymRaise('TypeError', ('in <string> requires string',), node)
                return a in b
            if hasattr(b, 'sym_contains'):
                return b.sym_contains(self, a)
            if b is None or isinstance(b, (int, P, bool)):
                raise SymRaise('TypeError', ("argument of type '%s' is not iterable" % ('NoneType' if b is None else type(b).__name__),), node)
            raise CheckerError('line %d: "in" on %r' % (node.lineno, type(b).__name__))
        if name == 'NotIn':
            r = self.cmp1(ast.In(), a, b, node)
            return r.neg() if isinstance(r, Cond) else (not r)
        sym = {'Eq': '==', 'NotEq': '!=', 'Lt': '<', 'LtE': '<=', 'Gt': '>', 'GtE': '>='}[name]
        if hasattr(a, 'sym_compare'):
            return a.sym_compare(self, sym, b)
        if hasattr(b, 'sym_compare'):
            flip = {'==': '==', '!=': '!=', '<': '>', '<=': '>=', '>': '<', '>=': '<='}[sym]
            return b.sym_compare(self, flip, a)
        if a.__class__.__name__ == 'LenOf':
            ne = a.gl.nonempty
            if (sym, b) in (('>', 0), ('>=', 1), ('!=', 0)):
                return ne
            if (sym, b) in (('==', 0), ('<', 1), ('<=', 0)):
                return ne.neg() if isinstance(ne, Cond) else (not ne)
            raise CheckerError('line %d: comparison of a symbolic list length' % node.lineno)
        if isinstance(a, Cond) or isinstance(b, Cond):
            # comparisons with symbolic booleans: == False / == True
            if isinstance(a, Cond) and isinstance(b, bool) and sym in ('==', '!='):
                return a if (b == (sym == '==')) else a.neg()
            if isinstance(b, Cond) and isinstance(a, bool) and sym in ('==', '!='):
                return b if (a == (sym == '==')) else b.neg()
            raise CheckerError('line %d: comparison involving a symbolic boolean' % node.lineno)
        if isinstance(a, Poison) or isinstance(b, Poison):
            raise CheckerError('line %d: loop-carried value compared (%s)' % (node.lineno, a if isinstance(a, Poison) else b))
        if type(a).__name__ in ('InArray', 'OutArray') or type(b).__name__ in ('InArray', 'OutArray'):
            # element-wise comparison with an array whose entries are not enumerated: an abstract mask (np.any / np.all of it is one
            # boolean unknown, anything else that looks into it is a checker error)
            arr = a if type(a).__name__ in ('InArray', 'OutArray') else b
            return AbstractMask((sym, repr(a), repr(b)), getattr(arr, 'shape', None))
        a, b = _unwrap0(a), _unwrap0(b)
        if isinstance(a, P) or isinstance(b, P):
            if a is None or b is None:
                if sym in ('==', '!='):
                    return sym == '!='
                raise SymRaise('TypeError', ('comparison with None',), node)
            if isinstance(a, (str, list, tuple, dict)) or isinstance(b, (str, list, tuple, dict)):
                if sym in ('==', '!='):
                    return sym == '!='
                raise SymRaise('TypeError', ('unorderable',), node)
            return compare(sym, a, b)
        if (a is None or b is None) and sym not in ('==', '!='):
            raise SymRaise('TypeError', ("'%s' not supported between NoneType and number" % sym,), node)
        if isinstance(a, (list, tuple)) and isinstance(b, (list, tuple)) and type(a) is type(b) and _holds_symbols(a, b):
            # sequences with symbolic items: equal iff every pair of items is equal (a conjunction of conditions, not Python's
            # structural equality of the polynomial objects)
            if sym not in ('==', '!='):
                raise CheckerError('line %s: ordering of sequences with symbolic items is not modelled' % getattr(node, 'lineno', '?'))
            if len(a) != len(b):
                return sym == '!='
            acc = True
            for x, y in zip(a, b):
                r = self.cmp1(ast.Eq(), x, y, node)
                if isinstance(r, Cond):
                    acc = r if acc is True else Cond('and', acc, r)
                elif not r:
                    acc = False
                    break
            if sym == '==':
                return acc
            return acc.neg() if isinstance(acc, Cond) else (not acc)
        import numpy as np
        if isinstance(a, np.ndarray) or isinstance(b, np.ndarray):
            raise CheckerError('line %d: array comparison not supported' % node.lineno)
        if isinstance(a, (Obj, Opaque)) or isinstance(b, (Obj, Opaque)):
            if sym == '==':
                return a is b
            if sym == '!=':
                return a is not b
        try:
            return compare(sym, a, b)
        except TypeError as ex:
            if not (is_plain(a) and is_plain(b)):
                raise CheckerError('line %s: comparison %s between %s and %s is not modelled' % (getattr(node, 'lineno', '?'), sym, type(a).__name__, type(b).__name__))
            raise SymRaise('TypeError', (str(ex),), node)

    def ex_BinOp(self, e, fr):
        a = self.eval(e.left, fr)
        b = self.eval(e.right, fr)
        return self.binop(e.op, a, b, e, fr)

    def binop(self, op, a, b, node, fr=None):
        name = op.__class__.__name__
        if isinstance(a, Poison) or isinstance(b, Poison):
            raise CheckerError('line %d: loop-carried value %s used in arithmetic (loop needs an invariant)'
                               % (node.lineno, a if isinstance(a, Poison) else b))
        a0, b0 = a, b
        a, b = _unwrap0(a), _unwrap0(b)
        if a is None or b is None:
            if name in ('Add', 'Sub', 'Mult', 'Div', 'Pow', 'Mod', 'FloorDiv'):
                raise SymRaise('TypeError', ("unsupported operand type(s) for %s: NoneType" % name,), node)
        try:
            if name == 'Add':
                return a + b
            if name == 'Sub':
                return a - b
            if name == 'Mult':
                return a * b
            if name == 'MatMult':
                import numpy as np
                return np.dot(a, b)
            if name == 'Div':
                if isinstance(a, int) and isinstance(b, int) and not isinstance(a, bool):
                    # python-3 true division; in .pyx with cdivision both-int means C division
                    if fr is not None and fr.module.kind == 'pyx' and self._both_c_int(node, fr):
                        return self.c_intdiv(a, b, node)
                    if b == 0:
                        raise SymRaise('ZeroDivisionError', (), node)
                    return P.const(Fraction(a, b))
                if isinstance(b, P):
                    return self.divide(a, b, node)
                if isinstance(b, (int, Fraction)):
                    if b == 0:
                        raise SymRaise('ZeroDivisionError', (), node)
                    if isinstance(a, P):
                        return a / b
                return a / b
            if name == 'FloorDiv':
                if isinstance(a, int) and isinstance(b, int):
                    if b == 0:
                        raise SymRaise('ZeroDivisionError', (), node)
                    return a // b
                return self.sym_floordiv(a, b, node)
            if name == 'Mod':
                if isinstance(a, str):
                    return a
                if isinstance(a, int) and isinstance(b, int):
                    if b == 0:
                        raise SymRaise('ZeroDivisionError', (), node)
                    return a % b
                return self.sym_mod(a, b, node)
            if name == 'Pow':
                if isinstance(a, P) or isinstance(b, P):
                    a = a if isinstance(a, P) else P.const(a)
                    if isinstance(b, P) and not b.is_const():
                        if isinstance(a, P) and a.is_const() and a.const_value() == -1:
                            from . import trig as _trig
                            return _trig.sgn(b)
                        raise CheckerError('line %d: symbolic exponent' % node.lineno)
                    ex = b.const_value() if isinstance(b, P) else b
                    if isinstance(ex, Fraction) and ex.denominator == 1:
                        ex = int(ex)
                    if isinstance(ex, int) and ex < 0:
                        return self.divide(P.const(1), a ** (-ex), node)
                    return a ** ex
                return a ** b
            if name == 'BitAnd':
                return a & b
            if name == 'BitOr':
                return a | b
        except TypeError as ex:
            if isinstance(a, (P, int, Fraction)) and isinstance(b, (P, int, Fraction)):
                raise
            plain = (type(None), str, bytes, list, tuple, dict, set, int, float, bool, complex, Fraction, P, Obj)
            if not (isinstance(a, plain) and isinstance(b, plain)):
                # an abstract value (array model, opaque term) that does not implement the operation: a gap of the model, not a
                # TypeError of the program
                raise CheckerError('line %s: %s between %s and %s is not modelled' % (getattr(node, 'lineno', '?'), name, type(a).__name__, type(b).__name__))
            raise SymRaise('TypeError', (str(ex),), node)
        except ZeroDivisionError:
            raise SymRaise('ZeroDivisionError', (), node)
        raise CheckerError('line %d: unsupported binary operator %s' % (node.lineno, name))

    def _both_c_int(self, node, fr):
        def isint(n):
            if isinstance(n, ast.Constant):
                return isinstance(n.value, int)
            if isinstance(n, ast.Name):
                return fr.ctypes.get(n.id) in ('int', 'long')
            if isinstance(n, ast.BinOp):
                return isint(n.left) and isint(n.right)
            return False
        return isinstance(node, ast.BinOp) and isint(node.left) and isint(node.right)

    def divide(self, a, b, node):
        """a / b with b symbolic: emits the non-zero side obligation"""
        b = normal(b)
        if b.is_const():
            if b.const_value() == 0:
                raise SymRaise('ZeroDivisionError', (), node)
            return a * (1 / b.const_value()) if not isinstance(a, P) else a / b
        nz = Cond('cmp', '!=', b)
        if self.path is not None:
            try:
                txt = ast.unparse(node.right if isinstance(node, ast.BinOp) else node.value)
            except Exception:
                txt = '?'
            self.path.obligations.append(('nonzero-denominator', nz, list(self.path.conds), getattr(node, 'lineno', None), txt,
                                          self.trace_calls[-1] if self.trace_calls else '<module>'))
            # the division was executed, so on the rest of this path the divisor is non-zero
            self.path.conds.append(nz)
            self.div_conds.append(nz)
        a = a if isinstance(a, P) else (P.const(a) if not hasattr(a, '__truediv__') or isinstance(a, (int, Fraction)) else a)
        return a / b

    def sym_floordiv(self, a, b, node):
        if isinstance(a, P) and is_int_valued(a) and isinstance(b, int) and b > 0:
            q = integer('floordiv(%s,%d)' % (normal(a).text(), b))
            if self.path is not None:
                qz, az = to_z3(q), to_z3(a)
                self.path.conds.append(Cond('z3', z3.And(b * qz <= az, az < b * qz + b)))
            return q
        # floor division of reals: the uninterpreted floor of the exact quotient (equal to the quotient only when that is an integer)
        a_ = a if isinstance(a, P) else P.const(a) if isinstance(a, (int, float, Fraction)) else None
        b_ = b if isinstance(b, P) else P.const(b) if isinstance(b, (int, float, Fraction)) else None
        if a_ is not None and b_ is not None:
            quo = self.divide(a_, b_, node)
            return P.atom('floor(%s)' % normal(quo).text())
        raise CheckerError('line %d: symbolic floor division needs a contract' % node.lineno)

    def sym_mod(self, a, b, node):
        raise CheckerError('line %d: symbolic modulo needs a contract' % node.lineno)

    def ex_Yield(self, e, fr):
        f = fr
        while f is not None and not hasattr(f, 'yielded'):
            f = f.func.closure if (f.func is not None and f.func.closure is not None) else None
        if f is None:
            raise CheckerError('yield outside a generator function')
        f.yielded.append(None if e.value is None else self.eval(e.value, fr))
        return None

    def ex_Starred(self, e, fr):
        raise CheckerError('starred expression outside call/tuple')

    # -- calls --------------------------------------------------------------------------
    def ex_Call(self, e, fr):
        if isinstance(e.func, ast.Name) and e.func.id == 'exec' and len(e.args) == 1:
            src = self.eval(e.args[0], fr)
            if not isinstance(src, str):
                raise CheckerError('exec of a non-string')
            self.exec_block(ast.parse(src).body, fr)
            return None
        f = self.eval(e.func, fr)
        args = []
        for a in e.args:
            if isinstance(a, ast.Starred):
                args.extend(self.iterate(self.eval(a.value, fr), a))
            else:
                args.append(self.eval(a, fr))
        kwargs = {}
        for k in e.keywords:
            if k.arg is None:
                kwargs.update(self.eval(k.value, fr))
            else:
                kwargs[k.arg] = self.eval(k.value, fr)
        return self.call(f, args, kwargs, e)

    def call(self, f, args, kwargs, node=None):
        if isinstance(f, BoundMethod):
            q = f.func.qualname
            if q in self.contracts:
                return self.contracts[q](self, [f.obj] + list(args), kwargs)
            return self.call_func(f.func, [f.obj] + list(args), kwargs, node)
        if isinstance(f, Func):
            if f.qualname in self.contracts:
                return self.contracts[f.qualname](self, list(args), kwargs)
            return self.call_func(f, list(args), kwargs, node)
        if isinstance(f, ExternalFunc):
            c = self.contracts.get(f.qualname)
            if c is None:
                raise CheckerError('line %s: call of %s needs a contract' % (getattr(node, 'lineno', '?'), f.qualname))
            return c(self, list(args), kwargs)
        if isinstance(f, ClassVal):
            q = f.module.name + '.' + f.name
            if q in self.contracts:
                return self.contracts[q](self, list(args), kwargs)
            o = Obj(f)
            o.name = '%s#%d' % (f.name, self._next_obj())
            init = f.find('__init__')
            if init is not None:
                self.call_func(init, [o] + list(args), kwargs, node)
            return o
        if isinstance(f, ExcClass):
            return SymRaise(f.name, tuple(args))
        if callable(f):
            try:
                if getattr(f, '_needs_node', False):
                    return f(*args, _node=node, **kwargs)
                return f(*args, **kwargs)
            except (SymRaise, CheckerError, Infeasible, Undecided, _Return, _Break, _Continue):
                raise
            except (TypeError, ValueError, IndexError, KeyError, ZeroDivisionError, AttributeError) as ex:
                # exceptions of builtins / shims operating on concrete data are
                # exceptions of the interpreted program
                if isinstance(ex, TypeError) and 'symbolic' in str(ex):
                    raise CheckerError('line %s: %s' % (getattr(node, 'lineno', '?'), ex))
                if isinstance(ex, (TypeError, AttributeError)) and not (all(is_plain(a_) for a_ in args) and all(is_plain(v_) for v_ in kwargs.values())):
                    # a builtin / shim applied to a value of the model: not modelled, rather than an exception of the program
                    raise CheckerError('line %s: %s applied to a model value is not modelled (%s)' % (getattr(node, 'lineno', '?'), getattr(f, '__name__', f), ex))
                raise SymRaise(ex.__class__.__name__, (str(ex),), node)
        raise SymRaise('TypeError', ('%r is not callable' % (f,),), node)

    _objctr = 0

    def _next_obj(self):
        Interp._objctr += 1
        return Interp._objctr

    def call_func(self, f, args, kwargs, node=None):
        a = f.node.args
        names = [x.arg for x in a.posonlyargs] + [x.arg for x in a.args]
        fr = Frame(f.module, f, f.ctypes)
        if len(args) > len(names) and a.vararg is None:
            raise SymRaise('TypeError', ('%s() takes %d positional arguments but %d were given' % (f.qualname, len(names), len(args)),), node)
        for n, v in zip(names, args):
            fr.l[n] = v
        if a.vararg is not None:
            fr.l[a.vararg.arg] = tuple(args[len(names):])
        extra = {}
        kwonly = [x.arg for x in a.kwonlyargs]
        for k, v in kwargs.items():
            if k in names:
                if k in fr.l:
                    raise SymRaise('TypeError', ('%s() got multiple values for argument %s' % (f.qualname, k),), node)
                fr.l[k] = v
            elif k in kwonly:
                fr.l[k] = v
            elif a.kwarg is not None:
                extra[k] = v
            else:
                raise SymRaise('TypeError', ("%s() got an unexpected keyword argument '%s'" % (f.qualname, k),), node)
        if a.kwarg is not None:
            fr.l[a.kwarg.arg] = extra
        defaults = f.defaults or []
        nd = len(defaults)
        # parameter coverage: which optional parameters were ever given explicitly (reported in the evidence)
        if f.module.kind == 'py' and nd:
            cov = PARAM_COVER.setdefault(f.qualname, {})
            for idx, n in enumerate(names):
                if idx - (len(names) - nd) >= 0:
                    cov[n] = cov.get(n, False) or (n in fr.l)
        for idx, n in enumerate(names):
            if n not in fr.l:
                di = idx - (len(names) - nd)
                if di >= 0:
                    fr.l[n] = defaults[di]
                else:
                    raise SymRaise('TypeError', ("%s() missing required argument '%s'" % (f.qualname, n),), node)
        for idx, n in enumerate(kwonly):
            if n not in fr.l:
                d = (f.kw_defaults or [None] * len(kwonly))[idx]
                fr.l[n] = d
        self.call_depth += 1
        if self.call_depth > 60:
            raise CheckerError('call depth exceeded in %s' % f.qualname)
        self.trace_calls.append(f.qualname)
        is_gen = getattr(f, '_is_gen', None)
        if is_gen is None:
            is_gen = any(isinstance(n, (ast.Yield, ast.YieldFrom)) for n in ast.walk(f.node) if n is not f.node)
            f._is_gen = is_gen
        if is_gen:
            # generator functions are run eagerly: the yielded values are collected in a list (sound when the consumer
            # does not mutate what the generator reads between two items; assumption recorded by the checks)
            fr.yielded = []
        try:
            try:
                self.exec_block(f.node.body, fr)
                rv = None
            except _Return as r:
                rv = r.v
            if is_gen:
                rv = fr.yielded
            h = self.return_hooks.get(f.qualname)
            if h is not None:
                h(self, fr, rv)
            return rv
        finally:
            self.call_depth -= 1


def _load(t):
    import copy
    t2 = copy.copy(t)
    t2.ctx = ast.Load()
    return t2


def _toint(v):
    if isinstance(v, P) and v.is_const():
        c = v.const_value()
        if c.denominator == 1:
            return int(c)
    return v


def _unwrap0(v):
    """0-d numpy object arrays -> their element"""
    try:
        import numpy as np
        if isinstance(v, np.ndarray) and v.ndim == 0:
            return v.item()
        if isinstance(v, np.generic):
            return v.item()
    except ImportError:
        pass
    if isinstance(v, float):
        return P.const(v)
    return v


class _Super(object):
    def __init__(self, cls, obj):
        self.cls, self.obj = cls, obj

    def sym_getattr(self, interp, name):
        if isinstance(self.cls, ClassVal):
            for b in self.cls.bases:
                if isinstance(b, ClassVal):
                    f = b.find(name)
                    if f is not None:
                        return BoundMethod(self.obj, f)
        if name == '__init__':
            return lambda *a, **k: None
        raise SymRaise('AttributeError', ('super has no attribute ' + name,))


class SymRange(object):
    def __init__(self, lo, hi, step=1):
        self.lo, self.hi, self.step = lo, hi, step

    def __repr__(self):
        return 'SymRange(%r, %r)' % (self.lo, self.hi)


# ---------------------------------------------------------------------------
def make_builtins(interp):
    def b_range(*a):
        a = [_toint(x) for x in a]
        if any(isinstance(x, P) for x in a):
            if len(a) == 1:
                return SymRange(0, a[0])
            if len(a) == 2:
                return SymRange(a[0], a[1])
            raise CheckerError('symbolic range with step')
        return range(*a)

    def b_len(x):
        if hasattr(x, 'sym_len'):
            return x.sym_len(interp)
        return len(x)

    def b_isinstance(o, t):
        ts = t if isinstance(t, tuple) else (t,)
        for tt in ts:
            if isinstance(tt, ClassVal):
                if isinstance(o, Obj):
                    c = o.cls
                    stack = [c]
                    while stack:
                        x = stack.pop()
                        if x is tt:
                            return True
                        if isinstance(x, ClassVal):
                            stack.extend(x.bases)
            elif tt is int:
                if (isinstance(o, int) and not isinstance(o, bool)) or (isinstance(o, P) and is_int_valued(o) and False):
                    return True
            elif tt is float:
                if isinstance(o, P) and not is_int_valued(o):
                    return True
            elif tt in (list, tuple, dict, str, bool):
                if isinstance(o, tt):
                    return True
            elif hasattr(tt, 'sym_isinstance'):
                if tt.sym_isinstance(interp, o):
                    return True
            elif isinstance(tt, ExternalFunc):
                raise CheckerError('isinstance against external type %s needs a shim' % tt.qualname)
        return False

    def b_float(x):
        x = _unwrap0(x)
        if isinstance(x, P):
            return x
        if isinstance(x, (int, Fraction)):
            return P.const(x)
        if isinstance(x, str):
            return P.const(float(x))
        if not is_plain(x):
            raise CheckerError('float() of a model value %s' % type(x).__name__)
        raise SymRaise('TypeError', ('float() argument: %r' % (type(x).__name__,),))

    def b_int(x):
        x = _unwrap0(x)
        if isinstance(x, bool):
            return int(x)
        if isinstance(x, int):
            return x
        if isinstance(x, P):
            if x.is_const():
                c = x.const_value()
                return int(c)
            if is_int_valued(x):
                return x
            raise CheckerError('int() of symbolic real')
        if isinstance(x, str):
            return int(x)
        if not is_plain(x):
            raise CheckerError('int() of a model value %s' % type(x).__name__)
        raise SymRaise('TypeError', ('int() argument',))

    def b_abs(x):
        x = _unwrap0(x)
        if isinstance(x, P):
            if x.is_const():
                return P.const(abs(x.const_value()))
            if interp.algebraic_minmax:
                a = P.atom('abs(%s)' % normal(x).text())
                az, xz = to_z3(a), to_z3(x)
                interp.path.conds.append(Cond('z3', z3.And(az >= 0, z3.Or(az == xz, az == -xz))))
                return a
            if interp.truth(compare('>=', x, 0)):
                return x
            return -x
        return abs(x)

    def b_minmax(ismax):
        def f(*a, **kw):
            vals = list(a[0]) if len(a) == 1 else list(a)
            if not vals:
                raise SymRaise('ValueError', ('empty sequence',))
            if interp.algebraic_minmax and any(isinstance(_unwrap0(v), P) and not _unwrap0(v).is_const() for v in vals):
                ps = [_unwrap0(v) if isinstance(_unwrap0(v), P) else P.const(_unwrap0(v)) for v in vals]
                a = P.atom('%s(%s)' % ('max' if ismax else 'min', ','.join(normal(q).text() for q in ps)))
                az = to_z3(a)
                zs = [to_z3(q) for q in ps]
                interp.path.conds.append(Cond('z3', z3.And(z3.Or(*[az == q for q in zs]), *[(az >= q if ismax else az <= q) for q in zs])))
                return a
            best = vals[0]
            for v in vals[1:]:
                c = compare('>' if ismax else '<', _unwrap0(v), _unwrap0(best))
                if interp.truth(c):
                    best = v
            return best
        return f

    def b_sum(it, start=0):
        if hasattr(it, 'total') and hasattr(it, 'var'):
            return start + it.total()
        tot = start
        for v in interp.iterate(it):
            tot = tot + v
        return tot

    def b_bool(x=False):
        return interp.truth(x)

    def b_print(*a, **k):
        return None

    def b_getattr(o, name, *default):
        try:
            return interp.getattr(o, name)
        except SymRaise:
            if default:
                return default[0]
            raise

    def b_setattr(o, name, v):
        interp.setattr(o, name, v)

    def b_hasattr(o, name):
        try:
            interp.getattr(o, name)
            return True
        except SymRaise:
            return False

    def b_zip(*its):
        ls = [interp.iterate(i) for i in its]
        return list(zip(*ls))

    def b_enumerate(it, start=0):
        return list(enumerate(interp.iterate(it), start))

    def b_list(it=()):
        return list(interp.iterate(it))

    def b_tuple(it=()):
        return tuple(interp.iterate(it))

    def b_sorted(it, key=None, reverse=False):
        vals = interp.iterate(it)
        if key is not None:
            return sorted(vals, key=lambda v: interp.call(key, [v], {}), reverse=reverse)
        return sorted(vals, reverse=reverse)

    def b_map(f, *its):
        return [interp.call(f, list(a), {}) for a in zip(*[interp.iterate(i) for i in its])]

    def b_str(x=''):
        return x if isinstance(x, str) else '<str>'

    def b_type(o):
        if isinstance(o, Obj):
            return o.cls
        return type(o)

    def b_round(x, n=0):
        x = _unwrap0(x)
        if isinstance(x, P) and x.is_const():
            return P.const(Fraction(round(float(x.const_value()), n)))
        raise CheckerError('round() of symbolic value')

    def b_super(cls=None, obj=None):
        return _Super(cls, obj)

    b = {
        'range': b_range, 'xrange': b_range, 'len': b_len, 'isinstance': b_isinstance, 'float': b_float, 'int': b_int,
        'abs': b_abs, 'min': b_minmax(False), 'max': b_minmax(True), 'sum': b_sum, 'bool': b_bool,
        'print': b_print, 'getattr': b_getattr, 'setattr': b_setattr, 'hasattr': b_hasattr,
        'zip': b_zip, 'enumerate': b_enumerate, 'list': b_list, 'tuple': b_tuple, 'sorted': b_sorted,
        'map': b_map, 'str': b_str, 'repr': b_str, 'type': b_type, 'round': b_round,
        'dict': dict, 'set': set, 'True': True, 'False': False, 'None': None, 'object': None,
        'all': lambda it: all(interp.truth(v) for v in interp.iterate(it)),
        'any': lambda it: any(interp.truth(v) for v in interp.iterate(it)),
        'reversed': lambda it: list(reversed(interp.iterate(it))),
        'id': id, 'open': ExternalFunc('builtins.open'), 'super': b_super,
        '__name__': '<cmverif>', 'NotImplemented': NotImplemented,
    }
    for n, bases in EXC_TREE.items():
        b[n] = ExcClass(n, bases)
    return b
