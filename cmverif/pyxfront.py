"""F-PYX: mechanical, line-preserving .pyx -> Python rewrite (DESIGN 2.1).

What the rewrite does, and *all* it does:
  * ``cdef <type> a, b, ...`` declaration lines (incl. continuation lines ending
    in a comma) -> ``pass``; the declared C types are kept in ``Module.ctypes``.
  * ``cdef <type> x = e`` -> ``x = e``.
  * ``def/cdef/cpdef [rtype] f(<type> p, ...) [nogil]:`` -> ``def f(p, ...):``
    with the parameter C types kept in ``Module.sigs``.
  * ``cdef extern from ...:`` blocks are dropped; the declared names become
    *external functions* that must have a contract (``Module.externs``).
  * ``with nogil:`` -> ``if True:``.
  * ``&x[i]`` / ``&x[i, 0]`` -> ``PTR(x, i)`` / ``PTR(x, i, 0)``.
  * ``<type>expr`` casts are removed (``<double *>malloc(..)`` -> ``malloc(..)``).
  * ``prange(n, ...)`` is kept as a call named ``prange`` (the interpreter treats
    it as ``range`` and emits the independence obligation).
  * ``cimport`` / ``ctypedef`` / ``include`` lines: ``include`` is expanded
    textually, the others dropped.
  * compiler directive comments are recorded in ``Module.directives``.
Everything else reaches ``ast.parse`` token for token.
"""
import ast
import os
import re

CTYPE = r'(?:unsigned\s+)?(?:double|int|long|float|char|void|object|size_t|bint|cINT|cDOUBLE|complex|cc_attributes|str|bool|f_type|cftype|cfstraintype|cfNtype|unsigned|np\.ndarray(?:\[[^\]]*\])?)'
DECL_RE = re.compile(r'^(\s*)cdef\s+(' + CTYPE + r')\s*(\*+)?\s*(\[[^\]]*\])?\s*(.*)$')
DEF_RE = re.compile(r'^(\s*)(def|cdef|cpdef)\s+(?:inline\s+)?(?:' + CTYPE + r'\s*\**\s+)?\*?([A-Za-z_][A-Za-z_0-9]*)\s*\((.*)$')
CAST_RE = re.compile(r'<\s*(?:unsigned\s+)?[A-Za-z_][A-Za-z_0-9.]*\s*\**\s*>')
ADDR_RE = re.compile(r'&\s*([A-Za-z_][A-Za-z_0-9]*)\s*\[([^\]]*)\]')
ADDR0_RE = re.compile(r'&\s*([A-Za-z_][A-Za-z_0-9]*)\b(?!\s*\[)')


class PyxError(Exception):
    pass


class Module(object):
    def __init__(self, path):
        self.path = path
        self.ctypes = {}       # function -> {name: ctype}
        self.sigs = {}         # function -> [(ctype or None, name)]
        self.externs = set()
        self.directives = {}
        self.text = None
        self.tree = None
        self.funcs = {}        # name -> ast.FunctionDef
        self.lines = {}
        self.structs = {}
        self.included = []    # Module objects of textually included files, in order


def _split_params(s):
    out, depth, cur = [], 0, ''
    for ch in s:
        if ch in '([':
            depth += 1
        elif ch in ')]':
            depth -= 1
        if ch == ',' and depth == 0:
            out.append(cur)
            cur = ''
        else:
            cur += ch
    if cur.strip():
        out.append(cur)
    return out


def _strip_param(p):
    """'double [:, ::1] F' -> ('double[:, ::1]', 'F');  'x=3' -> (None, 'x=3')"""
    p = p.strip()
    if not p:
        return None, ''
    if p.startswith('*'):
        return None, p
    m = re.match(r'^(' + CTYPE + r')\s*(\*+)?\s*(\[[^\]]*\])?\s*([A-Za-z_][A-Za-z_0-9]*\s*(?:=.*)?)$', p)
    if m:
        ty = m.group(1) + (m.group(2) or '') + (m.group(3) or '')
        return ty, m.group(4).strip()
    return None, p


def rewrite(path, _depth=0):
    mod = Module(path)
    with open(path) as f:
        src = f.read().split('\n')
    out = []
    i = 0
    cur_func = '<module>'
    func_indent = -1
    n = len(src)
    while i < n:
        line = src[i]
        stripped = line.strip()
        indent = len(line) - len(line.lstrip())
        if stripped.startswith('#cython:'):
            for kv in stripped[len('#cython:'):].split(','):
                if '=' in kv:
                    k, v = kv.split('=', 1)
                    mod.directives[k.strip()] = v.strip()
            out.append(line)
            i += 1
            continue
        if stripped and not stripped.startswith('#') and indent <= func_indent:
            cur_func = '<module>'
            func_indent = -1
        # include
        m = re.match(r'^(\s*)include\s+[\'"]([^\'"]+)[\'"]', line)
        if m:
            inc = os.path.join(os.path.dirname(path), m.group(2))
            if _depth > 3 or not os.path.exists(inc):
                raise PyxError('%s:%d: cannot expand include %s' % (path, i + 1, m.group(2)))
            sub = rewrite(inc, _depth + 1)
            mod.externs |= sub.externs
            for k, v in sub.ctypes.items():
                mod.ctypes.setdefault(k, {}).update(v)
            mod.sigs.update(sub.sigs)
            mod.structs.update(sub.structs)
            # included text is spliced on ONE logical position; to stay
            # line-preserving for the including file we keep it in a side list
            mod.lines.setdefault('includes', []).append((i + 1, inc, sub.text))
            mod.included.append(sub)
            out.append('pass' if indent else '')
            i += 1
            continue
        if re.match(r'^\s*(from\s+\S+\s+)?cimport\b', line) or re.match(r'^\s*ctypedef\b', line):
            # ctypedef struct blocks: drop the indented body too
            out.append(' ' * indent + 'pass' if indent else '')
            depth = line.count('(') - line.count(')')
            i += 1
            while depth > 0 and i < n:
                # prototype continued over several lines
                depth += src[i].count('(') - src[i].count(')')
                out.append('')
                i += 1
            if re.match(r'^\s*ctypedef\s+struct\b', line) or stripped.endswith(':'):
                while i < n and (not src[i].strip() or len(src[i]) - len(src[i].lstrip()) > indent):
                    out.append('')
                    i += 1
            continue
        # cdef extern block
        if re.match(r'^\s*cdef\s+extern\s+from\b', line):
            out.append('')
            i += 1
            while i < n and (not src[i].strip() or len(src[i]) - len(src[i].lstrip()) > indent):
                mm = re.match(r'^\s*(?:' + CTYPE + r')\s*\**\s*([A-Za-z_][A-Za-z_0-9]*)\s*\(', src[i])
                if mm:
                    mod.externs.add(mm.group(1))
                out.append('')
                i += 1
            continue
        # cdef struct NAME: block -> dropped; the field names are kept in Module.structs
        ms = re.match(r'^\s*cdef\s+struct\s+([A-Za-z_][A-Za-z_0-9]*)\s*:', line)
        if ms:
            fields = []
            out.append('')
            i += 1
            while i < n and (not src[i].strip() or len(src[i]) - len(src[i].lstrip()) > indent):
                mf = re.match(r'^\s*(' + CTYPE + r')\s*(\**)\s*([A-Za-z_][A-Za-z_0-9]*)\s*$', src[i].split('#')[0].rstrip())
                if mf:
                    fields.append((mf.group(3), mf.group(1) + mf.group(2)))
                out.append('')
                i += 1
            mod.structs[ms.group(1)] = fields
            continue
        # function definitions
        m = DEF_RE.match(line)
        if m and (m.group(2) != 'cdef' or '(' in line) and not re.match(r'^\s*cdef\s+' + CTYPE + r'\s*\**\s*\[', line) \
                and re.match(r'^\s*(def|cpdef)\b|^\s*cdef\s+(?:inline\s+)?' + CTYPE + r'\s*\**\s*\*?[A-Za-z_][A-Za-z_0-9]*\s*\(|^\s*cdef\s+(?!struct\b|extern\b|class\b)[A-Za-z_][A-Za-z_0-9]*\s*\(', line):
            # collect the whole header up to the closing '):'
            hdr = line
            j = i
            while not re.search(r'\)\s*(nogil|except\s*[^:]*)?\s*:\s*(#.*)?$', hdr):
                j += 1
                if j >= n:
                    raise PyxError('%s:%d: unterminated def header' % (path, i + 1))
                hdr += '\n' + src[j]
            mm = re.match(r'^(\s*)(?:def|cdef|cpdef)\s+(?:inline\s+)?(?:' + CTYPE + r'\s*\**\s+)?\*?([A-Za-z_][A-Za-z_0-9]*)\s*\((.*)\)\s*(?:nogil|except\s*[^:]*)?\s*:\s*(?:#.*)?$', hdr, re.S)
            if not mm:
                raise PyxError('%s:%d: cannot parse def header' % (path, i + 1))
            fname = mm.group(2)
            params = _split_params(mm.group(3).replace('\n', ' '))
            sig = []
            names = []
            for p in params:
                ty, nm = _strip_param(p)
                if nm:
                    sig.append((ty, nm.split('=')[0].strip()))
                    names.append(nm)
            mod.sigs[fname] = sig
            mod.ctypes[fname] = {nm: ty for ty, nm in sig if ty}
            cur_func = fname
            func_indent = indent
            new = '%sdef %s(%s):' % (mm.group(1), fname, ', '.join(names))
            out.append(new)
            for _ in range(j - i):
                out.append('')
            mod.lines[fname] = i + 1
            i = j + 1
            continue
        # cdef declarations
        m = DECL_RE.match(line)
        if m:
            ty = m.group(2) + (m.group(3) or '') + (m.group(4) or '')
            rest = m.group(5)
            code = rest.split('#')[0].rstrip()
            if '=' in code and not code.rstrip().endswith(','):
                # cdef type x = e
                nm = code.split('=')[0].strip()
                mod.ctypes.setdefault(cur_func, {})[nm] = ty
                out.append(m.group(1) + re.sub(r'sizeof\s*\([^)]*\)', 'SIZEOF', CAST_RE.sub('', code)))
                i += 1
                continue
            names = [x.strip() for x in code.split(',') if x.strip()]
            arrs = []
            if ty in mod.structs or ty == 'cc_attributes':
                # a C struct on the stack:  cdef cc_attributes args  ->  args = STRUCT('cc_attributes')
                for nm in names:
                    if re.match(r'^[A-Za-z_][A-Za-z_0-9]*$', nm):
                        arrs.append("%s = STRUCT('%s')" % (nm, ty))
            for nm in names:
                nm = nm.lstrip('*')
                ma = re.match(r'^([A-Za-z_][A-Za-z_0-9]*)\s*\[(.+)\]$', nm)
                if ma:
                    # C array on the stack:  cdef double F[6 * 6]
                    mod.ctypes.setdefault(cur_func, {})[ma.group(1)] = ty + '[]'
                    arrs.append('%s = CARRAY(%s)' % (ma.group(1), ma.group(2)))
                else:
                    mod.ctypes.setdefault(cur_func, {})[nm] = ty
            out.append(m.group(1) + ('; '.join(arrs) if arrs else 'pass'))
            cont = code.rstrip().endswith(',')
            i += 1
            # NOTE: in compmech a trailing comma is followed by a *new* cdef line,
            # which is itself a declaration; nothing else to do.
            continue
        # with nogil
        if re.match(r'^\s*with\s+(nogil|gil)\s*:', line):
            out.append(' ' * indent + 'if True:')
            i += 1
            continue
        new = line
        if 'sizeof' in new:
            new = re.sub(r'sizeof\s*\([^)]*\)', 'SIZEOF', new)
        if '&' in new:
            new = ADDR_RE.sub(lambda mo: 'PTR(%s, %s)' % (mo.group(1), mo.group(2)), new)
            new = ADDR0_RE.sub(lambda mo: 'PTR(%s)' % mo.group(1), new)
        if '<' in new and '>' in new:
            code, sep, comment = new.partition('#')
            code2 = CAST_RE.sub('', code)
            # do not destroy comparisons: a cast never has spaces around both < and > with operands
            if code2 != code and re.search(r'<\s*[A-Za-z_][A-Za-z_0-9.]*\s*\**\s*>\s*[A-Za-z_(]', code):
                new = code2 + sep + comment
        out.append(new)
        i += 1
    mod.text = '\n'.join(out)
    try:
        mod.tree = ast.parse(mod.text, filename=path)
    except SyntaxError as e:
        raise PyxError('%s: rewritten text does not parse: %s (line %s: %r)' % (path, e.msg, e.lineno, (out[e.lineno - 1] if e.lineno else '')))
    for node in mod.tree.body:
        if isinstance(node, ast.FunctionDef):
            mod.funcs[node.name] = node
    return mod


def function_source(path, fname):
    """raw .pyx lines of a function (for provenance comparison)"""
    with open(path) as f:
        src = f.read().split('\n')
    start = None
    for idx, l in enumerate(src):
        if re.match(r'^(def|cdef|cpdef)\b.*\b%s\s*\(' % re.escape(fname), l):
            start = idx
            break
    if start is None:
        return None
    end = start + 1
    while end < len(src) and (not src[end].strip() or src[end][0] in ' \t'):
        end += 1
    return start + 1, src[start:end]
