"""Replay on the real package: runs a script under /venv/bin/python with the
repository under test first on sys.path.  The script sees ``payload`` (dict) and
must set ``out`` (JSON-serialisable dict)."""
import json
import os
import subprocess
import tempfile
from .core import REPO

PY = os.environ.get('CMVERIF_REPLAY_PYTHON', '/venv/bin/python')

WRAP = '''
import sys, json, os, warnings
warnings.filterwarnings("ignore")
sys.path.insert(0, %r)
os.environ.setdefault("MPLBACKEND", "Agg")
payload = json.loads(sys.stdin.read())
out = {}
try:
%s
except Exception as _e:
    import traceback
    out = {"raised": type(_e).__name__ + ": " + str(_e), "traceback": traceback.format_exc()[-1500:]}
print("\\n@@RESULT@@" + json.dumps(out, default=str))
'''


def run_real(script, payload, timeout=600):
    body = '\n'.join('    ' + l for l in script.strip('\n').split('\n'))
    code = WRAP % (REPO, body)
    with tempfile.TemporaryDirectory() as td:
        path = os.path.join(td, 'replay.py')
        with open(path, 'w') as f:
            f.write(code)
        env = dict(os.environ)
        env.pop('PYTHONPATH', None)
        try:
            p = subprocess.run([PY, path], input=json.dumps(payload, default=str), capture_output=True, text=True,
                               timeout=timeout, cwd=td, env=env)
        except subprocess.TimeoutExpired:
            return {'replay_error': 'timeout'}
    txt = p.stdout
    if '@@RESULT@@' not in txt:
        return {'replay_error': 'no result', 'stderr': p.stderr[-1500:], 'stdout': txt[-500:]}
    try:
        return json.loads(txt.split('@@RESULT@@')[-1])
    except ValueError:
        return {'replay_error': 'bad json', 'stdout': txt[-500:]}


BUILD_COMMIT = '7809cbe'      # the commit the installed extension modules were built from


def binary_matches_source(rel_paths):
    """True when none of the given repository files differs from the commit the compiled extensions were built from
    (the extensions cannot be rebuilt in this sandbox, so a replay through them says nothing about an edited .pyx)"""
    if not os.path.isdir(os.path.join(REPO, '.git')):
        return False
    try:
        r = subprocess.run(['git', '-C', REPO, 'diff', '--quiet', BUILD_COMMIT, '--'] + list(rel_paths), capture_output=True, timeout=60)
        return r.returncode == 0
    except Exception:
        return False


def functions_match_build(rel_path, names):
    """True when the text of the named top-level functions of a .pyx file is the same as in the commit the extensions were built from
    (other functions of the file may have been repaired at source level since)"""
    import re
    try:
        r = subprocess.run(['git', '-C', REPO, 'show', '%s:%s' % (BUILD_COMMIT, rel_path)], capture_output=True, text=True, timeout=60)
        if r.returncode != 0:
            return False
        old = r.stdout
        new = open(os.path.join(REPO, rel_path)).read()
    except Exception:
        return False

    def grab(src, name):
        m = re.search(r'^(?:def|cdef [^\n(]*?)\s*%s\(' % re.escape(name), src, re.M)
        if not m:
            return None
        start = m.start()
        nxt = re.search(r'^(?:def |cdef |cpdef )', src[m.end():], re.M)
        return src[start:m.end() + nxt.start()] if nxt else src[start:]
    for n in names:
        a, b = grab(old, n), grab(new, n)
        if a is None or a != b:
            return False
    return True
