"""Guard against an unsound normal form (DESIGN 2.4, item 2): whenever the exact normal form declares  code == spec,
both sides are also evaluated numerically (floating point) at a pseudo-random point, from their UN-normalised term structure:
real atoms get values in [0.6, 1.4], integer atoms small integers, pi its value, reciprocal atoms the reciprocal of their
denominator polynomial, trigonometric atoms the sine / cosine of their evaluated argument, sgn[k] = (-1)^k, square-root atoms
the root of their radicand, every other (opaque) atom a value derived from its name.  A disagreement means that the normaliser
(or an identity it applies) is wrong: it is a checker error (exit 3), never a verdict.  An evaluation that cannot be carried
out (overflow, non-positive radicand, zero denominator) is skipped and counted."""
import hashlib
import math
import os

from .poly import P, DENOMS, SQRTS
from .core import CheckerError

STATS = {'checked': 0, 'skipped': 0}
RATE = float(os.environ.get('CMVERIF_NUMGUARD_RATE', '1.0'))


def _h(name, salt):
    return int(hashlib.sha1(('%s|%s' % (salt, name)).encode()).hexdigest()[:12], 16)


class Env(object):
    def __init__(self, salt):
        self.salt = salt
        self.cache = {}

    def atom(self, a):
        if a in self.cache:
            return self.cache[a]
        v = self._atom(a)
        self.cache[a] = v
        return v

    def _atom(self, a):
        from . import pysym, trig, shims
        if a == 'pi':
            return math.pi
        if a.startswith('inv['):
            d = self.poly(DENOMS[a])
            if abs(d) < 1e-9:
                raise ArithmeticError('zero denominator')
            return 1.0 / d
        if a in trig.TRIG:
            kind, base = trig.TRIG[a]
            x = self.poly(base)
            return math.sin(x) if kind == 'sin' else math.cos(x)
        if a in shims.TRIG_BASE:
            kind, base = shims.TRIG_BASE[a]
            x = self.poly(base)
            return math.sin(x) if kind == 'sin' else math.cos(x)
        if a.startswith('sgn['):
            k = self.atom(a[4:-1])
            return -1.0 if int(round(k)) % 2 else 1.0
        if a.startswith('sqrt['):
            r = self.poly(SQRTS[a])
            if r <= 0:
                raise ArithmeticError('non-positive radicand')
            return math.sqrt(r)
        if a.startswith('sin(') or a.startswith('cos('):
            # an atom of unknown provenance: pair sin / cos of the same text through one pseudo-random angle
            ang = (_h(a[4:-1], self.salt) % 10007) / 10007.0 * 2.0 + 0.1
            return math.sin(ang) if a.startswith('sin(') else math.cos(ang)
        h = _h(a, self.salt)
        if a in pysym.INT_ATOMS:
            return float(1 + h % 5)
        return 0.6 + (h % 100003) / 100003.0 * 0.8

    def poly(self, p):
        tot = 0.0
        for m, c in p.t.items():
            v = float(c)
            for a, e in m:
                x = self.atom(a)
                if e < 0 and abs(x) < 1e-12:
                    raise ArithmeticError('zero base of a negative power')
                v *= x ** e
            tot += v
        return tot


def check_equal(code, spec, what=''):
    """called after the normal form has declared code == spec"""
    if RATE < 1.0:
        if (_h(repr(sorted(code.t.items(), key=repr)[:3]), 'rate') % 1000) / 1000.0 >= RATE:
            return
    for salt in ('a', 'b'):
        env = Env(salt)
        try:
            x, y = env.poly(code), env.poly(spec)
        except (ArithmeticError, OverflowError, KeyError, ValueError, RecursionError):
            STATS['skipped'] += 1
            continue
        STATS['checked'] += 1
        scale = max(abs(x), abs(y), 1e-12)
        mag = 0.0
        try:
            for m, c in code.t.items():
                v = abs(float(c))
                for a, e in m:
                    v *= abs(env.atom(a)) ** e
                mag += v
        except Exception:
            mag = scale
        tol = 1e-7 * max(mag, scale)
        if abs(x - y) > tol:
            raise CheckerError('numeric guard: the normal form declares two expressions equal but they evaluate to %r and %r (%s)'
                               % (x, y, what or 'unnamed comparison'))
