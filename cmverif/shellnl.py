"""Harness for the non-linear shell kernels (ConeCyl): the integrand functions cfk0L / cfkG / cfkLL / cffint of the
``*_nonlinear.pyx`` modules are executed symbolically at ONE generic integration point (symbolic x, t, weight), the series
loops generically; the index loops of the wrappers calc_k0L / calc_kG / calc_kLL give rows and columns of the counters.
"""
import ast

import numpy as np

from .poly import P, normal
from .core import CheckerError
from . import kharness as K, kernel, trig, pysym, shellk as SK
from .pysym import real, integer, to_z3, Obj
from .kernel import OutArray, Slot, make_sum, ATOM_DEPS, deps_of


class IndexBuf(object):
    """malloc'ed scratch vector written inside a generic loop at index (var - const) and read later at (var' - const):
    the stored value as a function of the index"""
    def __init__(self, name):
        self.name = name
        self.entries = []      # (index polynomial, loop vars at the store, value)

    def sym_store(self, interp, k, v, node):
        k = normal(k if isinstance(k, P) else P.const(k))
        self.entries.append((k, tuple(g.var for g in interp.generic), v if isinstance(v, P) else P.const(v)))

    def sym_load(self, interp, k, node):
        k = normal(k if isinstance(k, P) else P.const(k))
        for idx, lv, val in reversed(self.entries):
            # idx is linear in exactly one loop variable of the store: solve idx(var) == k
            vs = [a for a in idx.atoms() if a in lv]
            if not vs:
                if normal(idx - k).is_zero():
                    return val
                continue
            if len(vs) != 1:
                # several loop variables (pos = (k2-i0)*n2 + (l2-j0)): the load index must be the same polynomial in other
                # loop variables
                import itertools
                cands = [a for a in k.atoms() if a in pysym.INT_ATOMS and a not in ('m1', 'm2', 'n2')]
                for perm in itertools.permutations(cands, len(vs)):
                    mp = {v_: P.atom(w_) for v_, w_ in zip(vs, perm)}
                    if normal(idx.subs(mp) - k).is_zero():
                        tmp = {v_: P.atom('%t_' + w_) for v_, w_ in zip(vs, perm)}
                        fin = {'%t_' + w_: P.atom(w_) for w_ in perm}
                        for w_ in perm:
                            pysym.INT_ATOMS.add('%t_' + w_)
                        return trig.tsubs(trig.tsubs(val, tmp), fin)
                raise CheckerError('line %d: scratch %s[%s] does not match the stored index %s' % (node.lineno, self.name, k.text(), idx.text()))
            v = vs[0]
            coef = idx.diff(v)
            if not coef.is_const():
                raise CheckerError('line %d: non-linear scratch index' % node.lineno)
            rest = normal(idx - coef * P.atom(v))
            sol = (k - rest) * (1 / coef.const_value())
            return trig.tsubs(val, {v: normal(sol)})
        raise CheckerError('line %d: read of unset scratch %s[%s]' % (node.lineno, self.name, k.text()))


class PointOut(OutArray):
    """output vector of an integrand function: out[k] = beta*out[k] + alpha*e  (k a slot counter or an amplitude index)"""
    def sym_load(self, interp, k, node):
        if isinstance(k, Slot):
            return P.atom('PREV<%s,%d>' % (self.name, k.seq))
        k = normal(k if isinstance(k, P) else P.const(k))
        return P.atom('PREV<%s,[%s]>' % (self.name, k.text()))

    def sym_store(self, interp, k, v, node):
        if isinstance(k, Slot):
            return OutArray.sym_store(self, interp, k, v, node)
        k = normal(k if isinstance(k, P) else P.const(k))
        prev = 'PREV<%s,[%s]>' % (self.name, k.text())
        v = v if isinstance(v, P) else P.const(v)
        if prev not in v.atoms():
            raise CheckerError('line %d: %s[..] overwritten instead of accumulated' % (node.lineno, self.name))
        rest = normal(v - P.atom(prev))
        if prev in rest.atoms():
            raise CheckerError('line %d: %s[..] updated non-additively' % (node.lineno, self.name))
        self.stores.append((k, rest, '+=', list(interp.path.conds), node.lineno, tuple(g.var for g in interp.generic)))


def make_interp():
    it = SK.make_interp()
    it.builtins['malloc'] = lambda *a: IndexBuf('scratch')
    return it


ISO_ARGS = None      # set to (E11, nu, h) by the caller for the iso_ modules


def point_args(it, mod, F, c):
    """the cc_attributes struct as an object whose pointer fields are one-element lists"""
    a = Obj(None)
    a.name = 'args'
    sina, cosa = real('sina'), real('cosa')
    vals = dict(sina=[sina], cosa=[cosa], tLA=[real('tLA')], r2=[real('r2')], L=[real('L')], F=F, m1=[integer('m1')], m2=[integer('m2')],
                n2=[integer('n2')], coeffs=c, c0=None, m0=[0], n0=[0])
    if ISO_ARGS is not None:
        vals.update(E11=[ISO_ARGS[0]], nu=[ISO_ARGS[1]], h=[ISO_ARGS[2]])
    for k, v in vals.items():
        a.attrs[k] = v
    return a


def install_slopes(it, modname, commons):
    """contracts: cfwx / cfwt / cfv of the commons module and the imperfection slopes fill their output with named atoms
    (cfwx etc. are proved equal to the canonical state sums separately)"""
    def filler(atom, pos):
        def contract(itp, args, kw):
            out = args[pos]
            if not isinstance(out, IndexBuf):
                raise CheckerError('slope contract: output is not a scratch buffer')
            out.entries.append((P.atom('i'), ('i',), P.atom(atom)))
            return None
        return contract
    m = it.module(modname)
    for nm, atom, pos in (('cfwx', 'WX', -1), ('cfwt', 'WT', -1), ('cfv', 'V', -1), ('cfw0x', 'w0x', -2), ('cfw0t', 'w0t', -2)):
        m.g[nm] = pysym.ExternalFunc(modname + '.' + nm)
        it.contracts[modname + '.' + nm] = filler(atom, pos)


def run_point_function(it, modname, fname, F, c, out):
    m, pi_ok = SK.load(it, modname)
    f = K.kernel_func(it, modname, fname)
    x, t, alpha = real('x'), real('t'), real('alpha')
    args = point_args(it, m, F, c)
    it.abstract_locals[(fname, 'r')] = 'r'
    n0 = len(it.local_defs.get('r', []))
    res = it.explore(lambda: it.call(f, [1, [x], [t], out, [alpha], [P.const(1)], args], {}))
    it.abstract_locals.pop((fname, 'r'), None)
    if len(res) != 1 or res[0][1][0] != 'return':
        raise CheckerError('%s.%s: expected exactly one returning path, got %r' % (modname, fname, [(o[0], getattr(o[1], 'eargs', None)) for _, o in res]))
    return dict(path=res[0][0], r_defs=[d[0] for d in it.local_defs.get('r', [])[n0:]], pi_ok=pi_ok, consts=SK.module_consts(m))


# ---------------------------------------------------------------------------------------------------------------
# specification: energy density at the point and its formal derivatives
class Spec(object):
    """U = 1/2 eps^T F eps r  at the point, eps = E0(c) + EL(slopes(c), imperfection slopes);
    E0 from the linear strain vectors of the model's strain function (or operator), slopes from the model's cfuvw field."""
    def __init__(self, it, strain_tab, field_tab, consts, F, kin, sina, cosa):
        self.it, self.tab, self.ftab, self.consts, self.F, self.kin = it, strain_tab, field_tab, consts, F, kin
        self.sina, self.cosa = sina, cosa
        self.c = SK.CoefArray('c')
        self.m1, self.m2, self.n2 = integer('m1'), integer('m2'), integer('n2')
        self.ne = len(next(iter(strain_tab.values()))[1])
        self.states = {}        # abstract atom -> canonical sum expression
        self._build_states()

    def camp(self, fam, vars_, p):
        idx = SK.dof_index(fam, vars_, p, self.consts, self.m1, self.m2)
        return self.c.sym_load(self.it, idx, None)

    def series(self, per_dof):
        """sum over all amplitudes of c_A * per_dof[(fam, p)] (generic loop-variable names i1 | i2, j2)"""
        c = self.consts
        tot = P({})
        for p in range(c['num0']):
            f = per_dof.get((0, p))
            if f is not None and not f.is_zero():
                tot = tot + self.camp(0, (), p) * f
        t1 = P({})
        for p in range(c['num1']):
            f = per_dof.get((1, p))
            if f is not None and not f.is_zero():
                t1 = t1 + self.camp(1, ('i1',), p) * f
        if not t1.is_zero():
            tot = tot + make_sum('i1', c['i0'], self.m1 + c['i0'], t1, [])
        t2 = P({})
        for p in range(c['num2']):
            f = per_dof.get((2, p))
            if f is not None and not f.is_zero():
                t2 = t2 + self.camp(2, ('i2', 'j2'), p) * f
        if not t2.is_zero():
            tot = tot + make_sum('j2', c['j0'], self.n2 + c['j0'], make_sum('i2', c['i0'], self.m2 + c['i0'], t2, []), [])
        return tot

    def dof_vec(self, key):
        lv, vec = self.tab[key]
        return vec

    def slope(self, key, comp, var):
        lv, fld = self.ftab[key]
        f = fld.get(comp)
        if f is None or f.is_zero():
            return P({})
        return trig.tdiff(trig.tsubs(f, {'cosa': self.cosa}), var)

    def value(self, key, comp):
        lv, fld = self.ftab[key]
        f = fld.get(comp)
        return trig.tsubs(f, {'cosa': self.cosa}) if f is not None else P({})

    def _build_states(self):
        keys = list(self.tab)
        for k in range(self.ne):
            self.states['E0_%d' % k] = self.series({key: self.tab[key][1][k] for key in keys})
        self.states['WX'] = self.series({key: self.slope(key, 'w', 'x') for key in self.ftab})
        self.states['WT'] = self.series({key: self.slope(key, 'w', 't') for key in self.ftab})
        if self.kin == 'sanders':
            self.states['V'] = self.series({key: self.value(key, 'v') for key in self.ftab})

    def nonlinear_strain(self, wx, wt, v):
        """quadratic part of the membrane strains (castro = 0: the imperfection alone is strain free)"""
        w0x, w0t = P.atom('w0x'), P.atom('w0t')
        ri = P.atom('r', -1)
        rot = wt if self.kin != 'sanders' else wt - self.cosa * v
        z = P({})
        out = [wx * wx * 0.5 + wx * w0x,
               (rot * rot * 0.5 + rot * w0t) * ri * ri,
               (wx * rot + wx * w0t + rot * w0x) * ri]
        return out + [z] * (self.ne - 3)

    def energy(self, A, B):
        """U(t, s) with increments t on amplitude A = (fam, p) (row names) and s on B (column names)"""
        t, s = P.atom('$t'), P.atom('$s')
        eA = SK.rename_table_entry(self.tab[A], 'A')
        eB = SK.rename_table_entry(self.tab[B], 'B')

        def ren(key, f, role):
            lv = self.ftab[key][0]
            new = SK.ROLE_VARS[(role, key[0])]
            return f if tuple(lv) == tuple(new) or f.is_zero() else trig.tsubs(f, {a: P.atom(b) for a, b in zip(lv, new)})
        wx = P.atom('WX') + t * ren(A, self.slope(A, 'w', 'x'), 'A') + s * ren(B, self.slope(B, 'w', 'x'), 'B')
        wt = P.atom('WT') + t * ren(A, self.slope(A, 'w', 't'), 'A') + s * ren(B, self.slope(B, 'w', 't'), 'B')
        v = P({})
        if self.kin == 'sanders':
            v = P.atom('V') + t * ren(A, self.value(A, 'v'), 'A') + s * ren(B, self.value(B, 'v'), 'B')
        eL = self.nonlinear_strain(wx, wt, v)
        eps = [P.atom('E0_%d' % k) + t * eA[k] + s * eB[k] + eL[k] for k in range(self.ne)]
        U = P({})
        for a in range(self.ne):
            for b in range(self.ne):
                Fab = self.F[a * self.ne + b] if not hasattr(self.F, 'shape') else self.F[a, b]
                if isinstance(Fab, P):
                    U = U + Fab * eps[a] * eps[b]
        return U * 0.5 * P.atom('r'), eps

    def expand(self, p):
        return trig.tnormal(p.subs(self.states))

    def fint_nl(self, A):
        """dU/dt at 0 minus the linear part e_A^T F E0 r"""
        U, eps = self.energy(A, A)
        full = U.diff('$t').subs({'$t': 0, '$s': 0})
        eA = SK.rename_table_entry(self.tab[A], 'A')
        lin = P({})
        for a in range(self.ne):
            if eA[a].is_zero():
                continue
            for b in range(self.ne):
                Fab = self.F[a * self.ne + b] if not hasattr(self.F, 'shape') else self.F[a, b]
                if isinstance(Fab, P):
                    lin = lin + eA[a] * Fab * P.atom('E0_%d' % b)
        return full - lin * P.atom('r')

    def tangent_nl(self, A, B):
        """d2U/dt ds at 0 minus the linear part e_A^T F e_B r"""
        U, eps = self.energy(A, B)
        full = U.diff('$t').diff('$s').subs({'$t': 0, '$s': 0})
        eA = SK.rename_table_entry(self.tab[A], 'A')
        eB = SK.rename_table_entry(self.tab[B], 'B')
        lin = P({})
        for a in range(self.ne):
            if eA[a].is_zero():
                continue
            for b in range(self.ne):
                Fab = self.F[a * self.ne + b] if not hasattr(self.F, 'shape') else self.F[a, b]
                if isinstance(Fab, P) and not eB[b].is_zero():
                    lin = lin + eA[a] * Fab * eB[b]
        return full - lin * P.atom('r')


# ---------------------------------------------------------------------------------------------------------------
# counters: the integrand function numbers its outputs with c += 1, the wrapper gives rows[c] / cols[c]
def _int_names(mod, fname):
    return {n for n, ty in mod.pyx.ctypes.get(fname, {}).items() if ty in ('int', 'long')}


def skeleton(stmts, ints, counter='c'):
    """control skeleton over the integer variables: loops, integer guards, continue, counter increments, integer assignments"""
    out = []
    for s in stmts:
        if isinstance(s, ast.For):
            inner = skeleton(s.body, ints, counter)
            if any(x[0] in ('inc', 'for') for x in _flatten(inner)):
                out.append(('for', ast.unparse(s.target), ast.unparse(s.iter), tuple(inner)))
        elif isinstance(s, ast.If):
            names = {n.id for n in ast.walk(s.test) if isinstance(n, ast.Name)}
            body, orelse = skeleton(s.body, ints, counter), skeleton(s.orelse, ints, counter)
            relevant = any(x[0] in ('inc', 'continue') for x in _flatten(body + orelse))
            if relevant:
                if not names <= ints:
                    raise CheckerError('line %d: counter advanced under a non-integer condition' % s.lineno)
                out.append(('if', ast.unparse(s.test), tuple(body), tuple(orelse)))
        elif isinstance(s, ast.Continue):
            out.append(('continue',))
        elif isinstance(s, ast.AugAssign) and isinstance(s.target, ast.Name) and s.target.id == counter:
            out.append(('inc', ast.unparse(s.value)))
        elif isinstance(s, ast.Assign) and len(s.targets) == 1 and isinstance(s.targets[0], ast.Name) and s.targets[0].id in ints \
                and s.targets[0].id in ('row', 'col', counter):
            out.append(('int', s.targets[0].id, ast.unparse(s.value)))
    return out


def _flatten(sk):
    for x in sk:
        yield x
        if x[0] == 'for':
            for y in _flatten(x[3]):
                yield y
        elif x[0] == 'if':
            for y in _flatten(x[2]):
                yield y
            for y in _flatten(x[3]):
                yield y


def strip_unused_ints(sk, used_in_guards):
    """row/col assignments matter only where a guard reads them"""
    out = []
    for x in sk:
        if x[0] == 'int' and x[1] in ('row', 'col') and not used_in_guards:
            continue
        if x[0] == 'for':
            out.append(('for', x[1], x[2], tuple(strip_unused_ints(x[3], used_in_guards))))
        elif x[0] == 'if':
            out.append(('if', x[1], tuple(strip_unused_ints(x[2], used_in_guards)), tuple(strip_unused_ints(x[3], used_in_guards))))
        else:
            out.append(x)
    return out


def point_loop_body(fnode):
    for s in fnode.body:
        if isinstance(s, ast.For) and isinstance(s.iter, ast.Call) and ast.unparse(s.iter) == 'range(npts)':
            return s.body
    raise CheckerError('%s: no loop over the integration points' % fnode.name)


def wrapper_index_part(fnode):
    """statements of the wrapper after the call of integratev"""
    for k, s in enumerate(fnode.body):
        if isinstance(s, ast.Expr) and isinstance(s.value, ast.Call) and getattr(s.value.func, 'id', None) == 'integratev':
            return fnode.body[k + 1:]
    raise CheckerError('%s: no call of integratev' % fnode.name)


def run_wrapper(it, modname, fname, F, c, iso=None):
    """executes calc_k0L / calc_kG / calc_kLL with integratev as a no-op; returns the slot stores of rows and cols"""
    m, _ = SK.load(it, modname)
    f = K.kernel_func(it, modname, fname)
    m.g['integratev'] = pysym.ExternalFunc(modname + '.integratev')
    it.contracts[modname + '.integratev'] = lambda itp, a, kw: None
    it.builtins['STRUCT'] = lambda name: Obj(None)
    mat = list(iso) if iso is not None else [F]
    args = [c, real('alpharad'), real('r2'), real('L'), real('tLA')] + mat + [integer('m1'), integer('m2'), integer('n2'),
            integer('nx'), integer('nt'), integer('num_cores'), 'trapz2d', None, 0, 0]
    res = it.explore(lambda: it.call(f, args, {}))
    if len(res) != 1 or res[0][1][0] != 'return':
        raise CheckerError('%s.%s: expected exactly one returning path, got %r' % (modname, fname, [(o[0], getattr(o[1], 'eargs', None)) for _, o in res]))
    coo = res[0][1][1]
    if not (isinstance(coo, pysym.Opaque) and coo.kind == 'coo'):
        raise CheckerError('%s.%s does not return a coo_matrix' % (modname, fname))
    return coo


def _mentions(sk, name):
    import re
    for x in _flatten(sk):
        if x[0] == 'if' and re.search(r'\b%s\b' % name, x[1]):
            return True
    return False


def prune(sk):
    """drops row/col assignments that no later guard (same list or nested) reads before they are assigned again"""
    out = []
    sk = list(sk)
    for k, x in enumerate(sk):
        if x[0] == 'int' and x[1] in ('row', 'col'):
            later = []
            for y in sk[k + 1:]:
                if y[0] == 'int' and y[1] == x[1]:
                    break
                later.append(y)
            if not _mentions(later, x[1]):
                continue
            out.append(x)
        elif x[0] == 'for':
            out.append(('for', x[1], x[2], tuple(prune(x[3]))))
        elif x[0] == 'if':
            out.append(('if', x[1], tuple(prune(x[2])), tuple(prune(x[3]))))
        else:
            out.append(x)
    return out


def aligned(it, modname, integrand, wrapper):
    """True when the counter of the integrand function and that of the wrapper run through the same control skeleton"""
    m, _ = SK.load(it, modname)
    fi = K.kernel_func(it, modname, integrand)
    fw = K.kernel_func(it, modname, wrapper)
    ski = prune(skeleton(point_loop_body(fi.node), _int_names(m, integrand)))
    skw = prune(skeleton(wrapper_index_part(fw.node), _int_names(m, wrapper)))
    # a row assignment hoisted differently: compare with the row/col definitions inlined is not attempted
    return ski == skw, ski, skw


def install_stress(it, modname, ne):
    """contract of cfN (proved separately on the commons text): Ns[k] = N<k>, the stress resultants of the current state"""
    def contract(itp, args, kw):
        out = args[-2]
        if not isinstance(out, IndexBuf):
            raise CheckerError('cfN contract: output is not a scratch buffer')
        for k in range(ne):
            out.entries.append((P.const(k), (), P.atom('N_%d' % k)))
        return None
    m = it.module(modname)
    m.g['cfN'] = pysym.ExternalFunc(modname + '.cfN')
    it.contracts[modname + '.cfN'] = contract


def collect_matrix(it, modname, integrand, wrapper, F, c, consts, iso=None):
    """emissions (row, col, val, conds, loopvars, line) of one non-linear matrix: values from the integrand function at the
    generic point, rows/cols from the wrapper, paired counter by counter"""
    out = PointOut('out', P.atom('fdim'))
    info = run_point_function(it, modname, integrand, F, c, out)
    coo = run_wrapper(it, modname, wrapper, _as_matrix(F), c, iso=iso)
    vals = [s for s in out.stores if isinstance(s[0], Slot)]
    rows = [s for s in coo.f['r'].stores if isinstance(s[0], Slot)]
    cols = [s for s in coo.f['c'].stores if isinstance(s[0], Slot)]
    if not (len(vals) == len(rows) == len(cols)):
        raise CheckerError('%s/%s: %d values but %d rows and %d columns' % (integrand, wrapper, len(vals), len(rows), len(cols)))
    div_ids = set(id(cd) for cd in it.div_conds)
    em = []
    for (kv, v, mode, cv, lv_line, lvv), (kr, r, _, cr, _, lvr), (kc, cc_, _, ccd, _, lvc) in zip(vals, rows, cols):
        gv = sorted(repr(x) for x in cv if id(x) not in div_ids and SK._is_index_cond(x))
        gr = sorted(repr(x) for x in cr if id(x) not in div_ids and SK._is_index_cond(x))
        if gv != gr or lvv != lvr or lvr != lvc:
            raise CheckerError('%s/%s: counter %d is reached under different guards / loops (%s | %s)' % (integrand, wrapper, len(em), gv, gr))
        if mode != '+=':
            raise CheckerError('%s: output not accumulated' % integrand)
        em.append({'row': r, 'col': cc_, 'val': v, 'conds': cv, 'loopvars': lvv, 'line': lv_line})
    return em, info


def _as_matrix(F):
    if hasattr(F, 'shape'):
        return F
    n = int(round(len(F) ** 0.5))
    a = np.empty((n, n), dtype=object)
    for i in range(n):
        for j in range(n):
            a[i, j] = F[i * n + j]
    return a


def transpose_emissions(ems):
    """virtual emissions of the transposed matrix with the loop-variable roles exchanged (i1<->k1, i2<->k2, j2<->l2)"""
    sw = {'i1': 'k1', 'k1': 'i1', 'i2': 'k2', 'k2': 'i2', 'j2': 'l2', 'l2': 'j2'}
    tmp = {a: P.atom('%s_' + a) for a in sw}
    fin = {'%s_' + a: P.atom(b) for a, b in sw.items()}
    for a in sw:
        pysym.INT_ATOMS.add('%s_' + a)
    out = []
    for h in ems:
        g = dict(h)
        g['A'] = (h['B'][0], SK.ROLE_VARS[('A', h['B'][0])], h['B'][2])
        g['B'] = (h['A'][0], SK.ROLE_VARS[('B', h['A'][0])], h['A'][2])
        g['val'] = trig.tsubs(trig.tsubs(h['val'], tmp), fin)
        g['guards'] = [pysym.Cond('cmp', cd.a, normal(cd.b.subs(tmp).subs(fin))) for cd in h['guards']]
        out.append(g)
    return out
