"""Harness for the non-linear shell kernels (ConeCyl): the integrand functions cfk0L / cfkG / cfkLL / cffint of the
``*_nonlinear.pyx`` modules are executed symbolically at ONE generic integration point (symbolic x, t, weight), the series
loops generically; the index loops of the wrappers calc_k0L / calc_kG / calc_kLL give rows and columns of the counters.
"""
import ast

import numpy as np

from .poly import P, normal
from .core import CheckerError
from . import kharness as K, kernel, trig, pysym, shellk as SK
from .pysym import real, integer, to_z3, Obj
from .kernel import OutArray, Slot, make_sum, ATOM_DEPS, deps_of


class IndexBuf(object):
    """malloc'ed scratch vector written inside a generic loop at index (var - const) and read later at (var' - const):
    the stored value as a function of the index"""
    def __init__(self, name):
        self.name = name
        self.entries = []      # (index polynomial, loop vars at the store, value)

    def sym_store(self, interp, k, v, node):
        k = normal(k if isinstance(k, P) else P.const(k))
        self.entries.append((k, tuple(g.var for g in interp.generic), v if isinstance(v, P) else P.const(v)))

    def sym_load(self, interp, k, node):
        k = normal(k if isinstance(k, P) else P.const(k))
        for idx, lv, val in reversed(self.entries):
            # idx is linear in exactly one loop variable of the store: solve idx(var) == k
            vs = [a for a in idx.atoms() if a in lv]
            if not vs:
                if normal(idx - k).is_zero():
                    return val
                continue
            if len(vs) != 1:
                raise CheckerError('line %d: scratch %s indexed by several loop variables' % (node.lineno, self.name))
            v = vs[0]
            coef = idx.diff(v)
            if not coef.is_const():
                raise CheckerError('line %d: non-linear scratch index' % node.lineno)
            rest = normal(idx - coef * P.atom(v))
            sol = (k - rest) * (1 / coef.const_value())
            return trig.tsubs(val, {v: normal(sol)})
        raise CheckerError('line %d: read of unset scratch %s[%s]' % (node.lineno, self.name, k.text()))


class PointOut(OutArray):
    """output vector of an integrand function: out[k] = beta*out[k] + alpha*e  (k a slot counter or an amplitude index)"""
    def sym_load(self, interp, k, node):
        if isinstance(k, Slot):
            return P.atom('PREV<%s,%d>' % (self.name, k.seq))
        k = normal(k if isinstance(k, P) else P.const(k))
        return P.atom('PREV<%s,[%s]>' % (self.name, k.text()))

    def sym_store(self, interp, k, v, node):
        if isinstance(k, Slot):
            return OutArray.sym_store(self, interp, k, v, node)
        k = normal(k if isinstance(k, P) else P.const(k))
        prev = 'PREV<%s,[%s]>' % (self.name, k.text())
        v = v if isinstance(v, P) else P.const(v)
        if prev not in v.atoms():
            raise CheckerError('line %d: %s[..] overwritten instead of accumulated' % (node.lineno, self.name))
        rest = normal(v - P.atom(prev))
        if prev in rest.atoms():
            raise CheckerError('line %d: %s[..] updated non-additively' % (node.lineno, self.name))
        self.stores.append((k, rest, '+=', list(interp.path.conds), node.lineno, tuple(g.var for g in interp.generic)))


def make_interp():
    it = SK.make_interp()
    it.builtins['malloc'] = lambda *a: IndexBuf('scratch')
    return it


def point_args(it, mod, F, c):
    """the cc_attributes struct as an object whose pointer fields are one-element lists"""
    a = Obj(None)
    a.name = 'args'
    sina, cosa = real('sina'), real('cosa')
    vals = dict(sina=[sina], cosa=[cosa], tLA=[real('tLA')], r2=[real('r2')], L=[real('L')], F=F, m1=[integer('m1')], m2=[integer('m2')],
                n2=[integer('n2')], coeffs=c, c0=None, m0=[0], n0=[0])
    for k, v in vals.items():
        a.attrs[k] = v
    return a


def install_slopes(it, modname, commons):
    """contracts: cfwx / cfwt / cfv of the commons module and the imperfection slopes fill their output with named atoms
    (cfwx etc. are proved equal to the canonical state sums separately)"""
    def filler(atom, pos):
        def contract(itp, args, kw):
            out = args[pos]
            if not isinstance(out, IndexBuf):
                raise CheckerError('slope contract: output is not a scratch buffer')
            out.entries.append((P.atom('i'), ('i',), P.atom(atom)))
            return None
        return contract
    m = it.module(modname)
    for nm, atom, pos in (('cfwx', 'WX', -1), ('cfwt', 'WT', -1), ('cfv', 'V', -1), ('cfw0x', 'w0x', -2), ('cfw0t', 'w0t', -2)):
        m.g[nm] = pysym.ExternalFunc(modname + '.' + nm)
        it.contracts[modname + '.' + nm] = filler(atom, pos)


def run_point_function(it, modname, fname, F, c, out):
    m, pi_ok = SK.load(it, modname)
    f = K.kernel_func(it, modname, fname)
    x, t, alpha = real('x'), real('t'), real('alpha')
    args = point_args(it, m, F, c)
    it.abstract_locals[(fname, 'r')] = 'r'
    n0 = len(it.local_defs.get('r', []))
    res = it.explore(lambda: it.call(f, [1, [x], [t], out, [alpha], [P.const(1)], args], {}))
    it.abstract_locals.pop((fname, 'r'), None)
    if len(res) != 1 or res[0][1][0] != 'return':
        raise CheckerError('%s.%s: expected exactly one returning path, got %r' % (modname, fname, [(o[0], getattr(o[1], 'eargs', None)) for _, o in res]))
    return dict(path=res[0][0], r_defs=[d[0] for d in it.local_defs.get('r', [])[n0:]], pi_ok=pi_ok, consts=SK.module_consts(m))
