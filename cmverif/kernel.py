"""Loop schemata for the Cython kernels (DESIGN 2.3).

GenericLoop: a ``for v in range(n)`` with symbolic ``n`` is executed ONCE with
``v`` a fresh integer symbol constrained to the range.  This is sound for the
"triplet emitter" and "accumulator" shapes because
  * every variable assigned in the body is poisoned at loop entry, so any read
    of a loop-carried value other than through the two schemata below stops the
    check (exit 3, "needs invariant") instead of producing a wrong VC;
  * slot counters (``c += 1``) only generate fresh slot tokens: the stores
    ``arr[c] = e`` are collected as a bag keyed by the token, which is exactly
    what ``coo_matrix((v, (r, c)))`` consumes (duplicates are summed, A4), so
    the numeric value of ``c`` is irrelevant provided it stays inside the
    arrays (checked separately as the capacity obligation);
  * pure accumulators (``x += e`` with no other assignment to ``x`` in the
    body) become  x_before + SUM_{v in range} e(v).
"""
import ast
from fractions import Fraction
import z3

from .poly import P, normal
from .core import CheckerError
from . import pysym
from .pysym import Poison, Cond, SymRange, _Break, _Continue, to_z3, cond_z3

SUMS = {}        # sum-atom name -> dict(var, lo, hi, body, conds)
ATOM_DEPS = {}   # atom -> set of atoms it depends on (for selects / sums)


def deps_of(p):
    out = set()
    if not isinstance(p, P):
        return out
    for a in p.atoms():
        out.add(a)
        out |= ATOM_DEPS.get(a, set())
    return out


class Slot(object):
    def __init__(self, seq, loopvars, conds):
        self.seq = seq
        self.loopvars = loopvars
        self.conds = conds

    def __repr__(self):
        return '<slot %d %s>' % (self.seq, self.loopvars)

    def __add__(self, o):
        raise CheckerError('arithmetic on a slot counter')
    __radd__ = __sub__ = __mul__ = __add__


class OutArray(object):
    """an output array of symbolic length filled through slot counters or
    symbolic indices.  stores: list of (key, value, mode, conds, lineno)"""
    def __init__(self, name, length, kind='double'):
        self.name = name
        self.length = length
        self.kind = kind
        self.stores = []

    def sym_store(self, interp, k, v, node):
        if isinstance(k, Slot) and isinstance(v, P):
            prev = 'PREV<%s,%d>' % (self.name, k.seq)
            if prev in v.atoms():
                rest = normal(v - P.atom(prev))
                if prev in rest.atoms():
                    raise CheckerError('line %d: slot of %s updated non-additively' % (node.lineno, self.name))
                self.stores.append((k, rest, '+=', list(interp.path.conds), node.lineno, tuple(g.var for g in interp.generic)))
                return
        self.stores.append((k, v, '=', list(interp.path.conds), node.lineno, tuple(g.var for g in interp.generic)))

    def sym_augstore(self, interp, k, op, v, node):
        if op != 'Add':
            raise CheckerError('line %d: only += is supported on output arrays' % node.lineno)
        if isinstance(k, slice) and isinstance(v, RowComb):
            # numpy broadcasting rule for the slice assignment: lengths must agree
            lo = k.start if k.start is not None else 0
            hi = k.stop if k.stop is not None else self.length
            ln = (hi if isinstance(hi, P) else P.const(hi)) - (lo if isinstance(lo, P) else P.const(lo))
            c = pysym.compare('==', ln, v.n)
            if not interp.truth(c):
                raise pysym.SymRaise('ValueError', ('operands could not be broadcast together: slice of length %s, value of length %s' % (ln, v.n),), node)
        self.stores.append((k, v, '+=', list(interp.path.conds), node.lineno, tuple(g.var for g in interp.generic)))

    def sym_augassign(self, interp, op, v, node):
        # whole-array in-place update  arr += value  (numpy: shapes must agree)
        if op != 'Add' or not isinstance(v, RowComb):
            return NotImplemented          # not the pattern handled here: ordinary binary-operator semantics apply
        ln = self.length if isinstance(self.length, P) else P.const(self.length)
        c = pysym.compare('==', ln, v.n)
        if not interp.truth(c):
            raise pysym.SymRaise('ValueError', ('operands could not be broadcast together: array of length %s, value of length %s' % (ln, v.n),), node)
        self.stores.append((slice(None), v, '+=', list(interp.path.conds), node.lineno, tuple(g.var for g in interp.generic)))
        return self

    def sym_load(self, interp, k, node):
        fill = getattr(self, 'fill', None)
        if fill is not None:
            # array filled by an external contract (e.g. quadrature points): loads are select atoms
            kt = normal(k).text() if isinstance(k, P) else str(k)
            a = '%s[%s]' % (fill, kt)
            if isinstance(k, P):
                d = deps_of(k)
                if d:
                    ATOM_DEPS[a] = d
            return P.atom(a)
        if isinstance(k, Slot):
            # arr[c] = arr[c] + e  : the previous content of the slot is a token that sym_store turns into '+='
            return P.atom('PREV<%s,%d>' % (self.name, k.seq))
        raise CheckerError('line %d: read of output array %s inside the kernel' % (node.lineno, self.name))

    def sym_getattr(self, interp, name):
        if name == 'shape':
            return (self.length,)
        raise CheckerError('attribute %s of output array' % name)

    def __repr__(self):
        return '<out %s[%s] %d stores>' % (self.name, self.length, len(self.stores))


class FilledMat(object):
    """a 2-D work array (dofs x size) allocated by np.zeros and filled by a kernel contract (fg): its rows are
    opaque vectors  row_d(fill)"""
    def __init__(self, name, shape):
        self.name = name
        self.shape = tuple(shape)
        self.fill = None       # set by the contract that writes it
        self.nfills = 0

    def sym_getattr(self, interp, name):
        if name == 'shape':
            return self.shape
        raise CheckerError('attribute %s of work matrix' % name)

    def sym_rdot(self, interp, left):
        """left (1 x dofs object array) . self  ->  linear combination of the rows"""
        import numpy as np
        if self.fill is None:
            raise CheckerError('work matrix used before being filled')
        left = np.asarray(left, dtype=object)
        if left.ndim != 2 or left.shape[0] != 1 or left.shape[1] != self.shape[0]:
            raise pysym.SymRaise('ValueError', ('shapes %s and %s not aligned' % (left.shape, self.shape),))
        return RowComb([(left[0, d], (d, self.fill)) for d in range(left.shape[1])], self.shape[1])


class RowComb(object):
    """sum_d coef_d * row_d(fill): a vector of length n"""
    def __init__(self, terms, n):
        self.terms = terms
        self.n = n

    def sym_getattr(self, interp, name):
        if name == 'ravel':
            return lambda: self
        if name == 'shape':
            return (1, self.n)
        raise CheckerError('attribute %s of a row combination' % name)

    def __mul__(self, k):
        return RowComb([(c * k, r) for c, r in self.terms], self.n)
    __rmul__ = __mul__


def user_array(name, shape=None):
    """an array argument of a public method: values and memory layout arbitrary (it may be a strided view)"""
    a = InArray(name, shape)
    a.contiguous = False
    return a


class InArray(object):
    """a read-only input array with symbolic contents: loads become select atoms"""
    contiguous = True          # user-supplied arrays of arbitrary memory layout are marked False by the harness (user_array)

    def __init__(self, name, shape=None):
        self.name = name
        self.shape = shape

    def __mul__(self, k):
        from .pysym import Opaque, _unwrap0
        k = _unwrap0(k)
        if isinstance(k, (int, float, Fraction)) and not isinstance(k, bool):
            k = P.const(k)
        if not isinstance(k, P):
            return NotImplemented
        if k.is_zero():
            return P.const(0)            # 0 * vector: the null vector (accumulators start from the scalar 0 in the package)
        return Opaque('scaled-vector', k=k, of=self.name)

    __rmul__ = __mul__

    def as_contiguous(self):
        """np.ascontiguousarray / a copy: same values, C-contiguous"""
        if self.contiguous:
            return self
        import copy
        o = copy.copy(self)
        o.contiguous = True
        return o

    def sym_load(self, interp, k, node):
        if isinstance(k, slice) and (k.step is None or k.step == 1):
            lo = k.start if k.start is not None else 0
            hi = k.stop if k.stop is not None else (self.shape[0] if self.shape else None)
            lo_p = lo if isinstance(lo, P) else P.const(lo)
            hi_p = hi if isinstance(hi, P) else P.const(hi)
            sub = InArray('%s[%s:%s]' % (self.name, normal(lo_p).text(), normal(hi_p).text()), shape=(hi_p - lo_p,))
            sub.base, sub.lo, sub.hi = self, lo_p, hi_p
            sub.contiguous = self.contiguous
            return sub
        ks = k if isinstance(k, tuple) else (k,)
        parts = []
        deps = set()
        for x in ks:
            if isinstance(x, P):
                parts.append(normal(x).text())
                deps |= deps_of(x)
            elif isinstance(x, int):
                parts.append(str(x))
            else:
                raise CheckerError('line %d: index %r into %s' % (node.lineno, x, self.name))
        a = '%s[%s]' % (self.name, ','.join(parts))
        if isinstance(self.shape, tuple) and len(ks) < len(self.shape):
            # fewer indices than dimensions: the sub-array (a view of the same input)
            sub = InArray(a, shape=tuple(self.shape[len(ks):]))
            sub.contiguous = self.contiguous
            interp.path.log.append(('load', self.name, ks))
            return sub
        if deps:
            ATOM_DEPS[a] = deps
        interp.path.log.append(('load', self.name, ks))
        return P.atom(a)

    def sym_store(self, interp, k, v, node):
        raise CheckerError('line %d: write to input array %s (frame violation)' % (node.lineno, self.name))

    sym_augstore = None

    def sym_getattr(self, interp, name):
        if name == 'shape' and self.shape is not None:
            return self.shape
        if name == 'ndim' and self.shape is not None:
            return len(self.shape)
        raise CheckerError('attribute %s of input array %s' % (name, self.name))

    def __repr__(self):
        return '<in %s>' % self.name


class GenericCtx(object):
    def __init__(self, var, lo, hi, counters, accumulators):
        self.var = var
        self.lo, self.hi = lo, hi
        self.counters = counters
        self.accs = accumulators      # name -> list of (rhs, conds)
        self.seq = 0

    def carried(self, interp, name, node, rhs, fr):
        if not isinstance(node.op, ast.Add):
            raise CheckerError('line %d: loop-carried %s updated with a non-additive operator' % (node.lineno, name))
        if name in self.counters:
            if not (isinstance(rhs, int) and rhs == 1):
                raise CheckerError('line %d: slot counter %s must advance by 1' % (node.lineno, name))
            COUNTER[0] += 1
            return Slot(COUNTER[0], tuple(g.var for g in interp.generic), list(interp.path.conds))
        if name in self.accs:
            self.accs[name].append((rhs, list(interp.path.conds)))
            return Poison(name)
        raise CheckerError('line %d: variable %s is loop-carried but neither a slot counter nor a pure accumulator'
                           % (node.lineno, name))


COUNTER = [0]


def assigned_names(body):
    names = {}
    for st in body:
        for n in ast.walk(st):
            if isinstance(n, ast.Assign):
                for t in n.targets:
                    for x in ast.walk(t):
                        if isinstance(x, ast.Name) and isinstance(x.ctx, ast.Store):
                            names.setdefault(x.id, []).append('=')
            elif isinstance(n, ast.AugAssign) and isinstance(n.target, ast.Name):
                names.setdefault(n.target.id, []).append('aug' + n.op.__class__.__name__)
            elif isinstance(n, ast.For):
                for x in ast.walk(n.target):
                    if isinstance(x, ast.Name):
                        names.setdefault(x.id, []).append('for')
    return names


import re as _re


def _depth(text):
    d = 0
    for mo in _re.finditer(r'\$(\d+)', text):
        d = max(d, int(mo.group(1)))
    return d


def rename_atom(a, old, new):
    """textual renaming of an index variable inside an atom name"""
    b = _re.sub(r'(?<![A-Za-z0-9_$])%s(?![A-Za-z0-9_])' % _re.escape(old), new, a)
    if b != a:
        from . import trig as _trig
        if a in _trig.TRIG:
            # trigonometric atoms are named after the canonical text of their base angle: rebuild instead of patching the text
            kind, base = _trig.TRIG[a]
            b = list(_trig._atom(kind, rename_var(base, old, new)).atoms())[0]
            if a in pysym.INT_ATOMS:
                pysym.INT_ATOMS.add(b)
            return b
        d = set(ATOM_DEPS.get(a, ()))
        if old in d:
            d.discard(old)
            d.add(new)
        ATOM_DEPS[b] = d
        if a in pysym.INT_ATOMS:
            pysym.INT_ATOMS.add(b)
        if a in SUMS:
            SUMS[b] = SUMS[a]
    return b


def rename_var(p, old, new):
    out = {}
    for m, c in p.t.items():
        nm = tuple(sorted((rename_atom(a, old, new), e) for a, e in m))
        out[nm] = out.get(nm, 0) + c
    return P({m: c for m, c in out.items() if c})


def make_sum(var, lo, hi, body, conds):
    """SUM_{lo <= var < hi, conds} body  as a linear combination of canonical sum atoms.

    Every monomial is split into the factor that does not depend on ``var`` (pulled out of the sum) and the dependent
    factor; the dummy of each resulting sum atom is named by the nesting depth of the dependent factor only, so that the
    same mathematical sum gets the same name wherever it is formed."""
    body = normal(body)
    conds = [c for c in conds if var in _cond_deps(c)]
    out = P({})
    groups = {}
    for m, c in body.t.items():
        indep = []
        dep = []
        for a, e in m:
            if a == var or var in ATOM_DEPS.get(a, ()):
                dep.append((a, e))
            else:
                indep.append((a, e))
        groups.setdefault(tuple(dep), P({}))
        groups[tuple(dep)] = groups[tuple(dep)] + P({tuple(indep): c})
    ctext = ' & '.join(sorted(repr(c) for c in conds))
    lo_t = lo.text() if isinstance(lo, P) else str(lo)
    hi_t = hi.text() if isinstance(hi, P) else str(hi)
    merged = {}
    for dep, coef in groups.items():
        if not dep and not ctext:
            # constant in var: (hi - lo) * coef
            n = (hi if isinstance(hi, P) else P.const(hi)) - (lo if isinstance(lo, P) else P.const(lo))
            out = out + coef * n
            continue
        inner = P({dep: 1})
        v = var
        if not conds:
            canon = '$%d' % (1 + max([_depth(a) for a, _ in dep] or [0]))
            pysym.INT_ATOMS.add(canon)
            inner = rename_var(inner, var, canon)
            v = canon
        key = (v, inner.text())
        if key in merged:
            merged[key] = (merged[key][0] + coef, merged[key][1])
        else:
            merged[key] = (coef, inner)
    for (v, _), (coef, inner) in merged.items():
        name = 'SUM{%s=%s..%s%s}(%s)' % (v, lo_t, hi_t, ('|' + ctext) if ctext else '', inner.text())
        d = set()
        for a in inner.atoms():
            d.add(a)
            d |= ATOM_DEPS.get(a, set())
        d.discard(v)
        d |= deps_of(lo) | deps_of(hi)
        ATOM_DEPS[name] = d
        SUMS[name] = dict(var=v, lo=lo, hi=hi, body=inner, conds=list(conds))
        out = out + coef * P.atom(name)
    return out


def _cond_deps(c):
    if isinstance(c, Cond):
        s = set()
        for a in c.atoms():
            s.add(a)
            s |= ATOM_DEPS.get(a, set())
        return s
    return set()


class GenericLoop(object):
    """loop annotation: execute a symbolic-range ``for`` once, generically"""
    def __init__(self, counters=('c',), local=False):
        self.counters = set(counters)
        # local=True: the paths through the body are explored inside the loop (nested decision lists) and joined
        # afterwards, instead of forking the rest of the function once per body path.  Sound for the same reason the
        # schema is: nothing assigned in the body survives the loop except stores (logged with their path
        # conditions), slot tokens and accumulator contributions (each tagged with its path conditions).
        self.local = local

    def run_for(self, interp, s, rng, fr):
        if not isinstance(s.target, ast.Name):
            raise CheckerError('line %d: generic loop needs a simple target' % s.lineno)
        if s.orelse:
            raise CheckerError('line %d: for/else not supported in generic loops' % s.lineno)
        vname = s.target.id
        # a fresh symbol named after the variable (+ suffix if the name is already bound symbolically in an enclosing generic loop)
        used = {g.var for g in interp.generic}
        sym = vname
        k = 1
        while sym in used:
            k += 1
            sym = '%s_%d' % (vname, k)
        v = pysym.integer(sym)
        assigned = assigned_names(s.body)
        accs = {}
        saved = {}
        for n, kinds in assigned.items():
            if n == vname:
                continue
            cur = fr.l.get(n, None)
            saved[n] = cur
            if n in self.counters:
                fr.l[n] = Poison(n)
            elif all(kd == 'augAdd' for kd in kinds) and n in fr.l:
                accs[n] = []
                fr.l[n] = Poison(n)
            elif n in fr.l:
                fr.l[n] = Poison(n)
        ctx = GenericCtx(sym, rng.lo, rng.hi, self.counters, accs)
        interp.generic.append(ctx)
        lo = rng.lo if isinstance(rng.lo, P) else P.const(rng.lo)
        hi = rng.hi if isinstance(rng.hi, P) else P.const(rng.hi)
        c_lo = pysym.compare('>=', v, lo)
        c_hi = pysym.compare('<', v, hi)
        base_conds = len(interp.path.conds)
        # the range facts are path facts while inside the body
        interp.path.conds.append(c_lo)
        interp.path.conds.append(c_hi)
        if not interp.feasible(interp.path.conds):
            # empty range on this path
            interp.generic.pop()
            del interp.path.conds[base_conds:]
            for n, cur in saved.items():
                if cur is not None:
                    fr.l[n] = cur
            return
        fr.l[vname] = v
        try:
            if self.local:
                self._run_local(interp, s, fr)
            else:
                try:
                    interp.exec_block(s.body, fr)
                except _Continue:
                    pass
                except _Break:
                    raise CheckerError('line %d: break inside a generic loop needs an invariant' % s.lineno)
        finally:
            interp.generic.pop()
        # conditions established inside the body (continue-guards) stay on the path only for
        # what was recorded; drop them now
        body_conds = interp.path.conds[base_conds + 2:]
        del interp.path.conds[base_conds:]
        # after the loop: accumulators get their sums, everything else assigned is poisoned
        for n in assigned:
            if n == vname:
                fr.l[n] = Poison(n)
                continue
            if n in accs:
                total = P({})
                for rhs, conds in accs[n]:
                    rhs = rhs if isinstance(rhs, P) else P.const(rhs)
                    extra = conds[base_conds + 2:]
                    sink = getattr(interp, 'term_sink', None)
                    if sink is not None and not any(a.startswith('SUM{') for a in rhs.atoms()):
                        # un-summed contribution of one generic iteration (used to read per-term operators off the code)
                        sink.append((n, tuple(g.var for g in interp.generic) + (sym,), rhs, list(extra)))
                    total = total + make_sum(sym, rng.lo, rng.hi, rhs, extra)
                init = saved[n]
                if isinstance(init, Poison):
                    # accumulator of an enclosing generic loop as well
                    if interp.generic and n in interp.generic[-1].accs:
                        interp.generic[-1].accs[n].append((total, list(interp.path.conds)))
                        fr.l[n] = Poison(n)
                    else:
                        raise CheckerError('line %d: accumulator %s has a loop-carried initial value' % (s.lineno, n))
                else:
                    fr.l[n] = init + total
            elif n in self.counters:
                fr.l[n] = Poison(n)
            else:
                fr.l[n] = Poison(n)

    def _run_local(self, interp, s, fr):
        outer = interp.path
        snapshot = dict(fr.l)
        base = list(outer.conds)
        work = [[]]
        npaths = 0
        try:
            while work:
                dec = work.pop()
                sub = pysym.Path(dec)
                sub.conds = list(base)
                sub.log = outer.log
                sub.obligations = outer.obligations
                interp.path = sub
                fr.l.clear()
                fr.l.update(snapshot)
                try:
                    interp.exec_block(s.body, fr)
                except _Continue:
                    pass
                except _Break:
                    raise CheckerError('line %d: break inside a generic loop needs an invariant' % s.lineno)
                except pysym.Infeasible:
                    pass
                except pysym.SymRaise as e:
                    raise CheckerError('line %d: exception %s%r inside a locally explored loop body' % (s.lineno, e, getattr(e, 'eargs', ())))
                work.extend(sub.pending)
                npaths += 1
                if npaths > 4000:
                    raise CheckerError('line %d: path explosion inside a loop body' % s.lineno)
        finally:
            interp.path = outer

    def run_while(self, interp, s, fr):
        raise CheckerError('generic schema does not apply to while loops')
