"""python3-vt -m cmverif check <ID> [--tier quick|thorough]   |   replay <path>"""
import importlib
import json
import os
import sys


def main(argv):
    if len(argv) >= 2 and argv[0] == 'check':
        pid = argv[1].upper()
        tier = 'quick'
        if '--tier' in argv:
            tier = argv[argv.index('--tier') + 1]
        os.environ['VERIF_TIER'] = os.environ.get('VERIF_TIER') if os.environ.get('VERIF_TIER') in ('quick', 'thorough') and '--tier' not in argv else tier
        try:
            mod = importlib.import_module('cmverif.checks.' + pid.lower())
        except ImportError as e:
            print('CHECKER-ERROR property=%s no check module: %s' % (pid, e))
            return 3
        return mod.main()
    if len(argv) >= 2 and argv[0] == 'replay':
        with open(argv[1]) as f:
            r = json.load(f)
        print(json.dumps(r, indent=1)[:6000])
        pid = r['property']
        mod = importlib.import_module('cmverif.checks.' + pid.lower())
        if hasattr(mod, 'replay'):
            return mod.replay(r)
        print('replay: re-running the check for %s' % pid)
        return mod.main()
    print(__doc__)
    return 3


if __name__ == '__main__':
    rc = main(sys.argv[1:])
    sys.exit(rc if isinstance(rc, int) else 0)
