"""PanelAssembly.get_k0_conn: dispatch, penalty constants, interface arguments, block placement, survival of the off-diagonal
block under the symmetrisation (make_symmetric keeps col >= row only)."""
from fractions import Fraction

from ..poly import P, normal
from .. import pysym, panelctx, pycheck
from ..pysym import real, integer, Opaque
from . import py_panel
from .py_panel import report
from .py_assembly import make_assembly, offsets, peq

AF = 'compmech/panel/assembly/assembly.py:PanelAssembly.get_k0_conn'
KINDS = {'SSycte': ('kCSSycte', 'ycte', 'ycte'), 'SSxcte': ('kCSSxcte', 'xcte', 'xcte'), 'BFycte': ('kCBFycte', 'ycte', 'ycte'),
         'BFxcte': ('kCBFxcte', 'xcte', 'xcte'), 'SB': ('kCSB', 'bot-top', None)}


def replay_order():
    from ..pyreplay import run_real
    script = '''
import numpy as np
from compmech.panel import Panel
from compmech.panel.assembly import PanelAssembly
def build(order):
    kw = dict(a=1., b=0.5, stack=[0, 90, 90, 0], plyt=1.25e-4, laminaprop=(142.5e9, 8.7e9, 0.28, 5.1e9, 5.1e9, 5.1e9), m=4, n=4)
    pa, pb = Panel(**kw), Panel(**kw)
    panels = [pa, pb] if order == "p1-first" else [pb, pa]
    conn = [dict(p1=pa, p2=pb, func='SSycte', ycte1=0., ycte2=pb.b)]
    asm = PanelAssembly(panels, conn)
    k = asm.get_k0_conn().toarray()
    s1 = slice(pa.row_start, pa.row_end); s2 = slice(pb.col_start, pb.col_end)
    return float(abs(k[s1, s2]).max()), float(abs(k[s1, s1]).max())
o1 = build("p1-first"); o2 = build("p2-first")
out = {"offdiag_block_max_p1_first": o1[0], "offdiag_block_max_p2_first": o2[0], "diag_block_max": o1[1]}
'''
    r = run_real(script, {})
    r['reproduced'] = bool(r.get('offdiag_block_max_p1_first', 0) > 0 and r.get('offdiag_block_max_p2_first', 1) == 0)
    r['input'] = 'two equal plates joined by SSycte; assembly order [p1,p2] versus [p2,p1]'
    return r


def check_every_entry(led):
    """every entry of the connectivity list contributes its three blocks: two entries that join the same two panels with the same kind
    of connection along different lines (a closed section made of two panels) are both present"""
    it, calls = py_panel.mk()
    for kind, (modname, ktkind, cte) in KINDS.items():
        if not cte:
            continue

        def run():
            del calls[:]
            asm, panels, meta, conn = make_assembly(it, ['plate', 'plate'], [(0, 1, kind)])
            second = dict(conn[0])
            second[cte + '1'] = real(cte + '1_second')
            second[cte + '2'] = real(cte + '2_second')
            conn.append(second)
            asm.attrs['conn'] = conn
            del calls[:]
            return conn, it.call(it.getattr(asm, 'get_k0_conn'), [], {})
        for path, out in it.explore(run):
            name = '%s[%s,two entries for the same pair]/every-entry-contributes' % (AF, kind)
            if out[0] != 'return':
                report(led, name + '/no-exception', AF, ['raises %s%s' % (out[1].tname, tuple(str(x)[:80] for x in out[1].eargs))], signature='raise:' + out[1].tname)
                continue
            conn, r = out[1]
            wrap, terms = pycheck.terms_of(r)
            kern = [t for k, t in terms if isinstance(t, Opaque) and t.kind == 'kernel']
            names = [t.f['fn'] for t in kern]
            want_names = ['fkC%s11' % kind, 'fkC%s12' % kind, 'fkC%s22' % kind] * 2
            probs = []
            if names != want_names:
                probs.append('kernels called: %s, expected the three blocks of each of the two entries %s' % (names, want_names))
            else:
                for e, c in enumerate(conn):
                    for t, blk in zip(kern[3 * e:3 * e + 3], ('11', '12', '22')):
                        for key, use in ((cte + '1', blk in ('11', '12')), (cte + '2', blk in ('12', '22'))):
                            a_ = t.f['args']
                            if use and key in a_ and panelctx.vkey(a_[key]) != panelctx.vkey(c[key]):
                                probs.append('entry %d block %s: %s = %s, expected %s' % (e + 1, blk, key, pycheck.describe(a_[key]), pycheck.describe(c[key])))
            if any(k != 1 for k, t in terms):
                probs.append('a block is scaled')
            report(led, name, AF, probs, signature='every-entry')
    led.solver_time('z3-feasibility', it.solver_time)


def body(led):
    led.function(AF)
    check_every_entry(led)
    it, calls = py_panel.mk()
    for kind, (modname, ktkind, cte) in KINDS.items():
        for order in ('p1-first', 'p2-first'):
            tag = '%s,%s' % (kind, order)

            def run():
                del calls[:]
                i1, i2 = (0, 1) if order == 'p1-first' else (1, 0)
                asm, panels, meta, conn = make_assembly(it, ['plate', 'plate'], [(i1, i2, kind)])
                kfun = it.module('compmech.panel.connections.penalty_constants').g['calc_kt_kr']
                want_ktkr = it.call(kfun, [panels[i1], panels[i2], ktkind], {})
                del calls[:]
                r = it.call(it.getattr(asm, 'get_k0_conn'), [], {})
                return asm, panels, meta, conn, r, want_ktkr, (i1, i2)
            for path, out in it.explore(run):
                name = '%s[%s]' % (AF, tag)
                if out[0] != 'return':
                    report(led, name + '/no-exception', AF, ['raises %s%s' % (out[1].tname, tuple(str(x)[:80] for x in out[1].eargs))], signature='raise:' + out[1].tname)
                    continue
                asm, panels, meta, conn, r, (kt, kr), (i1, i2) = out[1]
                offs, tot = offsets(meta)
                wrap, terms = pycheck.terms_of(r)
                kern = [t for k, t in terms if isinstance(t, Opaque) and t.kind == 'kernel']
                probs = []
                if wrap[:1] != ['symmetrized']:
                    probs.append('connection matrix not symmetrised')
                names = [t.f['fn'] for t in kern]
                base = 'fkC' + kind.replace('SS', 'SS').replace('BF', 'BF')
                want_names = ['fkC%s11' % kind, 'fkC%s12' % kind, 'fkC%s22' % kind]
                if names != want_names:
                    probs.append('kernels called: %s, expected %s' % (names, want_names))
                else:
                    c = conn[0]
                    places = [(offs[i1], offs[i1]), (offs[i1], offs[i2]), (offs[i2], offs[i2])]
                    for t, (r0, c0), blk in zip(kern, places, ('11', '12', '22')):
                        a_ = t.f['args']
                        if not (peq(a_.get('row0'), r0) and peq(a_.get('col0'), c0) and peq(a_.get('size'), tot)):
                            probs.append('block %s placed at row0=%s col0=%s size=%s, expected %s, %s, %s' % (blk, pycheck.describe(a_.get('row0')), pycheck.describe(a_.get('col0')),
                                                                                                           pycheck.describe(a_.get('size')), pycheck.describe(r0), pycheck.describe(c0), pycheck.describe(tot)))
                        if panelctx.vkey(a_.get('kt')) != panelctx.vkey(kt):
                            probs.append('block %s: kt is not calc_kt_kr(p1, p2, %r)' % (blk, ktkind))
                        if 'kr' in a_ and panelctx.vkey(a_.get('kr')) != panelctx.vkey(kr):
                            probs.append('block %s: kr is not calc_kt_kr(p1, p2, %r)' % (blk, ktkind))
                        if cte:
                            for key, use in ((cte + '1', blk in ('11', '12')), (cte + '2', blk in ('12', '22'))):
                                if use and key in a_ and panelctx.vkey(a_[key]) != panelctx.vkey(c[key]):
                                    probs.append('block %s: %s = %s, expected the connection entry %s' % (blk, key, pycheck.describe(a_[key]), pycheck.describe(c[key])))
                        if kind == 'SB' and 'dsb' in a_:
                            want_d = (sum_plyts(meta[i1]) + sum_plyts(meta[i2])) * Fraction(1, 2)
                            if not peq(a_['dsb'], want_d):
                                probs.append('block %s: dsb = %s, expected half the sum of the two thicknesses' % (blk, pycheck.describe(a_['dsb'])))
                        for key, idx in (('p1', i1), ('p2', i2)):
                            if key not in (t.f.get('objs') or ()):
                                continue              # the 11 block has only p1
                            for at in ('a', 'b', 'm', 'n'):
                                try:
                                    got_ = pycheck.view_get(t, key, at)
                                except KeyError:
                                    continue          # this block does not read that attribute of that panel
                                if not peq(got_, meta[idx][0][at]):
                                    probs.append('block %s: %s.%s = %s is not that of the %s of the connection entry' % (blk, key, at, pycheck.describe(got_), key))
                report(led, name, AF, probs)
                # the off-diagonal block must survive make_symmetric (which keeps col >= row): needs p1's rows before p2's columns
                st_name = '%s[%s]/off-diagonal-block-survives-symmetrisation' % (AF, tag)
                if names == want_names:
                    r0, c0 = kern[1].f['args'].get('row0'), kern[1].f['args'].get('col0')
                    d = normal((c0 if isinstance(c0, P) else P.const(c0)) - (r0 if isinstance(r0, P) else P.const(r0)))
                    # c0 - r0 >= 0 for all admissible series orders?
                    ok = all(cf >= 0 for cf in d.t.values())
                    if ok:
                        led.ok(st_name, AF)
                    else:
                        led.fail(st_name, AF, {'row0': str(r0), 'col0': str(c0),
                                               'meaning': 'the p1-p2 block is written below the diagonal (p1 comes after p2 in the assembly) and is discarded by make_symmetric; no transpose block is written'},
                                 signature='block12-below-diagonal', replay=replay_order())


def sum_plyts(m):
    kw = m[0]
    return kw['plyt'] * 2 if 'plyt' in kw else sum(kw['plyts'][1:], kw['plyts'][0])
