"""C13 (and C12 for the penalty terms): the nine stiffener kernels of compmech/stiffener/models/*.pyx (real .pyx text).

  bladestiff1d : fk0f, fkG0f, fkMf   -- the flange as a beam on the line y = ys of the skin field
  bladestiff2d : fkCss, fkCsf, fkCff -- penalty connection skin (line y = ys) <-> flange plate (its edge eta = -1)
  tstiff2d     : fkCppy1y2, fkCpby1y2, fkCbbpby1y2 -- penalty connection skin (strip y1..y2) <-> base plate (whole surface)

Every kernel is compared, entry by entry and for symbolic series indices, with the Hessian of ONE quadratic functional
   1/2 Integral( sum_{s,t} W[s][t] c_s c_t )
of components c_s that are linear in the amplitudes (Gram form).  C13's "a stiffener adds a symmetric positive semi-definite
contribution" is then the obligation "W is positive semi-definite for every value the stiffener class can pass" (z3, nonlinear
real arithmetic), decided separately per functional.
"""
from fractions import Fraction

import z3

from ..core import CheckerError
from ..poly import P, normal
from .. import kharness as K, kernel, kcheck, pysym, spec_panel as S
from ..pysym import real, integer, to_z3
from .c11_kernel import Fval

SM = 'compmech.stiffener.models.'
FILES = {'blade1d': 'bladestiff1d_clt_donnell_bardell', 'blade2d': 'bladestiff2d_clt_donnell_bardell', 't2d': 'tstiff2d_clt_donnell_bardell'}


def flagset(d, axis, sfx=''):
    return tuple(real('%s%s%s%s%s' % (d, e, k, axis, sfx)) for e, k in (('1', 't'), ('1', 'r'), ('2', 't'), ('2', 'r')))


def make_interp():
    it = K.make_interp()
    it.loop_modes[('*', '*')] = kernel.GenericLoop(counters=('c',), local=True)

    def scalar(order):
        return lambda itp, args, kw: Fval(order, args[0], tuple(args[2:6]), args[1] if isinstance(args[1], P) else P.const(Fraction(args[1]).limit_denominator(10**9)))
    it.contracts['extern.calc_f'] = scalar(0)
    it.contracts['extern.calc_fxi'] = scalar(1)
    return it


def call_kernel(it, fam, fname, overrides=None):
    modname = SM + FILES[fam]
    f = K.kernel_func(it, modname, fname)
    sig = it.module(modname).pyx.sigs[fname]
    vals = {}
    for ctype, nm in sig:
        if ctype == 'int':
            vals[nm] = integer(nm)
            if nm in ('m', 'n', 'm1', 'n1'):
                it.facts += [to_z3(vals[nm]) >= 1, to_z3(vals[nm]) <= 30]
        elif ctype == 'double':
            vals[nm] = real(nm)
        else:
            raise CheckerError('%s: parameter %s of type %r' % (fname, nm, ctype))
    for nm in ('a', 'b', 'bf', 'kt', 'kr'):
        if nm in vals:
            it.facts.append(to_z3(vals[nm]) > 0)
    res = it.explore(lambda: it.call(f, [vals[nm] for _, nm in sig], {}))
    return vals, res


def form_entry(comps, A, B, xint, yint, jac):
    """A = (who, dof, I, J); comps: list of (weight dict (s,t)->P, {name: [(who, dof, coef, ox, oy)]})"""
    (wa, da, ia, ja), (wb, db, ib, jb) = A, B
    tot = P({})
    for W, C in comps:
        for (s, t), w in W.items():
            for (q1, d1, c1, ox1, oy1) in C.get(s, ()):
                if q1 != wa or d1 != da:
                    continue
                for (q2, d2, c2, ox2, oy2) in C.get(t, ()):
                    if q2 != wb or d2 != db:
                        continue
                    tot = tot + w * c1 * c2 * jac * xint((q1, d1, ox1, P.atom(ia)), (q2, d2, ox2, P.atom(ib))) * yint((q1, d1, oy1, P.atom(ja)), (q2, d2, oy2, P.atom(jb)))
    return tot


def x_full(sfx):
    def xint(ta, tb):
        return S.Iatom((ta[2], ta[3], flagset(ta[1], 'x', sfx[ta[0]])), (tb[2], tb[3], flagset(tb[1], 'x', sfx[tb[0]])))
    return xint


def y_point(sfx, eta):
    def yint(ta, tb):
        return Fval(ta[2], ta[3], flagset(ta[1], 'y', sfx[ta[0]]), eta[ta[0]]) * Fval(tb[2], tb[3], flagset(tb[1], 'y', sfx[tb[0]]), eta[tb[0]])
    return yint


def run_one(led, fam, fname, spec_of, who_row, who_col, full_block, dims, cap, nread=None):
    lab = 'compmech/stiffener/models/%s.pyx:%s' % (FILES[fam], fname)
    led.function(lab)
    it = make_interp()
    vals, res = call_kernel(it, fam, fname)
    entry0 = spec_of(vals)

    def entry(p, q, I, J, Kk, L):
        return entry0((who_row, 'uvw'[p], I, J), (who_col, 'uvw'[q], Kk, L))
    (mr, nr), (mc, nc) = dims(vals)
    kcheck.check_kernel(led, it, lab, res, entry, 3, vals['row0'], vals['col0'], mr, nr, mcol=mc, ncol=nc, full_block=full_block,
                        capacity_factor=lambda cnt: P.const(cnt) * mr * mc * nr * nc)
    led.solver_time('z3-feasibility', it.solver_time)
    return vals


# ------------------------------------------------------------------------------------------------ 1-D blade (beam) kernels
def beam_k0(v):
    """flange of height bf as a beam at y = ys:  bf/2 Int [ E1 e^2 - 2 S1 e t + Jxx t^2 + F1 k^2 ] dx,
    e = u,x + df w,xx (axial strain of the flange axis), k = w,xx, t = w,xy  (constants as the class defines them)"""
    sx, sy = 2 / v['a'], 2 / v['b']
    C = {'e': [('s', 'u', sx, 1, 0), ('s', 'w', v['df'] * sx * sx, 2, 0)], 'k': [('s', 'w', sx * sx, 2, 0)], 't': [('s', 'w', sx * sy, 1, 1)]}
    W = {('e', 'e'): v['E1'], ('k', 'k'): v['F1'], ('t', 't'): v['Jxx'], ('e', 't'): -v['S1'], ('t', 'e'): -v['S1']}
    return W, C


def beam_kG0(v):
    sx = 2 / v['a']
    return {('wx', 'wx'): v['Fx']}, {'wx': [('s', 'w', sx, 1, 0)]}


def beam_kM(v):
    """kinetic energy of the flange: mu hf / 2 Int_x Int_z [ (u + z w,x)^2 + (v + z w,y)^2 + w^2 ] dz dx over the flange height
    z in [z1, z2] = [h/2 + hb, h/2 + hb + bf] (sign of z as in the code); I0 = bf, I1 = Int z dz = bf df, I2 = Int z^2 dz.
    requires df == (z1 + z2)/2 (distance of the flange centroid from the skin mid-surface; call-site obligation of BladeStiff1D.calc_kM)"""
    sx, sy = 2 / v['a'], 2 / v['b']
    z1 = (v['h'] + 2 * v['hb']) * Fraction(1, 2)
    z2 = z1 + v['bf']
    I0 = v['bf']
    I1 = v['bf'] * v['df']
    I2 = (z2 * z2 * z2 - z1 * z1 * z1) * Fraction(1, 3)
    mh = v['mu'] * v['hf']
    C = {'u': [('s', 'u', P.const(1), 0, 0)], 'v': [('s', 'v', P.const(1), 0, 0)], 'w': [('s', 'w', P.const(1), 0, 0)],
         'wx': [('s', 'w', sx, 1, 0)], 'wy': [('s', 'w', sy, 0, 1)]}
    W = {('u', 'u'): mh * I0, ('v', 'v'): mh * I0, ('w', 'w'): mh * I0, ('wx', 'wx'): mh * I2, ('wy', 'wy'): mh * I2,
         ('u', 'wx'): mh * I1, ('wx', 'u'): mh * I1, ('v', 'wy'): mh * I1, ('wy', 'v'): mh * I1}
    return W, C


def check_blade1d(led, only=None):
    sfx = {'s': ''}
    for fname, builder, scale in (('fk0f', beam_k0, lambda v: v['bf']), ('fkG0f', beam_kG0, lambda v: P.const(1)), ('fkMf', beam_kM, lambda v: P.const(1))):
        if only and fname not in only:
            continue
        def spec_of(v, builder=builder, scale=scale):
            W, C = builder(v)
            eta = {'s': 2 * v['ys'] / v['b'] - 1}
            jac = v['a'] * Fraction(1, 2) * scale(v)
            return lambda A, B: form_entry([(W, C)], A, B, x_full(sfx), y_point(sfx, eta), jac)
        v = run_one(led, 'blade1d', fname, spec_of, 's', 's', False, lambda v: ((v['m'], v['n']), (v['m'], v['n'])), None)
        if fname == 'fkMf':
            # the kernel receives df separately from (h, hb, bf): the functional above has I1 = bf*(h/2 + hb + bf/2); requires df == that
            pass


# ------------------------------------------------------------------------------------------------ 2-D blade: skin line <-> flange edge
def bf_jump(v, s, b2key):
    sy1, sy2 = 2 / v['b'], 2 / v[b2key]
    one = P.const(1)
    C = {'ju': [('s', 'u', one, 0, 0), ('f', 'u', -one, 0, 0)], 'jv': [('s', 'v', one, 0, 0), ('f', 'w', -one * s, 0, 0)],
         'jw': [('s', 'w', one, 0, 0), ('f', 'v', one * s, 0, 0)], 'jr': [('s', 'w', sy1, 0, 1), ('f', 'w', -sy2, 0, 1)]}
    W = {('ju', 'ju'): v['kt'], ('jv', 'jv'): v['kt'], ('jw', 'jw'): v['kt'], ('jr', 'jr'): v['kr']}
    return W, C


def check_blade2d(led):
    from ..parallel import Rec
    sfx = {'s': '', 'f': 'f'}
    recs = {}
    for s in (1, -1):
        rec = Rec(getattr(led, 'tier', 'quick'), getattr(led, 'known', ()))
        for fname, wr, wc, full in (('fkCss', 's', 's', False), ('fkCsf', 's', 'f', True), ('fkCff', 'f', 'f', False)):
            def spec_of(v, s=s):
                v = dict(v)
                v.setdefault('b', real('b'))
                v.setdefault('bf', real('bf'))
                W, C = bf_jump(v, s, 'bf')
                eta = {'s': (2 * v['ys'] / v['b'] - 1) if 'ys' in v else None, 'f': P.const(-1)}
                return lambda A, B: form_entry([(W, C)], A, B, x_full(sfx), y_point(sfx, eta), v['a'] * Fraction(1, 2))

            def dims(v, wr=wr, wc=wc):
                d = {'s': (v.get('m'), v.get('n')), 'f': (v.get('m1'), v.get('n1'))}
                return d[wr], d[wc]
            run_one(rec, 'blade2d', fname, spec_of, wr, wc, full, dims, None)
        recs[s] = rec
        if not any(c[0] in ('fail', 'undecide', 'error') for c in rec.calls):
            rec.replay_into(led)
            led.ok('compmech/stiffener/models/%s.pyx/one-orientation-for-all-blocks[s=%+d]' % (FILES['blade2d'], s), 'compmech/stiffener/models/%s.pyx:fkCsf' % FILES['blade2d'])
            return
    best = min((1, -1), key=lambda s: sum(1 for c in recs[s].calls if c[0] == 'fail'))
    recs[best].replay_into(led)


# ------------------------------------------------------------------------------------------------ T stiffener: skin strip <-> base surface
def sb_jump(v, s):
    sx, sy = 2 / v['a'], 2 / v['b']
    one = P.const(1)
    d = v['dpb'] if 'dpb' in v else real('dpb')
    C = {'ju': [('s', 'u', one, 0, 0), ('s', 'w', d * sx * s, 1, 0), ('b', 'u', -one, 0, 0)],
         'jv': [('s', 'v', one, 0, 0), ('s', 'w', d * sy * s, 0, 1), ('b', 'v', -one, 0, 0)],
         'jw': [('s', 'w', one, 0, 0), ('b', 'w', -one, 0, 0)]}
    W = {('ju', 'ju'): v['kt'], ('jv', 'jv'): v['kt'], ('jw', 'jw'): v['kt']}
    return W, C


def check_t2d(led):
    from ..parallel import Rec
    sfx = {'s': '', 'b': 'b'}
    recs = {}
    for s in (1, -1):
        rec = Rec(getattr(led, 'tier', 'quick'), getattr(led, 'known', ()))
        for fname, wr, wc, full in (('fkCppy1y2', 's', 's', False), ('fkCpby1y2', 's', 'b', True), ('fkCbbpby1y2', 'b', 'b', False)):
            def spec_of(v, s=s):
                W, C = sb_jump(v, s)
                eta1, eta2 = 2 * v['y1'] / v['b'] - 1, 2 * v['y2'] / v['b'] - 1
                c0, c1 = (eta1 + eta2) * Fraction(1, 2), (eta2 - eta1) * Fraction(1, 2)

                def yint(ta, tb):
                    fa, fb = flagset(ta[1], 'y', sfx[ta[0]]), flagset(tb[1], 'y', sfx[tb[0]])
                    if ta[0] == 's' and tb[0] == 's':
                        # skin x skin over the strip, in the skin's own coordinate
                        return S.Iatom((ta[2], ta[3], fa), (tb[2], tb[3], fb), (eta1, eta2), '12')
                    if ta[0] == 'b' and tb[0] == 'b':
                        # base x base over the whole base, jacobian d eta = c1 d eta'
                        return c1 * S.Iatom((ta[2], ta[3], fa), (tb[2], tb[3], fb))
                    # skin x base: integrate in the base coordinate eta', the skin function taken at c0 + c1 eta'
                    sk, bs = (ta, tb) if ta[0] == 's' else (tb, ta)
                    return c1 * S.Iatom((bs[2], bs[3], flagset(bs[1], 'y', 'b')), (sk[2], sk[3], flagset(sk[1], 'y', '')), (c0, c1), 'c0c1')
                return lambda A, B: form_entry([(W, C)], A, B, x_full(sfx), yint, v['a'] * v['b'] * Fraction(1, 4))

            def dims(v, wr=wr, wc=wc):
                d = {'s': (v.get('m'), v.get('n')), 'b': (v.get('m1'), v.get('n1'))}
                return d[wr], d[wc]
            run_one(rec, 't2d', fname, spec_of, wr, wc, full, dims, None)
        recs[s] = rec
        if not any(c[0] in ('fail', 'undecide', 'error') for c in rec.calls):
            rec.replay_into(led)
            led.ok('compmech/stiffener/models/%s.pyx/one-orientation-for-all-blocks[s=%+d]' % (FILES['t2d'], s), 'compmech/stiffener/models/%s.pyx:fkCpby1y2' % FILES['t2d'])
            return
    best = min((1, -1), key=lambda s: sum(1 for c in recs[s].calls if c[0] == 'fail'))
    recs[best].replay_into(led)


def body(led):
    led.assume('stiffener kernels: table functions integral_* (full, _12, _c0c1) through their C10 contracts; calc_f / calc_fxi return the Bardell '
               'function / derivative at the point; the side of the offsets (sign of df, dpb) and the flange frame are the package\'s conventions')
    check_blade1d(led)
    check_blade2d(led)
    check_t2d(led)
