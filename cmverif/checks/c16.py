"""C16 -- complete-shell linear matrices (ConeCyl).

Functions under contract (real ``.pyx`` text, re-extracted every run):
  conecyl/clpt/clpt_{donnell,sanders}_bc{1,2,3,4}_linear.pyx, clpt_donnell_bcn_linear.pyx,
  conecyl/clpt/iso_clpt_donnell_bc{2,3}_linear.pyx, conecyl/fsdt/fsdt_{donnell_bc1..4,bcn, sanders_bcn}_linear.pyx :
        fk0, fk0_cyl, fkG0, fkG0_cyl
  conecyl/clpt/clpt_commons_bc*.pyx : cfstrain_donnell, cfstrain_sanders   (source of the linear strain field)
  conecyl/conecyl.py : ConeCyl._calc_linear_matrices                         (see c16_py)

Contract of fk0 (classical models), per meridian section [xa, xb] with the radius frozen at the section middle
(the quadrature the kernel defines; exact for cylinders where r == r2):
     for every amplitude pair A <= B (row <= col) outside the always-prescribed third amplitude
        sum of the values emitted at (A, B)  ==  int_xa^xb int_0^2pi  e_A(x,t)^T F e_B(x,t) r dt dx
     with e_A the linear strain vector that cfstrain_* of the same model reports for amplitude A.
  It is discharged as   d/dxb code == integrand(xb)   and   code(xb = xa) == 0   (fundamental theorem of calculus),
  the theta integral by the orthogonality lemmas listed in shellk.theta_integrate.
Contract of fk0_cyl / fkG0_cyl:  equals fk0 / fkG0 at alpha = 0 summed over the sections
  (additivity of the section expression at alpha = 0, then evaluation on [0, L]).
Contract of fkG0:  every emitted value is a homogeneous linear form in (Fc, P, T); placement and guards do not depend on
  the loads (so the three single-load matrices add up to the combined one).
Contract of the iso_ kernels:  equal to the general kernel of the same boundary conditions fed the isotropic ABD matrix
  that ConeCyl._rebuild builds from (E11, nu, h).
"""
import ast
import os
import sys
import time
from fractions import Fraction

import z3

from ..core import run_check, REPO, CheckerError
from ..poly import P, normal
from .. import shellk as SK, trig, kharness as K, pysym, parallel
from ..pysym import real, integer, to_z3

CLASSICAL = ['clpt_donnell_bc1', 'clpt_donnell_bc2', 'clpt_donnell_bc3', 'clpt_donnell_bc4', 'clpt_donnell_bcn',
             'clpt_sanders_bc1', 'clpt_sanders_bc2', 'clpt_sanders_bc3', 'clpt_sanders_bc4']
ISO = ['iso_clpt_donnell_bc2', 'iso_clpt_donnell_bc3']
FSDT = ['fsdt_donnell_bc1', 'fsdt_donnell_bc2', 'fsdt_donnell_bc3', 'fsdt_donnell_bc4', 'fsdt_donnell_bcn', 'fsdt_sanders_bcn']


def model_db():
    """{model: dict(commons=<module>, linear=<module>, ...)} read from the real modelDB.py (ast, not imported)"""
    path = os.path.join(REPO, 'compmech/conecyl/modelDB.py')
    tree = ast.parse(open(path).read())
    out = {}
    for node in tree.body:
        if isinstance(node, ast.Assign) and isinstance(node.targets[0], ast.Name) and node.targets[0].id == 'db':
            for k, v in zip(node.value.keys, node.value.values):
                d = {}
                for kk, vv in zip(v.keys, v.values):
                    if isinstance(vv, ast.Name):
                        d[kk.value] = vv.id
                    elif isinstance(vv, ast.Constant):
                        d[kk.value] = vv.value
                out[k.value] = d
    return out


def modpath(name):
    sub = 'clpt' if 'clpt' in name else 'fsdt'
    return 'compmech.conecyl.%s.%s' % (sub, name)


def label(mod, fn):
    return '%s.pyx:%s' % (mod.replace('.', '/'), fn)


class Ctx(object):
    """symbols shared by the kernels of one model"""
    def __init__(self):
        self.it = SK.make_interp()
        self.alpha = real('alpharad')
        self.sina, self.cosa = trig.tsin(self.alpha), trig.tcos(self.alpha)
        self.r2, self.L = real('r2'), real('L')
        self.m1, self.m2, self.n2, self.s = integer('m1'), integer('m2'), integer('n2'), integer('s')
        self.facts = [to_z3(self.L) > 0, to_z3(self.r2) > 0, to_z3(P.atom('r')) > 0, to_z3(self.cosa) > 0, to_z3(self.sina) >= 0,
                      to_z3(self.sina) < 1, to_z3(self.s) >= 1, to_z3(self.m1) >= 1, to_z3(self.m2) >= 1, to_z3(self.n2) >= 1,
                      to_z3(P.atom('xa')) >= 0, to_z3(P.atom('xb')) > to_z3(P.atom('xa')), to_z3(P.atom('xb')) <= to_z3(self.L),
                      to_z3(P.atom('section')) >= 0, to_z3(P.atom('section')) < to_z3(self.s), to_z3(P.atom('pi')) > 3,
                      to_z3(real('E11')) > 0, to_z3(real('h')) > 0, to_z3(real('nu')) > -1, to_z3(real('nu')) * 2 < 1]
        self.it.facts += self.facts


def run_kernels(ctx, led, mod, F=None, iso=None):
    """executes the four kernels of a linear module; returns dict name -> decoded canonical emissions (+ raw info)"""
    out = {}
    a, r2, L, m1, m2, n2, s = ctx.alpha, ctx.r2, ctx.L, ctx.m1, ctx.m2, ctx.n2, ctx.s
    Fc, Pp, T = real('Fc'), real('P'), real('T')
    mat = list(iso) if iso is not None else [F]
    calls = {'fk0': ([a, r2, L] + mat + [m1, m2, n2, s], ('xa', 'xb', 'r')),
             'fk0_cyl': ([r2, L] + mat + [m1, m2, n2], ()),
             'fkG0': ([Fc, Pp, T, r2, a, L, m1, m2, n2, s], ('xa', 'xb', 'r')),
             'fkG0_cyl': ([Fc, Pp, T, r2, L, m1, m2, n2], ())}
    for fn, (args, abstract) in calls.items():
        if iso is not None and fn.startswith('fkG0'):
            out[fn] = None      # the iso_ modules have no geometric stiffness of their own (modelDB uses the general model's)
            continue
        lab = label(mod, fn)
        led.function(lab)
        try:
            res = SK.run_matrix_kernel(ctx.it, mod, fn, args, abstract=abstract)
        except CheckerError as e:
            msg = str(e)
            if 'loop-carried' in msg or 'NameError' in msg:
                # the loop schema of the kernels (DESIGN 2.3): nothing but the slot counter is carried from one iteration
                # to the next.  A read of a variable before its assignment in the iteration uses the value left by an
                # earlier iteration (or an uninitialised C double)
                led.fail('%s/no-stale-or-uninitialised-locals' % lab, lab,
                         {'engine': msg, 'meaning': 'a local is read before it is assigned in the current loop iteration; in C this is the '
                                                    'value left by a previous iteration (or garbage on the first one)'},
                         signature='stale:' + ''.join(ch for ch in msg if not ch.isdigit())[:120])
                out[fn] = None
                continue
            raise
        led.ok('%s/no-stale-or-uninitialised-locals' % lab, lab)
        res['dec'] = [SK.canon_emission(h) for h in SK.decode_emissions(ctx.it, res['em'], res['consts'], m1, m2)]
        out[fn] = res
        if res['pi_ok'] is not None:
            (led.ok if res['pi_ok'] else lambda n, f: led.fail(n, f, {'reason': 'module constant pi is not the double nearest to pi'}, signature='pi'))(
                '%s/pi-literal' % lab, lab)
        if abstract:
            check_section_defs(ctx, led, lab, res['defs'])
    return out


def check_section_defs(ctx, led, lab, defs):
    sec = P.atom('section')
    want = {'xa': ctx.L * sec / ctx.s, 'xb': ctx.L * (sec + 1) / ctx.s,
            'r': ctx.r2 + ctx.sina * (P.atom('xa') + P.atom('xb')) * Fraction(1, 2)}
    for nm, w in want.items():
        got = defs.get(nm, [])
        name = '%s/section-geometry/%s' % (lab, nm)
        if got and all(K.compare(trig.tnormal(g), trig.tnormal(w))[0] for g in got):
            led.ok(name, lab)
        else:
            led.fail(name, lab, {'code': [str(g) for g in got], 'contract': str(w)}, signature=nm)


def denominators(ctx, led, lab, res, timeout=20000):
    """every executed division has a non-zero divisor under the loop guards and the geometric preconditions"""
    seen = {}
    div_ids = set(id(c) for c in ctx.it.div_conds)
    t0 = time.time()
    for kind, nz, conds, line, txt, fn in res['obligations']:
        if kind != 'nonzero-denominator':
            continue
        guards = [c for c in conds if id(c) not in div_ids]
        key = (nz.b.text(), tuple(sorted(repr(g) for g in guards)))
        if key in seen:
            continue
        seen[key] = line
        name = '%s/denominator-nonzero@%s[%s]' % (lab, line, txt[:40])
        # cheap route: the divisor is a product of atoms known positive / non-zero under the guards
        solver = z3.Solver()
        solver.set('timeout', timeout)
        for f in ctx.facts:
            solver.add(f)
        for g in guards:
            solver.add(pysym.cond_z3(g))
        solver.add(to_z3(nz.b) == 0)
        r = solver.check()
        if r == z3.unsat:
            led.ok(name, lab, backend='z3')
        elif r == z3.sat:
            mdl = solver.model()
            led.fail(name, lab, {'divisor': nz.b.text(), 'guards': [repr(g) for g in guards], 'model': str(mdl)[:400]}, backend='z3',
                     signature='den:' + txt[:60])
        else:
            led.undecide(name, lab, 'z3 returned unknown for the divisor %s' % nz.b.text()[:100])
    led.solver_time('z3-denominators', time.time() - t0)


def hessian_entry(tab, F, famA, p, famB, q, case, distinct):
    eA = SK.rename_table_entry(tab[(famA, p)], 'A')
    eB = SK.rename_table_entry(tab[(famB, q)], 'B')
    n = len(eA)
    integrand = P({})
    for a in range(n):
        if eA[a].is_zero():
            continue
        for b in range(n):
            if eB[b].is_zero() or (not isinstance(F[a, b], P)):
                continue
            integrand = integrand + eA[a] * F[a, b] * eB[b]
    integrand = integrand * P.atom('r')
    if case.subs:
        integrand = trig.tsubs(integrand, case.subs)
    return SK.theta_integrate(integrand, distinct)


PRESCRIBED = {2}    # the third amplitude (load asymmetry) is always prescribed: ConeCyl._rebuild raises unless pdLA


def families(consts):
    return [f for f in (0, 1, 2) if consts['num%d' % f]]


def case_name(case):
    return '&'.join(case.desc) if case.desc else 'all'


def check_energy(ctx, led, mod, res, tab, F, clause='energy-hessian'):
    """fk0 (cone, per section) against the Hessian of the strain energy of the package's own strain field"""
    lab = label(mod, 'fk0')
    consts = res['consts']
    M = SK.Matcher(ctx.it, consts, ctx.m1, ctx.m2, ctx.n2, extra_facts=ctx.facts)
    for famA in families(consts):
        for famB in families(consts):
            if famB < famA:
                continue
            sel = [h for h in res['dec'] if h['A'][0] == famA and h['B'][0] == famB]
            for case, chosen in M.cases(famA, famB, {'cone': sel}):
                def distinct(ba, bb, case=case):
                    return M._check(case.facts, to_z3(ba.diff('t')) != to_z3(bb.diff('t'))) == 'valid'
                for p, q in M.pairs(case, famA, famB):
                    if (famA == 0 and p in PRESCRIBED) or (famB == 0 and q in PRESCRIBED):
                        continue
                    name = '%s/%s[(%d,%d)x(%d,%d)|%s]' % (lab, clause, famA, p, famB, q, case_name(case))
                    code = SK.entry_sum(chosen['cone'], p, q, case)
                    h = hessian_entry(tab, F, famA, p, famB, q, case, distinct)
                    hb = trig.tsubs(h, {'x': P.atom('xb')})
                    ok1, bad1 = K.compare(trig.tdiff(code, 'xb'), hb)
                    ok2, bad2 = K.compare(trig.tsubs(code, {'xb': P.atom('xa')}), P({}))
                    if ok1 and ok2:
                        led.ok(name, lab)
                    else:
                        led.fail(name, lab, {'d/dxb(code) vs integrand(xb)': bad1, 'code at xb=xa vs 0': bad2,
                                             'meaning': 'the values emitted at this pair of amplitudes are not the section integral of e_A^T F e_B r'},
                                 signature='energy:%d,%d,%d,%d' % (famA, p, famB, q))
    led.solver_time('z3-index-cases', M.solver_time)


def at_cylinder(ctx, expr):
    """section expression at alpha = 0 evaluated on the whole meridian"""
    return trig.tsubs(expr, {'alpharad': P.const(0), 'r': ctx.r2, 'xa': P.const(0), 'xb': ctx.L})


def check_cyl_vs_cone(ctx, led, mod, cone, cyl, fn_cone, fn_cyl):
    lab = label(mod, fn_cyl)
    consts = cone['consts']
    M = SK.Matcher(ctx.it, consts, ctx.m1, ctx.m2, ctx.n2, extra_facts=ctx.facts)
    for famA in families(consts):
        for famB in families(consts):
            if famB < famA:
                continue
            sets = {'cone': [h for h in cone['dec'] if h['A'][0] == famA and h['B'][0] == famB],
                    'cyl': [h for h in cyl['dec'] if h['A'][0] == famA and h['B'][0] == famB]}
            if not sets['cone'] and not sets['cyl']:
                continue
            for case, chosen in M.cases(famA, famB, sets):
                for p, q in M.pairs(case, famA, famB):
                    name = '%s/equals-%s-at-alpha-0[(%d,%d)x(%d,%d)|%s]' % (lab, fn_cone, famA, p, famB, q, case_name(case))
                    c_cone = SK.entry_sum(chosen['cone'], p, q, case)
                    c_cyl = SK.entry_sum(chosen['cyl'], p, q, case)
                    # additivity of the section expression at alpha = 0:  F(xa, xb) == F(0, xb) - F(0, xa)
                    f0 = trig.tsubs(c_cone, {'alpharad': P.const(0), 'r': ctx.r2})
                    g_b = trig.tsubs(f0, {'xa': P.const(0)})
                    g_a = trig.tsubs(trig.tsubs(f0, {'xb': P.atom('xa')}), {'xa': P.const(0)}) if False else \
                        trig.tsubs(trig.tsubs(f0, {'xa': P.const(0)}), {'xb': P.atom('xa')})
                    okA, badA = K.compare(f0, trig.tnormal(g_b - g_a))
                    okB, badB = K.compare(c_cyl, at_cylinder(ctx, c_cone))
                    if okA and okB:
                        led.ok(name, lab)
                    else:
                        led.fail(name, lab, {'section additivity at alpha=0': badA, 'cylinder kernel vs cone kernel on [0,L] at alpha=0': badB},
                                 signature='cyl:%d,%d,%d,%d' % (famA, p, famB, q))
    led.solver_time('z3-index-cases', M.solver_time)


def check_load_linearity(ctx, led, mod, res, fn):
    lab = label(mod, fn)
    loads = ('Fc', 'P', 'T')
    bad = []
    for h in res['dec']:
        v = trig.tnormal(h['val'])
        for mono in v.t:
            deg = sum(e for a, e in mono if a in loads)
            if deg != 1 or any(e < 0 for a, e in mono if a in loads):
                bad.append((h['line'], K.mono_text(mono) if hasattr(K, 'mono_text') else str(mono)))
                break
    name = '%s/homogeneous-linear-in-(Fc,P,T)' % lab
    if bad:
        led.fail(name, lab, {'emissions with a term that is not of degree one in the loads': bad[:6]}, signature='kG-linear')
    else:
        led.ok(name, lab)


EDGE_FIELDS = {'ku': 'u', 'kv': 'v', 'kw': 'w', 'kphix': 'phix', 'kphit': 'phit'}


def check_edges(ctx, led, model, lin, commons):
    """fk0edges == Hessian of the elastic edge energy  sum_edges sum_fields 1/2 k int f^2 r dtheta  on the series amplitudes
    (Bot: x = L, r = r1;  Top: x = 0, r = r2), fields from the model's own cfuvw (phix = -w,x, phit = -w,t/r for the classical
    models).  With k >= 0 this is a sum of Gram matrices, hence positive semi-definite."""
    from .c16_py import signature
    sig = signature(lin.split('.')[-1], 'fk0edges')
    if sig is None:
        return
    lab = label(lin, 'fk0edges')
    led.function(lab)
    r1 = real('r1')
    vals = {'m1': ctx.m1, 'm2': ctx.m2, 'n2': ctx.n2, 'r1': r1, 'r2': ctx.r2, 'L': ctx.L}
    ks = {}
    args = []
    for nm in sig:
        if nm in vals:
            args.append(vals[nm])
        else:
            ks[nm] = real(nm)
            args.append(ks[nm])
    try:
        res = SK.run_matrix_kernel(ctx.it, lin, 'fk0edges', args)
    except CheckerError as e:
        if 'loop-carried' in str(e) or 'NameError' in str(e):
            led.fail('%s/no-stale-or-uninitialised-locals' % lab, lab, {'engine': str(e)}, signature='stale-edges')
            return
        raise
    consts = res['consts']
    dec = [SK.canon_emission(h) for h in SK.decode_emissions(ctx.it, res['em'], consts, ctx.m1, ctx.m2)]
    ftab, finfo = SK.field_table(ctx.it, commons, width2=consts['num2'])
    is_fsdt = 'fsdt' in model

    def field(key, name, role):
        lv, fld = ftab[key]
        z = P({})
        if name in ('u', 'v', 'w') or is_fsdt:
            f = fld.get(name, z)
        elif name == 'phix':
            f = -trig.tdiff(fld['w'], 'x') if 'w' in fld else z
        else:
            f = -trig.tdiff(fld['w'], 't') * P.atom('redge', -1) if 'w' in fld else z
        if f.is_zero():
            return f
        f = trig.tsubs(f, {'cosa': ctx.cosa, 'tLA': P.const(0)})
        new = SK.ROLE_VARS[(role, key[0])]
        if tuple(lv) != tuple(new):
            f = trig.tsubs(f, {a: P.atom(b) for a, b in zip(lv, new)})
        return f
    M = SK.Matcher(ctx.it, consts, ctx.m1, ctx.m2, ctx.n2, extra_facts=ctx.facts)
    for famA in families(consts):
        for famB in families(consts):
            if famB < famA:
                continue
            sel = [h for h in dec if h['A'][0] == famA and h['B'][0] == famB]
            if famA == 0:
                name = '%s/no-entries-for-the-first-three-amplitudes[(0)x(%d)]' % (lab, famB)
                (led.ok(name, lab) if not sel else led.fail(name, lab, {'emissions': len(sel)}, signature='edges0'))
                continue
            splits = []
            if famA == famB == 1:
                splits = [pysym.Cond('cmp', '==', P.atom('k1') - P.atom('i1'))]
            elif famA == famB == 2:
                splits = [pysym.Cond('cmp', '==', P.atom('l2') - P.atom('j2')), pysym.Cond('cmp', '==', P.atom('k2') - P.atom('i2'))]
            for case, chosen in M.cases(famA, famB, {'e': sel}, extra_splits=splits):
                def distinct(ba, bb, case=case):
                    return M._check(case.facts, to_z3(ba.diff('t')) != to_z3(bb.diff('t'))) == 'valid'
                for p, q in M.pairs(case, famA, famB):
                    name = '%s/edge-energy-hessian[(%d,%d)x(%d,%d)|%s]' % (lab, famA, p, famB, q, case_name(case))
                    code = SK.entry_sum(chosen['e'], p, q, case)
                    want = P({})
                    for kname, kval in ks.items():
                        base = kname[:-3]
                        edge = kname[-3:]
                        if base not in EDGE_FIELDS:
                            raise CheckerError('fk0edges: unknown restraint parameter %s' % kname)
                        fA, fB = field((famA, p), EDGE_FIELDS[base], 'A'), field((famB, q), EDGE_FIELDS[base], 'B')
                        if fA.is_zero() or fB.is_zero():
                            continue
                        xe, re_ = (ctx.L, r1) if edge == 'Bot' else (P.const(0), ctx.r2)
                        prod = trig.tsubs(fA * fB, {'x': xe, 'redge': re_})
                        if case.subs:
                            prod = trig.tsubs(prod, case.subs)
                        want = want + kval * re_ * SK.theta_integrate(prod, distinct)
                    ok, bad = K.compare(code, trig.tnormal(want))
                    if ok:
                        led.ok(name, lab)
                    else:
                        led.fail(name, lab, {'difference': bad, 'meaning': 'entry is not sum over edges and fields of k * int f_A f_B r dtheta'},
                                 signature='edges:%d,%d,%d,%d' % (famA, p, famB, q))
    led.solver_time('z3-index-cases', M.solver_time)


def iso_F(E, nu, h):
    """the ABD matrix ConeCyl._rebuild builds for laminaprop=None (checked against the source in c16_py)"""
    one = P.const(1)
    G12 = E / (2 * (one + nu))
    q = one / (one - nu * nu)
    A11 = E * h * q
    A12 = nu * E * h * q
    A66 = G12 * h
    D11 = E * h ** 3 * q * Fraction(1, 12)
    D12 = nu * E * h ** 3 * q * Fraction(1, 12)
    D66 = G12 * h ** 3 * Fraction(1, 12)
    return {'A11': A11, 'A12': A12, 'A13': 0, 'A22': A11, 'A23': 0, 'A33': A66,
            'B11': 0, 'B12': 0, 'B13': 0, 'B22': 0, 'B23': 0, 'B33': 0,
            'D11': D11, 'D12': D12, 'D13': 0, 'D22': D11, 'D23': 0, 'D33': D66}


def check_iso(ctx, led, iso_mod, gen_mod, iso_res, gen_res, fn):
    lab = label(iso_mod, fn)
    consts = gen_res['consts']
    sub = {k: (v if isinstance(v, P) else P.const(v)) for k, v in iso_F(real('E11'), real('nu'), real('h')).items()}
    M = SK.Matcher(ctx.it, consts, ctx.m1, ctx.m2, ctx.n2, extra_facts=ctx.facts)
    for famA in families(consts):
        for famB in families(consts):
            if famB < famA:
                continue
            sets = {'gen': [h for h in gen_res['dec'] if h['A'][0] == famA and h['B'][0] == famB],
                    'iso': [h for h in iso_res['dec'] if h['A'][0] == famA and h['B'][0] == famB]}
            if not sets['gen'] and not sets['iso']:
                continue
            for case, chosen in M.cases(famA, famB, sets):
                for p, q in M.pairs(case, famA, famB):
                    if (famA == 0 and p in PRESCRIBED) or (famB == 0 and q in PRESCRIBED):
                        continue
                    name = '%s/equals-general-model-with-isotropic-ABD[(%d,%d)x(%d,%d)|%s]' % (lab, famA, p, famB, q, case_name(case))
                    g = trig.tsubs(SK.entry_sum(chosen['gen'], p, q, case), sub)
                    i = SK.entry_sum(chosen['iso'], p, q, case)
                    ok, bad = K.compare(i, g)
                    if ok:
                        led.ok(name, lab)
                    else:
                        led.fail(name, lab, {'iso kernel vs general kernel with A,B,D from (E11,nu,h)': bad}, signature='iso:%d,%d,%d,%d' % (famA, p, famB, q))
    led.solver_time('z3-index-cases', M.solver_time)


def model_job(led, model):
    db = model_db()
    if model not in db:
        led.fail('modelDB/%s registered' % model, 'compmech/conecyl/modelDB.py', {'reason': 'model missing from db'}, signature='db')
        return
    ctx = Ctx()
    lin = modpath(db[model]['linear'])
    commons = modpath(db[model]['commons'])
    is_iso = model.startswith('iso_')
    nF = 8 if 'fsdt' in model else 6
    F = SK.sym_F(nF)
    if is_iso:
        res = run_kernels(ctx, led, lin, iso=[real('E11'), real('nu'), real('h')])
    else:
        res = run_kernels(ctx, led, lin, F=F)
    for fn in ('fk0', 'fk0_cyl', 'fkG0', 'fkG0_cyl'):
        if res[fn] is not None:
            denominators(ctx, led, label(lin, fn), res[fn])
    if is_iso:
        gen = model[4:]
        gctx_res = run_kernels(ctx, Silent(), modpath(db[gen]['linear']), F=F)
        for fn in ('fk0', 'fk0_cyl'):
            if res[fn] is not None and gctx_res[fn] is not None:
                check_iso(ctx, led, lin, modpath(db[gen]['linear']), res[fn], gctx_res[fn], fn)
    else:
        func = 'cfstrain_sanders' if 'sanders' in model else 'cfstrain_donnell'
        tab = None
        if model.startswith('fsdt_donnell'):
            # positive semi-definiteness through a Gram representation: the first-order-shear Donnell strain operator applied
            # to the package's own displacement field (cfuvw).  (cfstrain_donnell of the fsdt commons files is laid out for a
            # different ordering of the axisymmetric amplitudes -- see DESIGN 10 -- and C16 does not ask for it here.)
            operator = 'fsdt_donnell'
        elif func not in SK.load(ctx.it, commons)[0].g:
            led.assume('%s: the commons module has no %s (ConeCyl.strain raises NotImplementedError for it), so there is no strain field of '
                       'the package to integrate and no Gram representation is at hand: positive semi-definiteness is NOT decided for this '
                       'model; the cylinder/cone, symmetry and load-linearity clauses are checked' % (model, func))
            operator = None
        else:
            led.function(label(commons, func))
            tab, info = SK.strain_table(ctx.it, commons, func)
            if tab is None:
                led.assume('%s: %s raises NotImplementedError, so the package reports no strain field for this model; positive '
                           'semi-definiteness is proved through the Gram representation with the classical Donnell operator applied to cfuvw' % (model, func))
                operator = 'clpt_donnell'
            else:
                operator = None
                tab = {k: (lv, [trig.tsubs(x, {'sina': ctx.sina, 'cosa': ctx.cosa}) for x in vec]) for k, (lv, vec) in tab.items()}
                nm = '%s/radius-at-the-point' % label(commons, func)
                if info['r_defs'] and all(K.compare(d[0], real('r2') + real('x') * real('sina'))[0] for d in info['r_defs']):
                    led.ok(nm, label(commons, func))
                else:
                    led.fail(nm, label(commons, func), {'code': [str(d[0]) for d in info['r_defs']], 'contract': 'r2 + x*sina'}, signature='r')
                if res['fk0'] is not None:
                    check_energy(ctx, led, lin, res['fk0'], tab, F)
        if operator is not None:
            led.function(label(commons, 'cfuvw'))
            kconsts = res['fk0']['consts'] if res['fk0'] is not None else res['fk0_cyl']['consts']
            ftab, finfo = SK.field_table(ctx.it, commons, width2=kconsts['num2'])
            nm = '%s/amplitude-stride-equals-matrix-stride' % label(commons, 'cfuvw')
            if finfo['consts']['num2'] != kconsts['num2'] or finfo['consts']['num1'] != kconsts['num1']:
                # recorded under C18 (field/matrix book-keeping); for the Gram representation only the basis functions matter
                led.assume('%s: cfuvw addresses the amplitudes with num2=%s while the matrices use num2=%s (reported under C18); the basis '
                           'functions are taken by their offset within a term' % (model, finfo['consts']['num2'], kconsts['num2']))
            tab = {}
            for key, (lv, fld) in ftab.items():
                fld = {k: trig.tsubs(v, {'cosa': ctx.cosa}) for k, v in fld.items()}
                tab[key] = (lv, SK.strain_from_field(fld, operator, ctx.sina, ctx.cosa))
            if res['fk0'] is not None:
                check_energy(ctx, led, lin, res['fk0'], tab, F, clause='gram-representation-psd')
    if not is_iso:
        check_edges(ctx, led, model, lin, commons)
    if res['fk0'] is not None and res['fk0_cyl'] is not None:
        check_cyl_vs_cone(ctx, led, lin, res['fk0'], res['fk0_cyl'], 'fk0', 'fk0_cyl')
    for fn in ('fkG0', 'fkG0_cyl'):
        if res[fn] is not None:
            check_load_linearity(ctx, led, lin, res[fn], fn)
    if res['fkG0'] is not None and res['fkG0_cyl'] is not None:
        check_cyl_vs_cone(ctx, led, lin, res['fkG0'], res['fkG0_cyl'], 'fkG0', 'fkG0_cyl')
    led.solver_time('z3-feasibility', ctx.it.solver_time)
    if hasattr(led, 'calls'):
        attach_replays(led, model)
    if getattr(led, 'tier', 'quick') == 'thorough':
        numeric_crosscheck(led, model)


REPLAY_BASE = dict(m1=2, m2=2, n2=2, r2=250., H=500., laminaprop=[123.55e3, 8.708e3, 0.319, 5.695e3, 5.695e3, 5.695e3],
                   stack=[30, -30, 45], plyt=0.125)


def attach_replays(led, model):
    """numeric replays on the installed (compiled) package for the failed obligations of one model, one per clause.
    NOTE the extension modules cannot be rebuilt in this sandbox: the replay shows what the *installed binary* does."""
    from .. import pyreplay, shell_oracle as O
    cache = {}

    def get(kind):
        if kind in cache:
            return cache[kind]
        pay = dict(REPLAY_BASE, model=model)
        if model.startswith('iso_'):
            pay['iso'] = [71e3, 0.33, 2.]
        if kind == 'cyl-k0':
            r = pyreplay.run_real(O.CYLCONE, dict(pay, alphadeg=0., which='k0'))
            rep = bool(r.get('n_different'))
        elif kind == 'cyl-kG0':
            r = pyreplay.run_real(O.CYLCONE, dict(pay, alphadeg=0., which='kG0', loads=[1000., 0.1, 500.]))
            rep = bool(r.get('n_different'))
        elif kind == 'psd':
            r = pyreplay.run_real(O.PSD, dict(pay, alphadeg=25.))
            rep = bool(r.get('n_negative'))
        else:
            r = pyreplay.run_real(O.HESSIAN_ALL, dict(pay, alphadeg=25., s=400))
            rep = bool(r.get('n_mismatch'))
        db = model_db()
        files = ['compmech/conecyl/%s/%s.pyx' % ('fsdt' if 'fsdt' in model else 'clpt', db[model][k]) for k in ('linear', 'commons')]
        current = pyreplay.binary_matches_source(files)
        cache[kind] = {'reproduced': bool(rep and current), 'on': 'installed compiled package (not rebuilt from the .pyx under check)', 'kind': kind,
                       'input': dict(pay), 'result': r, 'binary_built_from_these_sources': current}
        if not current:
            cache[kind]['note'] = 'the .pyx files of this model differ from the commit the extension was built from: the run above does not test them'
        return cache[kind]
    for name, a, kw in led.calls:
        if name != 'fail' or kw.get('replay') is not None:
            continue
        ob = a[0]
        if 'iso' in model and 'equals-general' in ob:
            continue
        if '/equals-fk0-at-alpha-0' in ob:
            kind = 'cyl-k0'
        elif '/equals-fkG0-at-alpha-0' in ob:
            kind = 'cyl-kG0'
        elif '/gram-representation-psd' in ob:
            kind = 'psd'
        elif '/energy-hessian' in ob or ('no-stale' in ob and 'clpt' in model and not model.startswith('iso_')):
            kind = 'hessian'
        else:
            continue
        try:
            kw['replay'] = get(kind)
        except Exception as e:
            kw['replay'] = {'reproduced': False, 'replay_error': repr(e)}


def numeric_crosscheck(led, model):
    """thorough tier: the installed binary against the same clauses, numerically (bounded: one geometry, one laminate, orders 2,2,2).
    Only for models whose .pyx sources are those the binary was built from.  A disagreement between a discharged proof and the
    binary is reported as a checker error (the engine or the specification would be wrong), not as a violation."""
    from .. import pyreplay, shell_oracle as O
    db = model_db()
    sub = 'fsdt' if 'fsdt' in model else 'clpt'
    files = ['compmech/conecyl/%s/%s.pyx' % (sub, db[model][k]) for k in ('linear', 'commons')]
    if not pyreplay.binary_matches_source(files):
        led.bounded_item('%s: numeric cross-check skipped, the installed extension was not built from the current .pyx text' % model)
        return
    failed_clauses = set()
    for name, a, kw in getattr(led, 'calls', []):
        if name == 'fail':
            failed_clauses.add(a[0])
    pay = dict(REPLAY_BASE, model=model)
    if model.startswith('iso_'):
        pay['iso'] = [71e3, 0.33, 2.]
    lab = 'compmech/conecyl (installed binary):%s' % model
    runs = [('cylinder-equals-cone-at-0/k0', O.CYLCONE, dict(pay, alphadeg=0., which='k0'), 'n_different', 'equals-fk0-at-alpha-0'),
            ('cylinder-equals-cone-at-0/kG0', O.CYLCONE, dict(pay, alphadeg=0., which='kG0', loads=[1000., 0.1, 500.]), 'n_different', 'equals-fkG0-at-alpha-0'),
            ('k0-positive-semi-definite', O.PSD, dict(pay, alphadeg=25.), 'n_negative', 'gram-representation-psd')]
    if 'clpt' in model and not model.startswith('iso_') and 'bcn' not in model:
        runs.append(('k0-is-energy-hessian', O.HESSIAN_ALL, dict(pay, alphadeg=25., s=400), 'n_mismatch', 'energy-hessian'))
    led.bounded_item('numeric cross-check of the installed binary (thorough tier): r2=250, H=500, [30,-30,45], orders (2,2,2), alpha in {0, 25 deg}')
    for tag, script, p_, key, clause in runs:
        r = pyreplay.run_real(script, p_, timeout=1500)
        name = '%s/numeric-cross-check/%s' % (lab, tag)
        if r.get('raised') or r.get('replay_error'):
            led.error('numeric cross-check %s could not run: %s' % (name, r.get('raised') or r.get('replay_error')))
            continue
        bad = bool(r.get(key))
        proof_failed = any(clause in c for c in failed_clauses)
        if not bad:
            led.ok(name, lab, backend='numeric(bounded)')
        elif proof_failed:
            led.ok(name + '/agrees-with-the-refuted-proof-obligation', lab, backend='numeric(bounded)')
        else:
            led.error('%s: the binary violates the clause numerically (%s) although every proof obligation of it was discharged' % (name, str(r)[:300]))


class Silent(object):
    def __getattr__(self, n):
        return lambda *a, **k: None


def body(led):
    led.assume("A3: trigonometric identities (addition formulas, sin^2+cos^2=1, sin(k pi)=0, cos(k pi)=(-1)^k for integer k), the derivative rules "
               "and the fundamental theorem of calculus are used as mathematics; the module constant pi (checked to be the double nearest pi) is read as pi")
    led.assume("A6: orthogonality of {1, sin(j t), cos(j t)} over a full period for positive integers j (lemmas listed in shellk.theta_integrate)")
    led.assume("cone matrices: the contract is stated for the kernel's own quadrature (radius frozen at the middle of each of the s meridian "
               "sections); it coincides with the exact surface integral for cylinders and converges to it for s -> infinity")
    led.assume("preconditions: L, r2 > 0, 0 <= alpha < 90 deg (cos(alpha) > 0, sin(alpha) >= 0), m1, m2, n2, s >= 1, ABD blocks symmetric (C01); isotropic short-cuts: E11, h > 0, -1 < nu < 1/2")
    models = CLASSICAL + ISO + FSDT
    only = os.environ.get('C16_MODELS')
    if only:
        models = [m for m in models if m in only.split(',')]
    parallel.run(led, model_job, models)
    from . import c16_py
    c16_py.check(led)
    ok, _ = K.compare(trig.tdiff(trig.tsin(real('pi') * real('xb') / real('L')), 'xb'), trig.tcos(real('pi') * real('xb') / real('L')))
    led.canary('d/dx sin(pi x/L) == cos(pi x/L) (missing chain-rule factor)', not ok)


def main():
    return run_check('C16', body)


if __name__ == '__main__':
    sys.exit(main())
