"""C02 -- panel constitutive stiffness == Hessian of the Donnell CLT strain energy.

Functions under contract:
  panel/models/{plate,plate_w,cpanel,kpanel}_clt_donnell_bardell*.pyx : fk0, fk0y1y2   (kernel contract, symbolic loop indices)
  panel/_panel.py : Panel.__init__, _rebuild, get_size, _get_lam_F, calc_k0 (linear route) -- argument pass-through to the kernels
"""
import sys

from ..core import run_check
from ..poly import P
from .. import kharness as K, spec_panel as S
from ..pysym import real
from . import kern_common as KC, py_panel, replays

DOFS = {'plate': ('u', 'v', 'w'), 'plate_w': ('w',), 'cpanel': ('u', 'v', 'w'), 'kpanel': ('u', 'v', 'w')}


def strain_form(model):
    def form(panel, scal, geo):
        if model == 'kpanel':
            ops = S.cone_operators(geo['a'], geo['b'], geo['r'], geo['rp'], geo['cosa'])
        else:
            ops = S.donnell_operators(geo['a'], geo['b'], geo['r'])
        W = S.F_weights(panel.attrs['lam'].attrs['ABD'])
        return ops, W, DOFS[model]
    return form


def body(led):
    led.assume('C02: table functions integral_* are used through their C10 contracts (exact integrals of Bardell products); m, n <= 30')
    led.assume('C02: scipy coo_matrix((v,(r,c))) sums duplicate entries (A4); make_symmetric keeps col>=row and mirrors (checked in sparse stand-in)')
    led.assume('C02: cone twist curvature follows the package\'s own Donnell cone kinematics (kxy = -2 w,xy + (dr/dx)/r w,y)')
    led.trust('cmverif pyx front end, symbolic executor, normaliser; z3')
    for model in ('plate', 'plate_w', 'cpanel', 'kpanel'):
        for fname, y in (('fk0', False), ('fk0y1y2', True)):
            KC.run(led, model, fname, [], strain_form(model), reads_extra=('lam',), y1y2=y,
                   replay=replays.cone_rigid if model == 'kpanel' else replays.panel_matrix('k0', model, y))
    py_panel.check_calc_k0(led, replay=replays.panel_matrix('k0', 'plate', False))
    py_panel.check_one_laminate(led)
    py_panel.check_calc_k0_numeric(led)
    ok, _ = K.compare(real('F00') * 2, real('F00'))
    led.canary('2*F00 vs F00', not ok)
    _standin(led)


def _standin(led):
    from . import sparse_proof
    sparse_proof.check(led, ['make_symmetric', 'finalize_symmetric_matrix'])


def main():
    return run_check('C02', body)


if __name__ == '__main__':
    sys.exit(main())
