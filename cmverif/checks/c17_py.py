"""C17, Python layer: ConeCyl._calc_NL_matrices and ConeCyl.calc_fint compose the kernel results as the contracts of c17 assume:
   kT = k0 + k0L + k0L^T + sym(kLL) + sym(kG)  partitioned by exclude_dofs_matrix,   fint = calc_fint_0L_L0_LL(c) + k0 c  (minus excluded),
every kernel gets the full amplitude vector calc_full_c(c, inc), the geometry, the constitutive matrix of the linear step, the
series orders, the integration grid/rule/threads and the imperfection data; the iso_ models take kG and fint from the general
model.  integrate/integratev.pyx: the points are handed to the integrand in chunks that partition range(npts) for every
thread count (z3), and both point generators return betas == 1 (so that out = beta*out + alpha*f is a plain weighted sum).
"""
import itertools
import numpy as np
import z3

from ..core import CheckerError
from ..pycheck import keep_matrix as _keep_matrix
from ..poly import P, normal
from .. import pysym, shims, kharness as K
from ..pysym import real, integer, to_z3, Opaque, SymRaise
from . import py_conecyl as PC

NLM = PC.CC + 'calc_kT/_calc_NL_matrices'
FI = PC.CC + 'calc_fint'


def harness(model):
    it = PC.mk()
    calls = []

    def kernel(name):
        def contract(itp, args, kw):
            calls.append((name, list(args), dict(kw)))
            return Opaque('nlmat', name=name, n=len(calls))
        return contract
    sub = 'fsdt' if 'fsdt' in model else 'clpt'
    for mn, m in list(it.modules.items()):
        if mn.startswith('compmech.conecyl.clpt.') or mn.startswith('compmech.conecyl.fsdt.'):
            for fn in ('calc_k0L', 'calc_kG', 'calc_kLL', 'calc_fint_0L_L0_LL'):
                it.contracts['%s.%s' % (mn, fn)] = kernel('%s.%s' % (mn.split('.')[-1], fn))
    it.contracts['attr:nlmat.T'] = lambda itp, o: Opaque('transpose', of=o)
    it.contracts['compmech.sparse.make_symmetric'] = lambda itp, a, kw: Opaque('sym', of=a[0])
    it.contracts['scipy.sparse.coo_matrix'] = _keep_matrix
    it.contracts['scipy.sparse.csr_matrix'] = _keep_matrix
    it.contracts['compmech.conecyl.conecyl.ConeCyl.exclude_dofs_matrix'] = \
        lambda itp, a, kw: {'kuu': Opaque('kuu', of=a[1]), 'kuk': Opaque('kuk', of=a[1])}
    return it, calls


def check_model(led, model):
    it, calls = harness(model)
    M1 = M2 = N2 = 1
    from .c16 import model_db
    db = model_db()
    size = db[model]['num0'] + db[model]['num1'] * M1 + db[model]['num2'] * M2 * N2
    nfree = size - 3
    cu = np.array([real('c%d' % k) for k in range(nfree)], dtype=object)
    inc = real('inc')
    k0 = Opaque('k0', shape=(size, size))
    Fmat = Opaque('Fmat')
    attrs = dict(model=model, alphadeg=real('alphadeg'), r2=real('r2'), L=real('L'), m1=M1, m2=M2, n2=N2, pdC=True, pdT=True, uTM=real('uTM'), thetaTdeg=real('thetaTdeg'), betadeg=real('betadeg'),
                 stack=[real('th0')], plyt=real('plyt'), laminaprop=(real('E1'),), nx=integer('nx'), nt=integer('nt'),
                 ni_num_cores=integer('cores'), ni_method='simps2d', c0=Opaque('c0'), m0=integer('m0'), n0=integer('n0'),
                 E11=real('E11'), nu=real('nu'), h=real('h'))
    it.facts += [to_z3(real('r2')) > 0, to_z3(real('L')) > 0, to_z3(real('alphadeg')) > 0, to_z3(real('alphadeg')) < 90, to_z3(shims.PI) > 3]
    cu_reduced = cu
    cu_complete = np.array([real('c%d' % k) for k in range(size)], dtype=object)
    for what, complete in itertools.product(('kT', 'fint', 'fint-full'), (False, True)):
        del calls[:]
        cu0 = cu_complete if complete else cu_reduced

        def run():
            del calls[:]
            cu = cu0.copy()
            cc = PC.new_cc(it, **attrs)
            it.call(it.getattr(cc, '_rebuild'), [], {})
            it.setattr(cc, 'k0', k0)
            it.setattr(cc, 'F', Fmat)
            if what == 'kT':
                r_ = it.call(it.getattr(cc, 'calc_kT'), [cu], dict(inc=inc, silent=True))
                return cc, r_, list(calls), cu
            # the grid multiplier m is symbolic; 'fint-full' asks for the vector of all amplitudes (return_u=False)
            r_ = it.call(it.getattr(cc, 'calc_fint'), [cu], dict(inc=inc, silent=True, m=integer('mgrid'), **({'return_u': False} if what == 'fint-full' else {})))
            return cc, r_, list(calls), cu
        res = it.explore(run)
        func = NLM if what == 'kT' else FI
        for path, out in res:
            name = '%s[%s%s%s]' % (func, model, ',return_u=False' if what == 'fint-full' else '', ',complete amplitude vector given' if complete else '')
            if out[0] == 'raise':
                led.fail(name + '/no-exception', func, {'raises': out[1].tname, 'args': [str(a)[:100] for a in out[1].eargs]}, signature='raise:' + out[1].tname)
                continue
            cc, ret, pcalls, cu_after = out[1]
            # frame: the caller's amplitude vector is an input; evaluating at it must not change it
            changed = [k for k in range(len(cu0)) if not (isinstance(cu_after[k], P) and K.compare(cu_after[k], cu0[k])[0])] if len(cu_after) == len(cu0) else ['length']
            fname_ = name + '/the amplitude vector of the caller is unchanged'
            if changed:
                led.fail(fname_, func, {'differences': ['entry %s of the caller\'s vector is %s after the call, was %s' % (k, cu_after[k] if k != 'length' else len(cu_after), cu0[k] if k != 'length' else len(cu0)) for k in changed[:4]]},
                         signature='frame-c', replay=replay_caller_vector(what))
            else:
                led.ok(fname_, func)
            cu = cu0.copy()
            gen = model[4:] if model.startswith('iso_') else model
            nl_own = db[model]['non-linear']
            nl_gen = db[gen]['non-linear']
            by = {}
            for nm, a, kw in pcalls:
                by.setdefault(nm, []).append((a, kw))
            probs = []
            cfull = it.call(it.getattr(cc, 'calc_full_c'), [cu], dict(inc=inc))

            def check_args(nm, a, kw, iso, mult=P.const(1)):
                # (c, alpharad, r2, L, tLArad, F | E11, nu, h, m1, m2, n2, nx, nt, num_cores, method, c0, m0, n0)
                vals = list(a) + [kw.get(k) for k in ('nx', 'nt', 'num_cores', 'method', 'c0', 'm0', 'n0') if k in kw]
                exp_mat = [attrs['E11'], attrs['nu'], attrs['h']] if iso else [Fmat]
                want = [cfull, cc.attrs['alpharad'], attrs['r2'], attrs['L'], cc.attrs['tLArad']] + exp_mat + \
                       [M1, M2, N2, attrs['nx'] * mult, attrs['nt'] * mult, attrs['ni_num_cores'], attrs['ni_method'], attrs['c0'], attrs['m0'], attrs['n0']]
                if len(vals) != len(want):
                    probs.append('%s called with %d arguments instead of %d' % (nm, len(vals), len(want)))
                    return
                for k_, (g, w) in enumerate(zip(vals, want)):
                    same = False
                    if isinstance(w, np.ndarray):
                        same = isinstance(g, np.ndarray) and len(g) == len(w) and all(K.compare(x if isinstance(x, P) else P.const(x), y if isinstance(y, P) else P.const(y))[0] for x, y in zip(g, w))
                    elif isinstance(w, Opaque):
                        same = g is w
                    elif isinstance(w, P) or isinstance(g, P):
                        same = K.compare(g if isinstance(g, P) else P.const(g), w if isinstance(w, P) else P.const(w))[0]
                    else:
                        same = g == w
                    if not same:
                        probs.append('%s: argument %d is %s instead of %s' % (nm, k_, str(g)[:80], str(w)[:80]))
            if what == 'kT':
                exp_calls = {nl_gen + '.calc_kG': False, nl_own + '.calc_k0L': model.startswith('iso_'), nl_own + '.calc_kLL': model.startswith('iso_')}
                mats = {}
                for nm, iso in exp_calls.items():
                    if len(by.get(nm, [])) != 1:
                        probs.append('%s called %d times' % (nm, len(by.get(nm, []))))
                        continue
                    check_args(nm, by[nm][0][0], by[nm][0][1], iso)
                extra = [nm for nm in by if nm not in exp_calls]
                if extra:
                    probs.append('unexpected kernel calls %s' % extra)
                if not probs:
                    order = [nm for nm, _, _ in pcalls]
                    o = {nm.split('.')[-1]: Opaque('nlmat', name=nm, n=order.index(nm) + 1) for nm in order}
                    want = Opaque('sum', terms=[k0, o['calc_k0L'], Opaque('transpose', of=o['calc_k0L']), Opaque('sym', of=o['calc_kLL']), Opaque('sym', of=o['calc_kG'])])
                    got = cc.attrs.get('kTuu')
                    if ret is not got:
                        probs.append('calc_kT returns %r instead of kTuu' % (ret,))
                    if not (isinstance(got, Opaque) and got.kind == 'kuu' and isinstance(got.f['of'], Opaque) and got.f['of'].key() == want.key()):
                        probs.append('kTuu is %r instead of the kuu block of k0 + k0L + k0L^T + sym(kLL) + sym(kG)' % (got,))
                clause = 'kT = k0 + k0L + k0L^T + sym(kLL) + sym(kG) with the state, geometry and grid of the call'
            else:
                nm = nl_gen + '.calc_fint_0L_L0_LL'
                if len(by.get(nm, [])) != 1 or len(pcalls) != 1:
                    probs.append('kernel calls: %s' % [c_[0] for c_ in pcalls])
                else:
                    check_args(nm, by[nm][0][0], by[nm][0][1], False, mult=integer('mgrid'))
                    want = Opaque('sum', terms=[Opaque('nlmat', name=nm, n=1), Opaque('matvec', a=k0, b=list(cfull))])
                    if what == 'fint':
                        want = Opaque('delete', of=want, idx=[0, 1, 2], axis=None)
                    if not (isinstance(ret, Opaque) and ret.key() == want.key()):
                        probs.append('returns %r' % (ret,))
                clause = 'fint = calc_fint_0L_L0_LL(calc_full_c(c)) + k0 calc_full_c(c), prescribed entries removed'
            if probs:
                led.fail('%s/%s' % (name, clause), func, {'differences': probs[:8]}, signature=what.split('-')[0])
            else:
                led.ok('%s/%s' % (name, clause), func)


def replay_caller_vector(what):
    from .. import pyreplay, shell_oracle as O
    script = O.COMMON + '''
cc = make(payload); cc.pdC = True; cc.pdT = True; cc.uTM = 0.3; cc.thetaTdeg = 0.2
cc._calc_linear_matrices()
rs = np.random.RandomState(3)
c = rs.uniform(-1, 1, cc.get_size())
before = c.copy()
if payload['what'] == 'kT':
    cc.calc_kT(c, inc=0.5, silent=True)
else:
    cc.calc_fint(c, inc=0.5, silent=True, **({'return_u': False} if payload['what'] == 'fint-full' else {}))
out = {'max_change_of_the_callers_vector': float(abs(c - before).max()), 'changed_entries': [int(k) for k in np.nonzero(c != before)[0]]}
'''
    pay = dict(m1=3, m2=2, n2=2, r2=250., H=500., alphadeg=20., model='clpt_donnell_bc1', laminaprop=[123.55e3, 8.708e3, 0.319, 5.695e3, 5.695e3, 5.695e3], stack=[30, -30, 45], plyt=0.125, what=what)
    r = pyreplay.run_real(script, pay, timeout=600)
    return {'reproduced': bool(r.get('changed_entries')), 'input': pay, 'result': r, 'real_function': 'ConeCyl.calc_kT / ConeCyl.calc_fint'}


def check_integratev(led):
    """chunks [k*i, k*i+k) for i < num_cores plus the rest [k*num_cores, npts) partition range(npts), k = npts // num_cores (C division)"""
    lab = 'compmech/integrate/integratev.pyx:integratev'
    led.function(lab)
    import ast
    from .. import pyxfront
    import os
    from ..core import REPO
    mod = pyxfront.rewrite(os.path.join(REPO, 'compmech/integrate/integratev.pyx'))
    f = mod.funcs['integratev']
    src = ast.unparse(f)
    need = ['k = npts / num_cores', 'for i in prange(num_cores', 'f(k, PTR(xs2, k * i), PTR(ys2, k * i), PTR(outs, i, 0), PTR(alphas, k * i), PTR(betas, k * i), args=args)',
            'rest = npts - k * num_cores', 'if rest > 0:', 'f(rest, PTR(xs2, k * num_cores), PTR(ys2, k * num_cores), PTR(outs, 0, 0), PTR(alphas, k * num_cores), PTR(betas, k * num_cores), args=args)',
            'out_tmp = np.sum(outs, axis=0)']
    stmts = set()
    for node in ast.walk(f):
        if isinstance(node, (ast.For, ast.If, ast.While)):
            stmts.add(ast.unparse(node).split('\n')[0].rstrip(':').strip())
        elif isinstance(node, ast.stmt):
            stmts.add(ast.unparse(node).strip())
    need = [n.rstrip(':') for n in need]
    need[1] = next((x for x in stmts if x.startswith('for i in prange(num_cores')), need[1])
    missing = [n for n in need if n not in stmts]
    name = lab + '/chunk-structure (k = npts/num_cores points per thread at offset k*i, remainder at k*num_cores into row 0, rows summed)'
    if missing:
        led.fail(name, lab, {'statements not found in the extracted text': missing}, signature='integratev-structure')
        return
    led.ok(name, lab)
    npts, cores, k, j, i = z3.Ints('npts cores k j i')
    s = z3.Solver()
    s.set('timeout', 20000)
    # C division of positive ints
    s.add(npts >= 1, cores >= 1, k * cores <= npts, npts < k * cores + cores, k >= 0)
    covered_by = lambda jj, ii: z3.And(ii >= 0, ii < cores, k * ii <= jj, jj < k * ii + k)
    rest = lambda jj: z3.And(jj >= k * cores, jj < npts)
    # (1) every j is covered; (2) not covered twice
    i2 = z3.Int('i2')
    s.push()
    # a point below k*cores lies in the chunk of thread j // k (k > 0 there)
    s.add(j >= 0, j < npts, z3.Not(rest(j)), z3.Not(covered_by(j, j / k)))
    r1 = s.check()
    s.pop()
    s.push()
    s.add(j >= 0, j < npts, z3.Or(z3.And(covered_by(j, i), covered_by(j, i2), i != i2), z3.And(covered_by(j, i), rest(j))))
    r2 = s.check()
    s.pop()
    name2 = lab + '/every-point-is-integrated-exactly-once-for-every-thread-count'
    if r1 == z3.unsat and r2 == z3.unsat:
        led.ok(name2, lab, backend='z3')
    elif r1 == z3.sat or r2 == z3.sat:
        led.fail(name2, lab, {'uncovered': str(r1), 'double': str(r2)}, backend='z3', signature='integratev-partition')
    else:
        led.undecide(name2, lab, 'z3: %s / %s' % (r1, r2))
    # betas == 1 in both point generators (integrate.pyx)
    mod2 = pyxfront.rewrite(os.path.join(REPO, 'compmech/integrate/integrate.pyx'))
    for fn in ('trapz2d_points', 'simps2d_points'):
        lab2 = 'compmech/integrate/integrate.pyx:' + fn
        led.function(lab2)
        srcf = ast.unparse(mod2.funcs[fn])
        stores = [n for n in ast.walk(mod2.funcs[fn]) if isinstance(n, ast.Assign) and isinstance(n.targets[0], ast.Subscript)
                  and getattr(n.targets[0].value, 'id', None) == 'betas']
        okb = bool(stores) and all(isinstance(n.value, ast.Constant) and n.value.value == 1.0 for n in stores)
        nm = lab2 + '/betas-are-one'
        (led.ok(nm, lab2) if okb else led.fail(nm, lab2, {'stores into betas': [ast.unparse(n) for n in stores]}, signature='betas:' + fn))


def attach_replays(led):
    fails = [f for f in led.failed if f.get('replay') is None and 'conecyl.py' in f['function']]
    if not fails:
        return
    from .. import pyreplay, shell_oracle as O
    pay = dict(m1=2, m2=2, n2=2, r2=250., H=500., alphadeg=15., amp=2.0, laminaprop=[123.55e3, 8.708e3, 0.319, 5.695e3, 5.695e3, 5.695e3],
               stack=[30, -30, 45], plyt=0.125, model='clpt_donnell_bc1', pdC=True, uTM=1.0, thetaTdeg=0.5, inc=0.5)
    try:
        r = pyreplay.run_real(O.TANGENT, pay, timeout=1500)
        rep = {'reproduced': bool(r.get('n_entries_off')) or bool(r.get('raised')), 'input': pay, 'result': r,
               'real_function': 'ConeCyl.calc_kT vs central difference of ConeCyl.calc_fint (prescribed shortening, load factor 0.5)'}
    except Exception as e:
        rep = {'reproduced': False, 'replay_error': repr(e)}
    for f in fails:
        f['replay'] = rep


def check(led):
    led.function(NLM)
    led.function(FI)
    for model in ('clpt_donnell_bc1', 'clpt_sanders_bc2', 'iso_clpt_donnell_bc2', 'fsdt_donnell_bc1'):
        check_model(led, model)
    check_integratev(led)
    if hasattr(led, 'failed'):
        attach_replays(led)
