"""C05 -- linear buckling wrapper: returned pairs are eigenpairs of (K + lambda*KG) v = 0, zeros on removed amplitudes.

Functions under contract: analysis/linear_buckling.py:lb ; panel/_panel.py:Panel.lb ; conecyl/conecyl.py:ConeCyl.lb (staged)
Assumed (not verified): the contracts of eigsh / eigh / remove_null_cols stated in cmverif/eigctx.py.
"""
import sys
import z3

from ..core import run_check
from ..poly import P
from .. import pysym, shims, absnp, eigctx, vc
from ..pysym import Interp, integer, real, to_z3, Cond, SymRaise
from ..absnp import AArr, T

LB = 'compmech/analysis/linear_buckling.py:lb'


def mk():
    it = Interp()
    shims.install(it)
    absnp.install(it)
    log = []
    eigctx.install(it, log)
    it.contracts['compmech.logger.msg'] = lambda itp, a, kw: None
    it.contracts['compmech.logger.warn'] = lambda itp, a, kw: None
    it.algebraic_minmax = True
    return it, log


def raise_signature(e):
    """robust identification of a raising site: exception type + source text of the raising expression
    (or, for an exception raised by an assumed contract, the contract's message up to the first colon)"""
    import ast
    where = ''
    if getattr(e, 'node', None) is not None:
        try:
            where = ast.unparse(e.node)[:60]
        except Exception:
            where = ''
    if not where and e.eargs:
        where = str(e.eargs[0]).split(':')[0][:60]
    return '%s at %s' % (e.tname, where)


def describe_model(mdl):
    if not mdl:
        return None
    return {k: v for k, v in mdl.items() if k.startswith('i!')}


def per_mode_multiple(val, vecs):
    if val == vecs:
        return True
    if isinstance(val, tuple) and len(val) == 3 and val[0] in ('*', '/'):
        a, b = val[1], val[2]
        if a == vecs:
            other = b
        elif b == vecs and val[0] == '*':
            other = a
        else:
            return False
        # a row vector (newaxis in front) or a scalar
        return (isinstance(other, tuple) and other[:2] == ('newaxis', (0,))) or isinstance(other, str)
    if isinstance(val, tuple) and len(val) == 4 and val[0] in ('*', '/') and val[1] in ('std', 'swap') and val[2] == vecs:
        return True        # array (op) scalar
    return False


def analyse_paths(led, it, log_of, res, func, tag, kterm, kgterm, want_kwargs, dense_fn, sparse_fn, replay=None):
    for path, out in res:
        name = '%s[%s]' % (func, tag)
        calls = out[1][1] if out[0] == 'return' else getattr(out[1], 'calls', [])
        if out[0] == 'raise':
            e = out[1]
            st, mdl, dt = 'invalid', None, 0
            try:
                r, m = __import__('cmverif.smt', fromlist=['x']).satisfiable(list(it.facts) + [pysym.cond_z3(c) for c in path.conds])
                mdl = {str(d): str(m[d]) for d in m.decls() if str(d).startswith('i!')} if r == 'sat' else None
            except Exception:
                pass
            sig = raise_signature(e)
            led.fail('%s/no-exception/%s' % (name, raise_signature(e)), func,
                     {'raises': e.tname, 'message': [str(a)[:160] for a in e.eargs], 'line': getattr(e.node, 'lineno', None),
                      'sizes_that_trigger_it': mdl, 'path': [repr(c)[:80] for c in path.conds][-6:]},
                     backend='z3', signature=sig, replay=replay(mdl) if replay else None)
            continue
        (eigvals, eigvecs), calls = out[1]
        solver = [c for c in calls if c['fn'] in (dense_fn, sparse_fn)]
        probs = []
        if not solver:
            probs.append('no eigen-solver call')
        else:
            c = solver[-1]
            cid = calls.index(c)
            removed = any(x['fn'] == 'remove_null_cols' for x in calls[:cid])
            wantA = ('restrict', kgterm, kterm) if removed else kgterm
            wantM = ('restrict', kterm, kterm) if removed else kterm
            if c['A'] != wantA:
                probs.append('solver operator A is %r, expected %r (the geometric matrix%s)' % (c['A'], wantA, ' restricted to the non-null columns of K' if removed else ''))
            if c['M'] != wantM:
                probs.append('solver operator M/b is %r, expected %r' % (c['M'], wantM))
            for kk, vv in want_kwargs.items():
                if c['fn'] == sparse_fn and c['kw'].get(kk) != vv:
                    probs.append('solver keyword %s = %r, expected %r' % (kk, c['kw'].get(kk), vv))
            # back transform: lambda = -1/mu
            if not (isinstance(eigvals, AArr) and eigvals.term == ('/', 'swap', ('eigvals', cid), '-1')):
                probs.append('returned multipliers are %r, expected -1/mu of the last solver call' % (getattr(eigvals, 'term', eigvals),))
            # modes
            t = getattr(eigvecs, 'term', None)
            if removed:
                ok = (isinstance(t, tuple) and t[0] == 'store' and t[1] == ('zeros',) and t[2] == (('take', ('used_cols', kterm)), 'all')
                      and (per_mode_multiple(t[3], ('eigvecs', cid)) or (isinstance(t[3], tuple) and t[3][0] == 'index' and t[3][1] == ('eigvecs', cid) and t[3][2][0] == 'all')))
                if not ok:
                    probs.append('modes are %r, expected zeros with the solver modes scattered into the rows of the non-null columns of K' % (t,))
            else:
                if not per_mode_multiple(t, ('eigvecs', cid)):
                    probs.append('modes are %r, expected the solver modes (up to a factor per mode)' % (t,))
        if probs:
            led.fail(name + '/post', func, {'differences': probs}, signature=';'.join(probs)[:150], replay=replay(None) if replay else None)
        else:
            led.ok(name + '/post', func)


def sizes_from_model(mdl, default=(10, 10, 25)):
    n, nu, num = default
    for k, v in (mdl or {}).items():
        try:
            iv = int(v)
        except ValueError:
            continue
        if k == 'i!size':
            n = iv
        elif k.startswith('i!n_used'):
            nu = iv
        elif k == 'i!num_eigvalues':
            num = iv
    if not any(k.startswith('i!n_used') for k in (mdl or {})):
        nu = n
    return n, max(nu, 1), num


def replay_small(mdl):
    """the real lb() on matrices with the sizes of the solver's counterexample (size, number of non-null columns, requested count)"""
    from ..pyreplay import run_real
    n, nu, num = sizes_from_model(mdl)
    script = '''
import numpy as np
from scipy.sparse import csr_matrix
from compmech.analysis import lb
rs = np.random.RandomState(3)
n, nu = payload["n"], payload["nu"]
A = rs.rand(nu, nu); Kd = np.zeros((n, n)); Kd[:nu, :nu] = A.dot(A.T) + nu*np.eye(nu)
B = rs.rand(nu, nu); Gd = np.zeros((n, n)); Gd[:nu, :nu] = -(B.dot(B.T) + np.eye(nu))
K = csr_matrix(Kd); KG = csr_matrix(Gd)
res = {}
for sp in (True, False):
    try:
        ev, evec = lb(K, KG, sparse_solver=sp, silent=True, num_eigvalues=payload["num"])
        res[str(sp)] = "ok %d values, modes %s" % (len(ev), evec.shape)
    except Exception as e:
        res[str(sp)] = "raised %s: %s" % (type(e).__name__, str(e)[:120])
out = {"result_by_sparse_solver": res}
'''
    r = run_real(script, {'n': n, 'nu': nu, 'num': num})
    r['reproduced'] = any('raised' in v for v in (r.get('result_by_sparse_solver') or {}).values())
    r['input'] = 'K SPD on the first %d of %d amplitudes (others null), KG negative definite there, num_eigvalues=%d, both solver switches' % (nu, n, num)
    return r


def check_lb(led):
    led.function(LB)
    for sparse in (True, False):
        it, log = mk()
        n = integer('size')
        num = integer('num_eigvalues')
        it.facts += [to_z3(n) >= 5, to_z3(n) <= 400, to_z3(num) >= 1, to_z3(num) <= 25]
        K = AArr((n, n), 'K')
        KG = AArr((n, n), 'KG')
        f = it.module('compmech.analysis.linear_buckling').g['lb']

        def run():
            del log[:]
            try:
                r = it.call(f, [K, KG], dict(sparse_solver=sparse, silent=True, num_eigvalues=num))
            except SymRaise as e:
                e.calls = list(log)
                raise
            return r, list(log)
        res = it.explore(run)
        analyse_paths(led, it, log, res, LB, 'sparse_solver=%s' % sparse, 'K', 'KG',
                      {'sigma': '1', 'which': 'SM', 'mode': 'cayley'}, 'eigh', 'eigsh', replay=replay_small)
        led.solver_time('z3-feasibility', it.solver_time)
        led.extra['paths'] = led.extra.get('paths', 0) + len(res)


def check_panel_lb(led, arguments_only=False):
    """Panel.lb (duplicate implementation): same obligations, plus the matrices it hands to the solver are the panel's own
    k0 / kG0 computed with the arguments the caller supplied"""
    func = 'compmech/panel/_panel.py:Panel.lb'
    led.function(func)
    from .. import panelctx
    for sparse in (True, False):
        for state in ('constant-load', 'from-state'):
            it, log = mk()
            n = integer('size')
            num = integer('num_eigvalues')
            it.facts += [to_z3(n) >= 5, to_z3(n) <= 400, to_z3(num) >= 1, to_z3(num) <= 25]
            mcalls = []

            def c_k0(itp, a, kw):
                mcalls.append(('calc_k0', dict(kw)))
                a[0].attrs['k0'] = AArr((n, n), 'k0')
                return a[0].attrs['k0']

            def c_kG0(itp, a, kw):
                mcalls.append(('calc_kG0', dict(kw)))
                a[0].attrs['kG0'] = AArr((n, n), 'kG0')
                return a[0].attrs['kG0']
            it.contracts['compmech.panel._panel.Panel.calc_k0'] = c_k0
            it.contracts['compmech.panel._panel.Panel.calc_kG0'] = c_kG0
            cvec = AArr((n,), 'c') if state == 'from-state' else None
            ckL = AArr((n,), 'ckL') if state == 'from-state' else None
            Fn = AArr((integer('nx'), integer('ny'), 6, 6), 'Fnxny') if state == 'from-state' else None

            def run():
                del log[:]
                del mcalls[:]
                p = panelctx.new_panel(it, a=real('a'), b=real('b'), stack=[real('th')], plyt=real('t'), laminaprop=(real('E'), real('E'), real('nu')))
                p.attrs['num_eigvalues'] = num
                try:
                    it.call(it.getattr(p, 'lb'), [], dict(sparse_solver=sparse, silent=True, c=cvec, ckL=ckL, Fnxny=Fn, nx=integer('nx'), ny=integer('ny')))
                except SymRaise as e:
                    e.calls = list(log)
                    raise
                return (p.attrs.get('eigvals'), p.attrs.get('eigvecs')), list(log), list(mcalls)
            res = it.explore(run)
            tag = 'sparse_solver=%s,%s' % (sparse, state)
            res2 = []
            for path, out in res:
                if out[0] == 'return':
                    (ev, mc) = out[1][0], out[1][2]
                    # argument pass-through to the matrix methods
                    probs = []
                    want0 = dict(silent=True) if state == 'constant-load' else dict(silent=True, c=ckL, nx=integer('nx'), ny=integer('ny'), Fnxny=Fn)
                    wantG = dict(silent=True, c=cvec, nx=integer('nx'), ny=integer('ny'), Fnxny=Fn)
                    got = dict(mc)
                    for nm, want in (('calc_k0', want0), ('calc_kG0', wantG)):
                        g = got.get(nm)
                        if g is None:
                            probs.append('%s not called' % nm)
                            continue
                        for k2, v2 in want.items():
                            if k2 not in g or not (g[k2] is v2 or g[k2] == v2):
                                probs.append('%s(%s=...) receives %r, expected %r' % (nm, k2, g.get(k2), v2))
                    nm = '%s[%s]/matrix-arguments' % (func, tag)
                    led.ok(nm, func) if not probs else led.fail(nm, func, {'differences': probs}, signature=';'.join(probs)[:150])
                    res2.append((path, ('return', (out[1][0], out[1][1]))))
                else:
                    res2.append((path, out))
            if not arguments_only:
                analyse_paths(led, it, log, res2, func, tag, 'k0', 'kG0', {'sigma': '1', 'which': 'SM', 'mode': 'cayley'}, 'eigh', 'eigsh',
                              replay=replay_panel_small)
            led.solver_time('z3-feasibility', it.solver_time)
            led.extra['paths'] = led.extra.get('paths', 0) + len(res)


def replay_panel_small(mdl):
    from ..pyreplay import run_real
    script = '''
from compmech.panel import Panel
res = {}
for sp in (True, False):
    p = Panel(a=1., b=0.5, stack=[0, 90], plyt=1e-3, laminaprop=(142.5e9, 8.7e9, 0.28, 5.1e9, 5.1e9, 5.1e9), m=2, n=2)
    p.Nxx = -1.
    p.num_eigvalues = payload["num"]
    try:
        p.lb(silent=True, sparse_solver=sp)
        res[str(sp)] = "ok %d values, modes %s" % (len(p.eigvals), p.eigvecs.shape)
    except Exception as e:
        res[str(sp)] = "raised %s: %s" % (type(e).__name__, str(e)[:120])
out = {"result_by_sparse_solver": res}
'''
    r = run_real(script, {'num': 12})
    r['reproduced'] = any('raised' in v for v in (r.get('result_by_sparse_solver') or {}).values())
    r['input'] = 'simply supported plate m=n=2 (12 amplitudes, 4 active), num_eigvalues=12'
    return r


def lemma_backtransform(led):
    """KG v = mu K v, mu != 0, lambda = -1/mu  =>  (K + lambda KG) v = 0   (component-wise, over the reals)"""
    kv, kgv, mu = z3.Reals('Kv KGv mu')
    from ..smt import valid
    st, mdl, dt = valid(z3.Implies(z3.And(kgv == mu * kv, mu != 0), kv + (-1 / mu) * kgv == 0))
    led.solver_time('z3', dt)
    nm = 'lemma(C05)/KG v = mu K v and lambda=-1/mu imply (K + lambda KG) v = 0'
    led.ok(nm, 'lemma(C05)', backend='z3') if st == 'valid' else led.fail(nm, 'lemma(C05)', {'z3': str(mdl)})


def body(led):
    for a in eigctx.__doc__.strip().split('\\n')[3:]:
        pass
    led.assume('C05: contracts of scipy eigsh/eigh and of sparse.remove_null_cols as stated in cmverif/eigctx.py (assumed, not verified): '
               'solvers return eigenpairs A V = M V diag(w) in the requested count; eigsh needs 0<k<n and may fail numerically')
    led.assume('C05: solver precision, ARPACK ordering and sparse/dense agreement are not decidable by contracts (bounded run-time stand-in only)')
    led.trust('cmverif symbolic executor with abstract arrays (absnp); z3 (LIA) for shape obligations')
    check_lb(led)
    check_panel_lb(led)
    from . import c05_shell
    c05_shell.check(led)
    lemma_backtransform(led)
    _standin(led)


def _standin(led):
    from . import sparse_standin
    from . import sparse_proof
    sparse_proof.remove_null_cols_or_standin(led)


def main():
    return run_check('C05', body)


if __name__ == '__main__':
    sys.exit(main())
