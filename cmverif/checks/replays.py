"""Replays on the real package (binary kernels through the public API) against independent oracles."""
from ..pyreplay import run_real

_CACHE = {}


def cone_rigid():
    """a rigid translation of an unrestrained conical panel along the cone axis must store (almost) no strain
    energy.  For a cone whose radius shrinks along +x with w positive outwards that field is (u, w) = d*(cos a, +sin a)."""
    if 'cone' in _CACHE:
        return _CACHE['cone']
    script = '''
import numpy as np
from compmech.panel import Panel
al = 20.
p = Panel(a=1., b=0.6, r=2., alphadeg=al, stack=[0], plyt=1e-3, laminaprop=(70e9, 70e9, 0.3), m=6, n=6)
for d in 'uvw':
    for e in '12':
        for k in 'tr':
            for ax in 'xy':
                setattr(p, d+e+k+ax, 1.)
k0 = p.calc_k0(silent=True)
size = k0.shape[0]
def field(du, dw):
    c = np.zeros(size)
    for j in (0, 2):
        for i in (0, 2):
            col = 3*(j*p.m + i)
            c[col+0] = du; c[col+2] = dw
    return c
delta = 1e-3
ca, sa = np.cos(np.deg2rad(al)), np.sin(np.deg2rad(al))
def energy(c): return float(0.5*c.dot(k0.dot(c)))
out = {"energy_true_rigid_translation(u=d*cos,w=+d*sin)": energy(field(delta*ca, delta*sa)),
       "energy_mirrored_field(u=d*cos,w=-d*sin)": energy(field(delta*ca, -delta*sa)),
       "energy_reference(u=d only)": energy(field(delta, 0.))}
'''
    r = run_real(script, {})
    ref = abs(r.get('energy_reference(u=d only)', 0)) or 1.0
    e_true = abs(r.get('energy_true_rigid_translation(u=d*cos,w=+d*sin)', 0))
    r['reproduced'] = bool(e_true > 1e-3 * ref)
    r['input'] = 'all-free conical panel a=1, b=.6, r=2, alpha=20deg, isotropic t=1mm, m=n=6'
    _CACHE['cone'] = r
    return r


def panel_matrix(which, model, y1y2):
    """replay of a panel matrix through the public API against the numerical oracle (oracle_panel.py)"""
    def rp():
        key = (which, model, y1y2)
        if key in _CACHE:
            return _CACHE[key]
        from .. import oracle_src
        script = oracle_src.SRC + '''
out = compare_panel(payload["which"], payload["model"], payload["y1y2"])
'''
        r = run_real(script, {'which': which, 'model': model, 'y1y2': y1y2})
        r['reproduced'] = bool(r.get('max_rel_diff', 0) > 1e-6 or r.get('raised'))
        _CACHE[key] = r
        return r
    return rp


def mass_offset_invariance():
    """independent oracle of the invariance clause: the natural frequencies of an unrestrained homogeneous plate do not
    depend on where the reference surface is put (real K and M through the public API, dense eigen-solution)"""
    if 'massinv' in _CACHE:
        return _CACHE['massinv']
    script = '''
import numpy as np
from scipy.linalg import eigh
from compmech.panel import Panel
def first_elastic(offset):
    p = Panel(a=1., b=0.7, stack=[0], plyt=0.01, laminaprop=(70e9, 70e9, 0.3), mu=2700., m=8, n=8, offset=offset)
    for d in 'uvw':
        for e in '12':
            for k in 'tr':
                for ax in 'xy':
                    setattr(p, d+e+k+ax, 1.)
    K = p.calc_k0(silent=True).toarray(); M = p.calc_kM(silent=True).toarray()
    w2 = eigh(K, M, eigvals_only=True)
    w2 = w2[w2 > 1e-3*w2.max()*1e-6]
    el = [x for x in w2 if x > 1.]      # skip the six rigid-body modes
    return float(np.sqrt(el[0]))
f0 = first_elastic(0.); f4 = first_elastic(0.004)
out = {"first_elastic_frequency_offset_0": f0, "first_elastic_frequency_offset_4mm": f4, "relative_change": abs(f4-f0)/f0}
'''
    r = run_real(script, {})
    r['reproduced'] = bool(r.get('relative_change', 0) > 1e-6 or r.get('raised'))
    r['input'] = 'all-free isotropic plate a=1, b=.7, t=10mm, m=n=8; reference surface moved by 4 mm'
    _CACHE['massinv'] = r
    return r


def strain_nl_terms():
    """the quadratic slope terms reported by Panel.strain against 1/2 w,x^2 etc. built from the package's own rotations
    (phix = -w,x, phiy = -w,y)"""
    if 'nl' in _CACHE:
        return _CACHE['nl']
    script = '''
import numpy as np
from compmech.panel import Panel
p = Panel(a=1., b=0.7, stack=[0, 90, 90, 0], plyt=1.25e-4, laminaprop=(142.5e9, 8.7e9, 0.28, 5.1e9, 5.1e9, 5.1e9), m=6, n=6)
p.calc_k0(silent=True)
c = np.zeros(p.get_size())
c[3*(4*p.m + 4) + 2] = 1e-3
c[3*(5*p.m + 4) + 2] = -0.7e-3
xs = np.array([0.31, 0.52]); ys = np.array([0.22, 0.41])
lin = p.strain(c, xs=xs, ys=ys, NLterms=False)
nl = p.strain(c, xs=xs, ys=ys, NLterms=True)
u, v, w, phix, phiy = p.uvw(c, xs=xs, ys=ys)
out = {"exx_NL_part_reported": (nl['exx'] - lin['exx']).tolist(), "half_wx_squared": (0.5*phix**2).tolist(),
       "gxy_NL_part_reported": (nl['gxy'] - lin['gxy']).tolist(), "wx_times_wy": (phix*phiy).tolist()}
'''
    r = run_real(script, {})
    try:
        import numpy as np
        a = np.array(r['exx_NL_part_reported']); b = np.array(r['half_wx_squared'])
        r['reproduced'] = bool(np.abs(a - b).max() > 1e-6 * np.abs(b).max())
    except Exception:
        r['reproduced'] = bool(r.get('raised'))
    r['input'] = 'simply supported plate a=1,b=.7,m=n=6 with two active w amplitudes (i=4,j=4: 1e-3; i=4,j=5: -0.7e-3), points (0.31,0.22),(0.52,0.41)'
    _CACHE['nl'] = r
    return r
