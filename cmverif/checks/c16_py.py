"""C16, Python layer: ConeCyl._calc_linear_matrices (placeholder until the contract is written)."""


def check(led):
    pass
