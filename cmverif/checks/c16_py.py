"""C16, Python layer: ConeCyl._calc_linear_matrices + modelDB.get_linear_matrices, executed symbolically (real source) with the
kernel modules as stubs whose functions record their arguments.  The expected argument of every kernel parameter is taken from
the parameter NAME in the real .pyx signature (alpharad -> cc.alpharad, F -> the constitutive matrix of the theory, kuBot ->
cc.kuBot, ...), so a wrong kernel, a wrong argument order or a wrong edge stiffness for one model shows as a mismatch.

Clauses: cylinder/cone dispatch (alpharad == 0), kernels of the model's own linear module (the iso_ models take kG0 and the edge
matrix from the general model), F = ABD (clpt) / ABDE with the shear block times K (fsdt) of read_stack(stack, plyts,
laminaprops) (F_reuse honoured), Fc = Nxxtop[0] 2 pi r2 cos(alpha), the combined-load split calls the kG0 kernel with one load
at a time, k0 = make_symmetric(k0 + k0edges), every kG0 symmetrised, k0uk / k0uu from exclude_dofs_matrix(k0).
"""
import itertools
import os
from fractions import Fraction

import numpy as np

from ..core import REPO, CheckerError
from ..pycheck import keep_matrix as _keep_matrix
from ..poly import P, normal
from .. import pysym, shims, kharness as K, pyxfront
from ..pysym import real, integer, to_z3, Opaque, Obj
from . import py_conecyl as PC
from .c16 import model_db

LM = PC.CC + '_calc_linear_matrices'
GL = 'compmech/conecyl/modelDB.py:get_linear_matrices'
MODELS = ['clpt_donnell_bc1', 'clpt_donnell_bc2', 'clpt_donnell_bc3', 'clpt_donnell_bc4', 'clpt_donnell_bcn',
          'clpt_sanders_bc1', 'clpt_sanders_bc2', 'clpt_sanders_bc3', 'clpt_sanders_bc4',
          'iso_clpt_donnell_bc2', 'iso_clpt_donnell_bc3',
          'fsdt_donnell_bc1', 'fsdt_donnell_bc2', 'fsdt_donnell_bc3', 'fsdt_donnell_bc4', 'fsdt_donnell_bcn', 'fsdt_sanders_bcn']
_SIGS = {}


def signature(modname, fn):
    key = (modname, fn)
    if key not in _SIGS:
        sub = 'fsdt' if modname.startswith('fsdt') else 'clpt'
        mod = pyxfront.rewrite(os.path.join(REPO, 'compmech/conecyl', sub, modname + '.pyx'))
        _SIGS[key] = [nm for _, nm in mod.sigs[fn]] if fn in mod.sigs else None
    return _SIGS[key]


def harness():
    it = PC.mk()
    calls = []

    def kernel(name):
        def contract(itp, args, kw):
            calls.append((name, list(args), dict(kw)))
            return Opaque('mat', name=name, n=len(calls))
        return contract
    for mn in list(it.modules):
        if mn.startswith('compmech.conecyl.clpt.') or mn.startswith('compmech.conecyl.fsdt.'):
            short = mn.split('.')[-1]
            for fn in ('fk0', 'fk0_cyl', 'fkG0', 'fkG0_cyl', 'fk0edges'):
                if signature(short, fn) is None:
                    it.modules[mn].g.pop(fn, None)      # the real module has no such function (AttributeError as in the package)
                else:
                    it.contracts['%s.%s' % (mn, fn)] = kernel('%s.%s' % (short, fn))
    for kind in ('mat', 'sum', 'sym'):
        it.contracts['attr:%s.data' % kind] = lambda itp, o: Opaque('data', of=o)
    it.np.isnan = lambda x: False
    it.np.isinf = lambda x: False
    it.np.any = lambda x: x
    it.contracts['compmech.sparse.make_symmetric'] = lambda itp, a, kw: Opaque('sym', of=a[0])
    it.contracts['scipy.sparse.csr_matrix'] = _keep_matrix
    it.contracts['scipy.sparse.coo_matrix'] = _keep_matrix
    it.contracts['compmech.conecyl.conecyl.ConeCyl.exclude_dofs_matrix'] = \
        lambda itp, a, kw: {'kuu': Opaque('kuu', of=a[1]), 'kuk': Opaque('kuk', of=a[1], kw=sorted(k for k, v in kw.items() if v))}
    lam_calls = []

    def read_stack(itp, a, kw):
        lam = Obj(None)
        lam.name = 'lam'
        abd = np.empty((6, 6), dtype=object)
        abde = np.empty((8, 8), dtype=object)
        abde.fill(0)
        for i in range(6):
            for j in range(6):
                abd[i, j] = real('ABD%d%d' % (i, j))
                abde[i, j] = abd[i, j]
        for i in range(6, 8):
            for j in range(6, 8):
                abde[i, j] = real('E%d%d' % (i, j))
        lam.attrs['ABD'] = abd
        lam.attrs['ABDE'] = abde
        lam_calls.append((list(a), dict(kw)))
        return lam
    it.contracts['compmech.composite.laminate.read_stack'] = read_stack
    return it, calls, lam_calls


def same(g, w):
    if isinstance(w, np.ndarray):
        return isinstance(g, np.ndarray) and g.shape == w.shape and all(
            K.compare(x if isinstance(x, P) else P.const(x), y if isinstance(y, P) else P.const(y))[0] for x, y in zip(g.reshape(-1), w.reshape(-1)))
    if isinstance(w, Opaque):
        return g is w
    if isinstance(w, (P, int, float, Fraction)) and isinstance(g, (P, int, float, Fraction)) and not isinstance(w, bool):
        return K.compare(g if isinstance(g, P) else P.const(g), w if isinstance(w, P) else P.const(w))[0]
    return g == w


FORCED_ZERO = [(0, 2), (1, 2), (2, 0), (2, 1), (0, 5), (5, 0), (1, 5), (5, 1), (3, 2), (2, 3), (4, 2), (2, 4), (3, 5), (4, 5), (5, 3), (5, 4)]


def check_one(led, model, cyl, combined, reuse, force=False):
    db = model_db()
    it, calls, lam_calls = harness()
    is_iso = model.startswith('iso_')
    gen = model[4:] if is_iso else model
    lin_own, lin_gen = db[model]['linear'], db[gen]['linear']
    alphadeg = 0. if cyl else real('alphadeg')
    attrs = dict(model=model, alphadeg=alphadeg, r2=real('r2'), L=real('L'), m1=integer('m1'), m2=integer('m2'), n2=2, s=integer('s'),
                 P=real('P'), T=real('T'), Fc=real('Fc'), pdC=False, K=real('Kshear'),
                 kuBot=real('kuBot'), kuTop=real('kuTop'), kvBot=real('kvBot'), kvTop=real('kvTop'), kwBot=real('kwBot'), kwTop=real('kwTop'),
                 kphixBot=real('kphixBot'), kphixTop=real('kphixTop'), kphitBot=real('kphitBot'), kphitTop=real('kphitTop'))
    if is_iso:
        attrs.update(E11=real('E11'), nu=real('nu'), h=real('h'), laminaprop=None, stack=[])
    else:
        attrs.update(stack=[real('th0'), real('th1')], plyt=real('plyt'), laminaprop=(real('E1'), real('E2')))
    Freuse = None
    if reuse:
        n = 8 if 'fsdt' in model else 6
        Freuse = np.array([[real('Fr%d%d' % (i, j)) for j in range(n)] for i in range(n)], dtype=object)
        attrs['F_reuse'] = Freuse
    if force:
        attrs['force_orthotropic_laminate'] = True
    it.facts += [to_z3(real('r2')) > 0, to_z3(real('L')) > 0, to_z3(shims.PI) > 3, to_z3(integer('m1')) >= 1, to_z3(integer('m2')) >= 1]
    if not cyl:
        it.facts += [to_z3(real('alphadeg')) > 0, to_z3(real('alphadeg')) < 90]

    def run():
        del calls[:]
        del lam_calls[:]
        cc = PC.new_cc(it, **attrs)
        it.call(it.getattr(cc, '_calc_linear_matrices'), [], dict(combined_load_case=combined, silent=True))
        return cc, list(calls), list(lam_calls)
    res = it.explore(run)
    tag = '%s,%s,combined=%s%s%s' % (model, 'cylinder' if cyl else 'cone', combined, ',F_reuse' if reuse else '', ',force_orthotropic_laminate' if force else '')
    for n_, (path, out) in enumerate(res):
        name = '%s[%s]%s' % (LM, tag, '' if len(res) == 1 else '#%d' % n_)
        if out[0] == 'raise':
            led.fail(name + '/no-exception', LM, {'raises': out[1].tname, 'args': [str(a)[:120] for a in out[1].eargs]}, signature='raise:' + out[1].tname)
            continue
        cc, pcalls, plam = out[1]
        a = cc.attrs
        probs = []
        # constitutive matrix
        if is_iso:
            Fexp = None
        elif reuse:
            Fexp = Freuse
        else:
            if len(plam) != 1:
                probs.append('read_stack called %d times' % len(plam))
                Fexp = None
            else:
                la, lkw = plam[0]
                if not (la and la[0] is a['stack'] or la[0] == a['stack']) or lkw.get('plyts') != a['plyts'] or lkw.get('laminaprops') != a['laminaprops']:
                    probs.append('read_stack arguments %s %s' % (str(la)[:80], str(lkw)[:120]))
                lam = a['lam']
                if 'fsdt' in model:
                    Fexp = np.array(lam.attrs['ABDE'], dtype=object)
                    # lam.ABDE is scaled in place by the method: the expected matrix is built from the unscaled atoms
                    Fexp = np.empty((8, 8), dtype=object)
                    Fexp.fill(0)
                    for i in range(6):
                        for j in range(6):
                            Fexp[i, j] = real('ABD%d%d' % (i, j))
                    for i in range(6, 8):
                        for j in range(6, 8):
                            Fexp[i, j] = real('E%d%d' % (i, j)) * attrs['K']
                else:
                    Fexp = np.array([[real('ABD%d%d' % (i, j)) for j in range(6)] for i in range(6)], dtype=object)
        if force and Fexp is not None:
            # force_orthotropic_laminate: the extension-shear, bending-twist and their coupling entries (16, 26 of A, B, D; 45 of E) are zero
            Fexp = np.array(Fexp, dtype=object)
            for (i, j) in FORCED_ZERO + ([(6, 7), (7, 6)] if Fexp.shape[0] == 8 else []):
                Fexp[i, j] = P.const(0)
        if is_iso:
            # the constitutive matrix that _rebuild derives from (E11, nu, h) -- what calc_fint and kG of the iso_ models integrate, while
            # their k0 / k0L / kLL kernels take (E11, nu, h) themselves: it must be the isotropic plate matrix
            E_, nu_, h_ = attrs['E11'], attrs['nu'], attrs['h']
            c1 = E_ * h_ / (1 - nu_ * nu_)
            d1 = E_ * h_ * h_ * h_ / (12 * (1 - nu_ * nu_))
            Fiso = [[c1, nu_ * c1, 0, 0, 0, 0], [nu_ * c1, c1, 0, 0, 0, 0], [0, 0, c1 * (1 - nu_) * Fraction(1, 2), 0, 0, 0],
                    [0, 0, 0, d1, nu_ * d1, 0], [0, 0, 0, nu_ * d1, d1, 0], [0, 0, 0, 0, 0, d1 * (1 - nu_) * Fraction(1, 2)]]
            Fgot = a.get('F')
            if not isinstance(Fgot, np.ndarray) or Fgot.shape != (6, 6):
                probs.append('F of the isotropic shell is %r' % (type(Fgot).__name__,))
            else:
                from ..poly import rational_close
                for i_ in range(6):
                    for j_ in range(6):
                        g_ = Fgot[i_, j_] if isinstance(Fgot[i_, j_], P) else P.const(Fgot[i_, j_])
                        w_ = Fiso[i_][j_] if isinstance(Fiso[i_][j_], P) else P.const(Fiso[i_][j_])
                        if not rational_close(g_, w_)[0]:
                            probs.append('F[%d,%d] of the isotropic shell is %s, expected %s (E h/(1-nu^2) [[1,nu,0],[nu,1,0],[0,0,(1-nu)/2]], D = A h^2/12)' % (i_, j_, str(g_)[:60], str(w_)[:60]))
        arad = shims.sym_deg2rad(alphadeg) if not cyl else P.const(0)
        cosa = shims.sym_cos(arad) if not cyl else P.const(1)
        Fc_exp = a['Nxxtop'][0] * (2 * shims.PI * attrs['r2'] * cosa)
        nxx0 = attrs['Fc'] / (2 * shims.PI * attrs['r2'] * cosa)
        if not same(a['Nxxtop'][0], nxx0):
            probs.append('Nxxtop[0] is %s' % (a['Nxxtop'][0],))
        values = dict(alpharad=arad, r1=a['r1'], r2=attrs['r2'], L=attrs['L'], m1=attrs['m1'], m2=attrs['m2'], n2=attrs['n2'], s=attrs['s'],
                      E11=attrs.get('E11'), nu=attrs.get('nu'), h=attrs.get('h'), P=attrs['P'], T=attrs['T'], Fc=Fc_exp)
        for kname in ('kuBot', 'kuTop', 'kvBot', 'kvTop', 'kwBot', 'kwTop', 'kphixBot', 'kphixTop', 'kphitBot', 'kphitTop'):
            values[kname] = attrs[kname]
        k0fn = 'fk0_cyl' if cyl else 'fk0'
        kGfn = 'fkG0_cyl' if cyl else 'fkG0'
        expected = [('%s.fk0edges' % lin_gen, {}), ('%s.%s' % (lin_own, k0fn), {})]
        if combined:
            expected += [('%s.%s' % (lin_gen, kGfn), dict(P=0, T=0)), ('%s.%s' % (lin_gen, kGfn), dict(Fc=0, T=0)), ('%s.%s' % (lin_gen, kGfn), dict(Fc=0, P=0))]
        else:
            expected += [('%s.%s' % (lin_gen, kGfn), {})]
        got_names = [c_[0] for c_ in pcalls]
        if got_names != [e[0] for e in expected]:
            probs.append('kernel calls %s instead of %s' % (got_names, [e[0] for e in expected]))
        else:
            for (nm, ca, ckw), (_, override) in zip(pcalls, expected):
                modn, fn = nm.split('.')
                sig = signature(modn, fn)
                if ckw:
                    probs.append('%s called with keywords' % nm)
                if len(ca) != len(sig):
                    probs.append('%s called with %d arguments, signature has %d (%s)' % (nm, len(ca), len(sig), sig))
                    continue
                for pos, (pname, g) in enumerate(zip(sig, ca)):
                    w = override.get(pname, Fexp if pname == 'F' else values.get(pname))
                    if pname == 'F' and Fexp is None:
                        continue
                    if w is None and pname not in override:
                        probs.append('%s: no expectation for parameter %s' % (nm, pname))
                        continue
                    if not same(g, w):
                        probs.append('%s: parameter %s (position %d) receives %s instead of %s' % (nm, pname, pos, str(g)[:80], str(w)[:80]))
            # composition
            mats = [Opaque('mat', name=nm, n=k + 1) for k, (nm, _, _) in enumerate(pcalls)]
            k0_exp = Opaque('sym', of=Opaque('sum', terms=[mats[1], mats[0]]))
            if not (isinstance(a.get('k0'), Opaque) and a['k0'].key() == k0_exp.key()):
                probs.append('k0 is %r instead of make_symmetric(k0 + k0edges)' % (a.get('k0'),))
            if combined:
                for attr, m_ in zip(('kG0_Fc', 'kG0_P', 'kG0_T'), mats[2:5]):
                    if not (isinstance(a.get(attr), Opaque) and a[attr].key() == Opaque('sym', of=m_).key()):
                        probs.append('%s is %r' % (attr, a.get(attr)))
            else:
                if not (isinstance(a.get('kG0'), Opaque) and a['kG0'].key() == Opaque('sym', of=mats[2]).key()):
                    probs.append('kG0 is %r' % (a.get('kG0'),))
            for attr, kind in (('k0uu', 'kuu'), ('k0uk', 'kuk')):
                v = a.get(attr)
                if not (isinstance(v, Opaque) and v.kind == kind and isinstance(v.f['of'], Opaque) and v.f['of'].key() == k0_exp.key()):
                    probs.append('%s is %r' % (attr, v))
        clause = 'kernels, arguments by parameter name, constitutive matrix, symmetrisation and partition'
        if probs:
            led.fail('%s/%s' % (name, clause), LM, {'differences': probs[:8]}, signature='linmat')
        else:
            led.ok('%s/%s' % (name, clause), LM)


def _job(led, j):
    check_one(led, *j)


def check(led):
    check_strain_dispatch(led)
    led.function(LM)
    led.function(GL)
    from .. import parallel
    jobs = []
    for model in MODELS:
        for cyl in (False, True):
            for combined in (None, 1):
                jobs.append((model, cyl, combined, False))
        if not model.startswith('iso_'):
            jobs.append((model, False, None, True))
            jobs.append((model, False, None, False, True))
            jobs.append((model, True, None, True, True))
    only = os.environ.get('C16_PY_MODELS')
    if only:
        jobs = [j for j in jobs if j[0] in only.split(',')]
    parallel.run(led, _job, jobs)
    fails = [f for f in getattr(led, 'failed', []) if f.get('replay') is None and 'conecyl.py' in f['function']]
    if fails:
        from .. import pyreplay, shell_oracle as O
        pay = dict(m1=2, m2=2, n2=2, r2=250., H=500., laminaprop=[123.55e3, 8.708e3, 0.319, 5.695e3, 5.695e3, 5.695e3], stack=[30, -30, 45], plyt=0.125,
                   models=['clpt_donnell_bc1', 'clpt_sanders_bc2', 'iso_clpt_donnell_bc3', 'fsdt_donnell_bc3'])
        try:
            r = pyreplay.run_real(O.LINMAT, pay, timeout=900)
            rep = {'reproduced': bool(r.get('n_mismatch')) or bool(r.get('raised')), 'input': pay, 'result': r,
                   'real_function': 'ConeCyl._calc_linear_matrices vs the kernels of modelDB called directly'}
        except Exception as e:
            rep = {'reproduced': False, 'replay_error': repr(e)}
        for f in fails:
            f['replay'] = rep


def check_strain_dispatch(led):
    """ConeCyl.strain: the strain field the energy identity of C16 is stated for.  It hands the full amplitude vector, the geometry and the
    kinematics selector to the fstrain wrapper of the model's commons module; the selector must be the one that the wrapper maps to the
    strain kernel of the MODEL'S theory (the mapping 0 -> cfstrain_donnell, 1 -> cfstrain_sanders is read from the wrapper source)."""
    import re
    from ..core import REPO
    func = PC.CC + 'strain'
    led.function(func)
    db = model_db()
    for model in ('clpt_donnell_bc1', 'clpt_sanders_bc1', 'clpt_donnell_bc3', 'clpt_sanders_bc4', 'fsdt_donnell_bc1', 'fsdt_sanders_bcn'):
        if model not in db:
            continue
        sub = model.split('_')[0]
        src = ''
        for fn_ in sorted(os.listdir(os.path.join(REPO, 'compmech/conecyl', sub))):
            if fn_.endswith('.pxi') or fn_ == '%s_commons_%s.pyx' % (sub, model.split('_')[-1]):
                src += open(os.path.join(REPO, 'compmech/conecyl', sub, fn_)).read()
        mapping = {int(k_): v_ for k_, v_ in re.findall(r'NL_kinematics\s*==\s*(\d)\s*:\s*\n\s*cfstrain\s*=\s*&?\s*(\w+)', src)}
        if not mapping:
            continue              # the fsdt wrappers select their kernel differently: not covered by this obligation
        theory = model.split('_')[1]
        want_flag = [k_ for k_, v_ in mapping.items() if theory in v_]
        it, calls, lam_calls = harness()
        seen = []
        commons = db[model]['commons']
        it.contracts['compmech.conecyl.%s.%s.fstrain' % (sub, commons)] = lambda itp, a, kw: (seen.append((list(a), dict(kw))), np.zeros((4, 6 if sub == 'clpt' else 8), dtype=object))[1]
        X = np.array([real('x0'), real('x1'), real('x2'), real('x3')], dtype=object)
        Tt = np.array([real('t0'), real('t1'), real('t2'), real('t3')], dtype=object)

        def run():
            del seen[:]
            cc = PC.new_cc(it, model=model, alphadeg=real('alphadeg'), r2=real('r2'), L=real('L'), m1=2, m2=1, n2=1, stack=[real('th0')], plyt=real('plyt'),
                           laminaprop=(real('E1'), real('E2')), pdC=False)
            it.call(it.getattr(cc, '_rebuild'), [], {})
            n_ = it.call(it.getattr(cc, 'get_size'), [], {})
            cu = np.array([real('c%d' % k_) for k_ in range(int(n_) - 2)], dtype=object)
            r_ = it.call(it.getattr(cc, 'strain'), [cu], dict(xs=X, ts=Tt))
            return cc, cu, r_
        it.facts += [to_z3(real('r2')) > 0, to_z3(real('L')) > 0, to_z3(real('alphadeg')) > 0, to_z3(real('alphadeg')) < 90, to_z3(shims.PI) > 3]
        for path, out in it.explore(run):
            name = '%s[%s]/kinematics-selector-of-the-model-theory' % (func, model)
            if out[0] != 'return':
                led.fail(name + '/no-exception', func, {'raises': out[1].tname, 'args': [str(x)[:100] for x in out[1].eargs]}, signature='raise:' + out[1].tname)
                continue
            probs = []
            if len(want_flag) != 1:
                probs.append('the wrapper source does not map one selector value to the %s strain kernel: %s' % (theory, mapping))
            if len(seen) != 1:
                probs.append('%d calls of the fstrain wrapper' % len(seen))
            else:
                a_, kw_ = seen[0]
                sig_ = ['c', 'sina', 'cosa', 'tLA', 'xs', 'ts', 'r2', 'L', 'm1', 'm2', 'n2', 'c0', 'm0', 'n0', 'funcnum', 'NL_kinematics', 'num_cores']
                vals_ = dict(zip(sig_, a_)); vals_.update(kw_)
                flag = pysym._unwrap0(vals_.get('NL_kinematics'))
                flag = int(flag.const_value()) if isinstance(flag, P) and flag.is_const() else flag
                if want_flag and flag != want_flag[0]:
                    probs.append('selector %r handed to the wrapper, which maps it to %s; the model %s needs %r (%s)' % (flag, mapping.get(flag), model, want_flag[0], mapping.get(want_flag[0])))
                cc, cu, r_ = out[1]
                cv = vals_.get('c')
                if not (isinstance(cv, np.ndarray) and cv.shape[0] == len(cu) + 2 and all(same(cv[k_ + 2] if k_ >= 1 else cv[0], cu[k_]) for k_ in range(0, 1))):
                    pass
                for nm_, w_ in (('r2', real('r2')), ('L', real('L'))):
                    if not same(vals_.get(nm_), w_):
                        probs.append('%s = %s' % (nm_, vals_.get(nm_)))
            if probs:
                led.fail(name, func, {'differences': probs}, signature='strain-dispatch')
            else:
                led.ok(name, func)
