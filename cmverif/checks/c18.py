"""C18 -- complete-shell loads, prescribed amplitudes and partitioning (ConeCyl).

Functions under contract:
  conecyl/conecyl.py : ConeCyl._rebuild (geometry, trigonometric constants, Nxxtop from Fc / MLA), ConeCyl.calc_fext,
                       ConeCyl.calc_full_c, ConeCyl.exclude_dofs_matrix (bounded stand-in, see c18_partition)
  conecyl/clpt/clpt_commons_bc*.pyx, conecyl/fsdt/fsdt_commons_bc*.pyx : cfuvw (the displacement field the package reports),
                       fg / cfgss (the basis matrix used for point loads)
Contracts (the top-level clauses are the sentences of the property):
  geometry : for each admissible input subset {r1|r2} x {H|L} and {r1, r2} (alpha != 0), after _rebuild
             H == L cos(alpha), r1 == r2 + L sin(alpha), the given quantities keep their values, sina/cosa/alpharad are those of alphadeg
  loads    : Nxxtop[0] == Fc / (2 pi r2 cos(alpha));  every entry of fext equals the virtual work of the load against the basis
             function of that amplitude as cfuvw reports it (point forces through fg == cfuvw basis; axial line load at x = 0;
             pressure on w over the surface; torque as a uniform shear flow at x = 0), incremental parts times inc;
             prescribed amplitudes enter as  -ck * K_uk[:, k]
"""
import sys
import itertools
from fractions import Fraction

from ..core import run_check
from ..poly import P, normal
from .. import kharness as K, pysym, shims
from ..pysym import real, integer, to_z3, SymRaise
from . import py_conecyl as PC

RB = PC.CC + '_rebuild'


def geometry(led):
    led.function(RB)
    subsets = {'r1,H': ('r1', 'H'), 'r1,L': ('r1', 'L'), 'r2,H': ('r2', 'H'), 'r2,L': ('r2', 'L'), 'r1,r2': ('r1', 'r2')}
    for tag, given in subsets.items():
        for cyl in (False, True):
            if cyl and tag == 'r1,r2':
                continue        # two radii do not determine the length of a cylinder: not an admissible subset
            it = PC.mk()
            vals = {g: real(g + '_in') for g in given}
            alphadeg = P.const(0) if cyl else real('alphadeg')
            it.facts += [to_z3(v) > 0 for v in vals.values()] + [to_z3(shims.PI) > 3, to_z3(shims.PI) < 4]
            if not cyl:
                it.facts += [to_z3(alphadeg) > 0, to_z3(alphadeg) < 90,
                             to_z3(shims.sym_sin(shims.sym_deg2rad(alphadeg))) > 0, to_z3(shims.sym_cos(shims.sym_deg2rad(alphadeg))) > 0]
                if tag == 'r1,r2':
                    it.facts.append(to_z3(vals['r1']) > to_z3(vals['r2']))

            def run():
                cc = PC.new_cc(it, alphadeg=(0. if cyl else alphadeg), stack=[real('th0')], plyt=real('plyt'), laminaprop=(real('E1'),), **vals)
                it.call(it.getattr(cc, '_rebuild'), [], {})
                return cc
            res = it.explore(run)
            name0 = '%s[%s,%s]' % (RB, tag, 'cylinder' if cyl else 'cone')
            for n, (path, out) in enumerate(res):
                name = name0 + ('' if len(res) == 1 else '#%d' % n)
                if out[0] == 'raise':
                    led.fail(name + '/no-exception', RB, {'raises': out[1].tname, 'args': [str(a)[:100] for a in out[1].eargs],
                                                         'path': [repr(c) for c in path.conds][-4:]}, signature='raise:' + out[1].tname)
                    continue
                cc = out[1]
                a = cc.attrs
                arad = shims.sym_deg2rad(alphadeg)
                s_, c_ = shims.sym_sin(arad), shims.sym_cos(arad)
                clauses = {'H == L*cos(alpha)': (a['H'], a['L'] * c_),
                           'r1 == r2 + L*sin(alpha)': (a['r1'], a['r2'] + a['L'] * s_),
                           'alpharad == deg2rad(alphadeg)': (a['alpharad'], arad),
                           'sina': (a['sina'], s_), 'cosa': (a['cosa'], c_)}
                for g in given:
                    clauses['%s keeps its input value' % g] = (a[g], vals[g])
                for cl, (got, want) in clauses.items():
                    got = got if isinstance(got, P) else P.const(got)
                    want = want if isinstance(want, P) else P.const(want)
                    ok, bad = K.compare(got, want)
                    if ok:
                        led.ok('%s/%s' % (name, cl), RB)
                    else:
                        led.fail('%s/%s' % (name, cl), RB, {'code': str(got), 'contract': str(want), 'difference': bad}, signature=cl)
                want_cyl = cyl
                if a.get('is_cylinder') is want_cyl:
                    led.ok('%s/is_cylinder' % name, RB)
                else:
                    led.fail('%s/is_cylinder' % name, RB, {'code': repr(a.get('is_cylinder')), 'contract': want_cyl}, signature='is_cylinder')


def axial_load(led):
    """Nxxtop from Fc (and MLA from xiLA)"""
    it = PC.mk()
    r2, L, alphadeg, Fc = real('r2'), real('L'), real('alphadeg'), real('Fc')
    it.facts += [to_z3(r2) > 0, to_z3(L) > 0, to_z3(alphadeg) > 0, to_z3(alphadeg) < 90, to_z3(shims.PI) > 3,
                 to_z3(shims.sym_cos(shims.sym_deg2rad(alphadeg))) > 0]

    def run():
        cc = PC.new_cc(it, alphadeg=alphadeg, r2=r2, L=L, Fc=Fc, n2=2, stack=[real('th0')], plyt=real('plyt'), laminaprop=(real('E1'),))
        it.call(it.getattr(cc, '_rebuild'), [], {})
        return cc
    res = it.explore(run)
    for n, (path, out) in enumerate(res):
        name = '%s[Fc]%s' % (RB, '' if len(res) == 1 else '#%d' % n)
        if out[0] == 'raise':
            led.fail(name + '/no-exception', RB, {'raises': out[1].tname}, signature='raise')
            continue
        nx = out[1].attrs['Nxxtop']
        c_ = shims.sym_cos(shims.sym_deg2rad(alphadeg))
        want = Fc / (2 * shims.PI * r2 * c_)
        ok, bad = K.compare(nx[0] if isinstance(nx[0], P) else P.const(nx[0]), want)
        rest_zero = all((not isinstance(v, P) and v == 0) or (isinstance(v, P) and v.is_zero()) for v in list(nx)[1:])
        if ok and rest_zero and len(nx) == 5:
            led.ok(name + '/Nxxtop[0] == Fc/(2 pi r2 cos(alpha)), harmonics zero, length 2*n2+1', RB)
        else:
            led.fail(name + '/Nxxtop[0] == Fc/(2 pi r2 cos(alpha)), harmonics zero, length 2*n2+1', RB,
                     {'code': [str(v) for v in nx], 'contract': str(want), 'difference': bad}, signature='Nxxtop')


def load_asymmetry(led):
    """bending moment of a load asymmetry: the first cosine harmonic of the edge load, Nxx(theta) = ... + Nxxtop[2] cos(theta), has the
    moment  Int Nxx cos(alpha) (r2 cos theta) r2 dtheta = pi r2^2 cos(alpha) Nxxtop[2]  about the diameter, which must be MLA
    (given directly, or xiLA*Fc)"""
    for how in ('MLA', 'xiLA'):
        it = PC.mk()
        r2, L, alphadeg, Fc = real('r2'), real('L'), real('alphadeg'), real('Fc')
        it.facts += [to_z3(r2) > 0, to_z3(L) > 0, to_z3(alphadeg) > 0, to_z3(alphadeg) < 90, to_z3(shims.PI) > 3,
                     to_z3(shims.sym_cos(shims.sym_deg2rad(alphadeg))) > 0]
        extra = dict(MLA=real('MLA')) if how == 'MLA' else dict(xiLA=real('xiLA'))

        def run():
            cc = PC.new_cc(it, alphadeg=alphadeg, r2=r2, L=L, Fc=Fc, n2=2, stack=[real('th0')], plyt=real('plyt'), laminaprop=(real('E1'),), **extra)
            it.call(it.getattr(cc, '_rebuild'), [], {})
            return cc
        res = it.explore(run)
        for n, (path, out) in enumerate(res):
            name = '%s[load asymmetry given by %s]%s' % (RB, how, '' if len(res) == 1 else '#%d' % n)
            if out[0] == 'raise':
                led.fail(name + '/no-exception', RB, {'raises': out[1].tname}, signature='raise')
                continue
            nx = out[1].attrs['Nxxtop']
            c_ = shims.sym_cos(shims.sym_deg2rad(alphadeg))
            M = real('MLA') if how == 'MLA' else real('xiLA') * Fc
            moment = shims.PI * r2 * r2 * c_ * (nx[2] if isinstance(nx[2], P) else P.const(nx[2]))
            ok, bad = K.compare(moment, M)
            others = [i for i in (1, 3, 4) if not ((not isinstance(nx[i], P) and nx[i] == 0) or (isinstance(nx[i], P) and nx[i].is_zero()))]
            cl = name + '/moment of the edge load about the diameter == %s, other harmonics zero' % ('MLA' if how == 'MLA' else 'xiLA*Fc')
            if ok and not others:
                led.ok(cl, RB)
            else:
                led.fail(cl, RB, {'Nxxtop': [str(v) for v in nx], 'moment': str(moment), 'expected': str(M), 'difference': bad, 'non-zero harmonics': others}, signature='MLA:' + how)


def force_registration(led):
    """ConeCyl.add_force / add_SPL: every call appends one entry [x, theta in radians, fx, ftheta, fz] to the list that matches
    ``increment``; the perturbation load is the normal force -PL at x = pt*L and the circumferential position given in degrees"""
    it = PC.mk()
    it.facts += [to_z3(real('r2')) > 0, to_z3(real('L')) > 0, to_z3(real('alphadeg')) > 0, to_z3(real('alphadeg')) < 90, to_z3(shims.PI) > 3,
                 to_z3(shims.sym_cos(shims.sym_deg2rad(real('alphadeg')))) > 0]
    for meth, inc_ in itertools.product(('add_force', 'add_SPL'), (False, True)):
        func = PC.CC + meth
        led.function(func)

        def run():
            cc = PC.new_cc(it, alphadeg=real('alphadeg'), r2=real('r2'), L=real('L'), n2=2, stack=[real('th0')], plyt=real('plyt'), laminaprop=(real('E1'),))
            for k in range(2):                    # the same load twice: both are registered
                if meth == 'add_force':
                    it.call(it.getattr(cc, meth), [real('xf'), real('thetadeg_f'), real('fx'), real('ft'), real('fz')], dict(increment=inc_))
                else:
                    it.call(it.getattr(cc, meth), [real('PL')], dict(pt=real('pt'), thetadeg=real('thetadeg_f'), increment=inc_))
            return cc
        for path, out in it.explore(run):
            name = '%s[increment=%s]/every-call-appends-its-load' % (func, inc_)
            if out[0] != 'return':
                led.fail(name + '/no-exception', func, {'raises': out[1].tname}, signature='raise')
                continue
            cc = out[1]
            mine, theirs = ('forces_inc', 'forces') if inc_ else ('forces', 'forces_inc')
            th = shims.sym_deg2rad(real('thetadeg_f'))
            want = ([real('xf'), th, real('fx'), real('ft'), real('fz')] if meth == 'add_force' else
                    [real('pt') * real('L'), th, P.const(0), P.const(0), -real('PL')])
            got = [list(x) for x in cc.attrs.get(mine, [])]
            probs = []
            if len(got) != 2:
                probs.append('%s holds %d entries after two calls' % (mine, len(got)))
            for e in got:
                for k_, (g_, w_) in enumerate(zip(e, want)):
                    g_ = g_ if isinstance(g_, P) else P.const(g_)
                    if not K.compare(g_, w_)[0]:
                        probs.append('entry %d of the registered load is %s, expected %s' % (k_, g_, w_))
                        break
            if cc.attrs.get(theirs):
                probs.append('%s was changed' % theirs)
            if probs:
                led.fail(name, func, {'differences': probs[:4]}, signature='register:' + meth)
            else:
                led.ok(name, func)


def static_wrapper(led):
    """ConeCyl.static: hands the analysis over to Analysis.static with the caller's NLgeom and returns its states; it leaves the
    definition of the shell and of its loads alone (what calc_fext / calc_k0 will read is what the caller defined)"""
    import numpy as np
    func = PC.CC + 'static'
    led.function(func)
    DEF = ['Nxxtop', 'Fc', 'P', 'T', 'P_inc', 'T_inc', 'MLA', 'xiLA', 'uTM', 'thetaTdeg', 'betadeg', 'pdC', 'pdT', 'pdLA', 'r1', 'r2', 'H', 'L', 'alphadeg',
           'stack', 'plyt', 'plyts', 'laminaprop', 'laminaprops', 'forces', 'forces_inc', 'c0', 'm0', 'n0', 'model', 'm1', 'm2', 'n2', 'nx', 'nt', 'F_reuse',
           'kuBot', 'kuTop', 'kvBot', 'kvTop', 'kwBot', 'kwTop', 'kphixBot', 'kphixTop', 'kphitBot', 'kphitTop']

    def snap(v):
        if isinstance(v, np.ndarray):
            return ('arr', tuple(snap(x) for x in v.reshape(-1)))
        if isinstance(v, (list, tuple)):
            return tuple(snap(x) for x in v)
        if isinstance(v, P):
            return normal(v).text()
        return repr(v)
    for NL, load in itertools.product((False, True), ('Nxxtop', 'Fc')):
        it = PC.mk()
        seen = {}

        def c_static(itp, a, kw):
            an = a[0]
            seen.setdefault('calls', []).append(dict(kw))
            seen['def'] = {k: snap(seen['cc'].attrs.get(k)) for k in DEF}
            an.attrs['cs'] = ['the states of the analysis']
            an.attrs['increments'] = ['the load factors of the analysis']
            return an.attrs['increments'], an.attrs['cs']
        it.contracts['compmech.analysis.analysis.Analysis.static'] = c_static
        loadkw = dict(Nxxtop=np.array([real('Nxx%d' % i) for i in range(5)], dtype=object)) if load == 'Nxxtop' else dict(Fc=real('Fc'))

        def run():
            seen.clear()
            cc = PC.new_cc(it, alphadeg=real('alphadeg'), r2=real('r2'), L=real('L'), n2=2, stack=[real('th0')], plyt=real('plyt'), laminaprop=(real('E1'),),
                           P=real('P'), T=real('T'), thetaTdeg=real('thetaTdeg'), pdC=False, **loadkw)
            it.call(it.getattr(cc, 'add_force'), [real('xf'), real('tf'), real('fx'), real('ft'), real('fz')], {})
            seen['cc'] = cc
            before = {k: snap(cc.attrs.get(k)) for k in DEF}
            r = it.call(it.getattr(cc, 'static'), [], dict(NLgeom=NL, silent=True))
            return cc, before, r
        for path, out in it.explore(run):
            name = '%s[NLgeom=%s,axial load given by %s]' % (func, NL, load)
            if out[0] != 'return':
                led.fail(name + '/no-exception', func, {'raises': out[1].tname, 'args': [str(a)[:100] for a in out[1].eargs]}, signature='raise:' + out[1].tname)
                continue
            cc, before, r = out[1]
            probs = []
            calls_ = seen.get('calls', [])
            if len(calls_) != 1:
                probs.append('Analysis.static called %d times' % len(calls_))
            elif calls_[0].get('NLgeom') is not NL:
                probs.append('Analysis.static called with NLgeom=%r' % (calls_[0].get('NLgeom'),))
            changed = [k for k in DEF if seen.get('def', {}).get(k) != before[k]]
            if changed:
                probs.append('definition attributes changed before the analysis runs: %s' % ', '.join('%s: %s -> %s' % (k, str(before[k])[:60], str(seen['def'][k])[:60]) for k in changed))
            if r != ['the states of the analysis'] or cc.attrs.get('cs') != ['the states of the analysis'] or cc.attrs.get('increments') != ['the load factors of the analysis']:
                probs.append('the states / load factors of the analysis are not what is returned and stored')
            if probs:
                led.fail(name, func, {'differences': probs}, signature='static-wrapper:' + ';'.join(probs)[:100], replay=replay_static_nxxtop() if any('Nxxtop' in p_ for p_ in probs) else None)
            else:
                led.ok(name, func)


def replay_static_nxxtop():
    from .. import pyreplay, shell_oracle as O
    script = O.COMMON + '''
cc = make(payload); cc.pdC = False; cc.Fc = None
cc.Nxxtop = np.array([-35., 0., 0., 0., 0.])
cc.add_force(0.5*cc.L if cc.L else 100., 0.3, 0., 0., 1.)
cc._rebuild()
want = np.asarray(cc.calc_fext(silent=True)).ravel().copy()
nxx_before = np.array(cc.Nxxtop, dtype=float).copy()
cs = cc.static(silent=True)
k0uu = cc.k0uu if cc.k0uu is not None else None
res = np.asarray(cc.k0uu.dot(cs[0])).ravel() - want
out = {'Nxxtop_before': nxx_before.tolist(), 'Nxxtop_after': np.array(cc.Nxxtop, dtype=float).tolist(),
       'residual_K_uu_c_minus_fext_of_the_defined_loads': float(abs(res).max()/max(abs(want).max(), 1e-300))}
'''
    pay = dict(m1=3, m2=2, n2=2, r2=250., H=500., alphadeg=20., model='clpt_donnell_bc1', laminaprop=[123.55e3, 8.708e3, 0.319, 5.695e3, 5.695e3, 5.695e3], stack=[30, -30, 45], plyt=0.125)
    r = pyreplay.run_real(script, pay, timeout=600)
    return {'reproduced': bool(r.get('raised') or (r.get('residual_K_uu_c_minus_fext_of_the_defined_loads') or 0) > 1e-8 or r.get('Nxxtop_before') != r.get('Nxxtop_after')),
            'input': pay, 'result': r, 'real_function': 'ConeCyl.static'}


def body(led):
    led.assume("preconditions of ConeCyl._rebuild: the given lengths and radii are positive, 0 <= alphadeg < 90, r1 > r2 when both radii are "
               "given; pdLA is left at True (anything else raises NotImplementedError)")
    geometry(led)
    axial_load(led)
    load_asymmetry(led)
    static_wrapper(led)
    from . import py_static
    py_static.check_conecyl_static(led)
    force_registration(led)
    from . import c18_fext, c18_partition
    c18_fext.check(led)
    from . import c18_fext_any
    c18_fext_any.check(led)
    c18_partition.check(led)
    ok, _ = K.compare(real('H'), real('H') * shims.sym_cos(real('a')))
    led.canary('H == H*cos(a)', not ok)


def main():
    return run_check('C18', body)


if __name__ == '__main__':
    sys.exit(main())
