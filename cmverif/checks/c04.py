"""C04 -- mass matrix == Hessian of the kinetic energy of a plate whose points move as (u - z w,x, v - z w,y, w),
z measured from a reference surface at distance d from the mid-plane (z in [d-h/2, d+h/2], the convention of the laminate).

Functions under contract:
  panel/models/{plate,plate_w,cpanel,kpanel}*.pyx : fkM, fkMy1y2
  panel/_panel.py : Panel.calc_kM (argument pass-through: offset, sub-interval, size)
  stiffener/models/bladestiff1d_clt_donnell_bardell.pyx : fkMf;  stiffener/bladestiff1d.py : BladeStiff1D.calc_kM
"""
import sys

from ..core import run_check
from ..poly import P
from .. import kharness as K, spec_panel as S, kernel
from ..pysym import real, integer
from ..induct import indexed_atom
from . import kern_common as KC, py_panel, replays

DOFS = {'plate': ('u', 'v', 'w'), 'plate_w': ('w',), 'cpanel': ('u', 'v', 'w'), 'kpanel': ('u', 'v', 'w')}
OFFSET_SIG = 'offset-sign: code is the kinetic-energy Hessian for a reference surface at -d (laminate convention: +d)'


def kinetic_form(model, dsign):
    def form(panel, scal, geo):
        ops = S.kinetic_operators(geo['a'], geo['b'])
        h = panel.attrs['plyts'].total()
        W = S.kinetic_weights(panel.attrs['mu'], h, scal['d'] * dsign)
        return ops, W, DOFS[model]
    return form


def body(led):
    led.assume('C04: table functions through their C10 contracts; m, n <= 30; coo duplicates are summed (A4)')
    led.assume('C04: the reference-surface convention is the one of Laminate.calc_constitutive_matrix (ply interfaces from -t/2 + offset), '
               'which is what the invariance clause of the statement requires')
    led.trust('cmverif pyx front end, symbolic executor, normaliser; z3')
    for model in ('plate', 'plate_w', 'cpanel', 'kpanel'):
        for fname, y in (('fkM', False), ('fkMy1y2', True)):
            run_mass(led, model, fname, y)
    py_panel.check_calc_kM(led, replay=replays.panel_matrix('kM', 'plate', False))
    # the flange of the 1-D blade stiffener (the fifth anchor): kernel fkMf against the kinetic energy of the flange strip, and what
    # BladeStiff1D.calc_kM passes to it (the skin thickness h is the mean of the two neighbouring skins)
    from . import c13_stiffk, py_stiffeners
    c13_stiffk.check_blade1d(led, only=('fkMf',))
    py_stiffeners.check_bladestiff1d(led, which=('kM',))
    # the mass contributions of the 2-D stiffeners: component panels with the stiffener's density, their own domain and (for a base that
    # rides on the skin amplitudes) the skin's edge flags
    py_stiffeners.check_bladestiff2d(led, only=('kM',))
    py_stiffeners.check_tstiff2d_kG0_kM(led, only=('kM',))
    # ... and the components are created with the definition the bay was given (density, laminates, geometry of the skin surface)
    from . import c13_bay
    c13_bay.check_constructors(led)
    # ... and the mass matrix follows the definition after a checkpoint of the panel (Panel.save resets the object's matrices)
    from . import c20, py_panel as _pp
    it20, _calls = _pp.mk()
    for geom in ('plate', 'cpanel'):
        c20.check_after_save(led, it20, geom, ops=('calc_kM',))
    ok, _ = K.compare(real('mu') * 2, real('mu'))
    led.canary('2*mu vs mu', not ok)


def run_mass(led, model, fname, y):
    from .. import kcheck
    # the alternative spec (d -> -d) identifies the known sign-convention finding precisely
    orig = KC.run

    def form_pair():
        return kinetic_form(model, +1), kinetic_form(model, -1)
    good, alt = form_pair()
    _run_with_alt(led, model, fname, y, good, alt)


def _run_with_alt(led, model, fname, y, good, alt):
    """KC.run with an extra alternative spec"""
    from .. import kcheck, shims, pysym
    from ..pysym import to_z3
    modname, num = KC.MODEL_FILES[model]
    label = 'compmech/panel/models/%s.pyx:%s' % (modname, fname)
    led.function(label)
    it = K.make_interp()
    if model == 'kpanel':
        it.generic_concrete.add('section')
        it.contracts['extern.sin'] = lambda itp, args, kw: shims.sym_sin(args[0])
        it.contracts['extern.cos'] = lambda itp, args, kw: shims.sym_cos(args[0])
        it.abstract_locals[(fname, 'r')] = 'r_sec'
        it.abstract_locals[(fname, 'b')] = 'b_sec'
        it.facts += [to_z3(P.atom('r_sec')) > 0, to_z3(P.atom('b_sec')) > 0]
    panel = K.sym_panel(it)
    it.facts.append(to_z3(panel.attrs['r']) > 0)
    f = K.kernel_func(it, KC.MODELS + modname, fname)
    size, row0 = integer('size'), integer('row0')
    m, n = panel.attrs['m'], panel.attrs['n']
    scal = {'d': real('d')}
    args = []
    y12 = None
    if y:
        y12 = (real('y1'), real('y2'))
        args += list(y12)
    args += [scal['d'], panel, size, row0, row0]
    res = it.explore(lambda: it.call(f, args, {}))
    if model == 'kpanel':
        KC.check_section_geometry(led, it, label, panel)
    fx = {d: S.flagset(d, 'x') for d in 'uvw'}
    fy = {d: S.flagset(d, 'y') for d in 'uvw'}

    def make_entry(form):
        geo = KC.geometry(model, panel, y12)
        ops, W, dofs = form(panel, scal, geo)

        def entry(p, q, I, J, Kk, L):
            dA, dB = dofs[p], dofs[q]
            return S.bilinear((dA, ops[dA]), (dB, ops[dB]), W, P.atom(I), P.atom(J), P.atom(Kk), P.atom(L), fx, fy,
                              geo['a'], geo['b'], geo['ylim'], geo['xlim'])
        return entry
    reads = set(K.FLAG_NAMES) | {'a', 'b', 'm', 'n', '__class__', 'mu', 'plyts'}
    if model == 'kpanel':
        reads |= {'r', 'alpharad'}
    kcheck.check_kernel(led, it, label, res, make_entry(good), num, row0, row0, m, n, expect_reads=reads,
                        capacity_factor=lambda cnt: P.const(cnt) * m * m * n * n, alt_specs={OFFSET_SIG: make_entry(alt)},
                        extra_index_atoms=('section',) if model == 'kpanel' else (),
                        replay=replays.mass_offset_invariance if model != 'plate_w' else replays.panel_matrix('kM', model, y))
    led.solver_time('z3-feasibility', it.solver_time)


def main():
    return run_check('C04', body)


if __name__ == '__main__':
    sys.exit(main())
