"""C11, wrapper level: fuvw / fstrain of clt_bardell_field.pyx and fuvw of clt_bardell_field_w.pyx (real .pyx text).

The wrappers pad the point list to a multiple of num_cores, reshape it to (num_cores, size_core), hand row pti to the point
kernels inside a prange, post-process and flatten.  Contract proved here, for EVERY number of points size >= 0 and every
num_cores >= 1 (size = q*num_cores + r, 0 <= r < num_cores, q and r symbolic):
    result_i has exactly `size` elements and  result_i[k] == sign_i * K_i(xs[k], ys[k])  for every 0 <= k < size,
with K_i the point function of the kernel that writes output i (cfuvw, cfwx, cfwy, cfstrain, cfw -- their own contracts
"out[j] = series at (xs[j], ys[j]) for j < size, nothing else written" are proved in c11_kernel), all other kernel arguments
being the panel's attributes.  The right-hand side mentions neither num_cores nor the position of the point in the list, hence
the results do not depend on the number of threads, of points, or on their order.  Each prange iteration writes only its own
row (row index == loop variable), so iterations are independent.
"""
import ast

from ..core import CheckerError
from ..poly import P, normal
from .. import kharness as K, kernel, pysym, idxarr
from ..pysym import real, integer, to_z3, Obj, SymRaise, Cond
from ..idxarr import IArr, Ctx

MODS = {'clt_bardell_field': ('fuvw', 'fstrain'), 'clt_bardell_field_w': ('fuvw',)}
PKG = 'compmech.panel.models.'
SIGN = {'phixs': -1, 'phiys': -1}


def written_params(fnode):
    """names of the pointer parameters the point kernel stores into (syntactic frame of the kernel)"""
    out = set()
    for n in ast.walk(fnode):
        if isinstance(n, (ast.Assign, ast.AugAssign)):
            for t in (n.targets if isinstance(n, ast.Assign) else [n.target]):
                if isinstance(t, ast.Subscript) and isinstance(t.value, ast.Name):
                    out.add(t.value.id)
    return out


def make(modname):
    it = K.make_interp(counters=())
    it.loop_modes[('*', '*')] = kernel.GenericLoop(counters=(), local=False)
    idxarr.install(it)
    # prange(n, ...) visits every 0 <= pti < n exactly once (in any order, on any thread): modelled as range(n); the frame of the
    # body (each iteration writes its own row only) is what makes the order irrelevant -- checked by the kernel-call contracts below
    it.contracts['cython.parallel.prange'] = lambda itp, a, kw: itp.call(itp.builtins['range'], [a[0]], {})
    mod = it.module(PKG + modname)
    q, r, nc = integer('q_chunks'), integer('r_rest'), integer('num_cores')
    size = q * nc + r
    it.facts += [to_z3(nc) >= 1, to_z3(q) >= 0, to_z3(r) >= 0, to_z3(r) < to_z3(nc)]

    def sym_mod(a, b, node):
        a, b = (x if isinstance(x, P) else P.const(x) for x in (a, b))
        if normal(a - size).is_zero() and normal(b - nc).is_zero():
            return r            # size = q*nc + r with 0 <= r < nc (facts)
        raise CheckerError('line %d: symbolic modulo %s %% %s' % (node.lineno, a, b))
    it.sym_mod = sym_mod
    calls = []
    # contracts of the point kernels, from their signatures
    for fn, f in list(mod.g.items()):
        if not isinstance(f, pysym.Func) or not fn.startswith('cf') or fn == 'cfg':
            continue
        sig = mod.pyx.sigs[fn]
        outs = written_params(f.node)

        def contract(itp, args, kw, fn=fn, sig=sig, outs=outs):
            if len(args) != len(sig) or kw:
                raise SymRaise('TypeError', ('%s called with %d arguments' % (fn, len(args)),))
            b = {nm: v for (t, nm), v in zip(sig, args)}
            ptrs = {nm: v for (t, nm), v in zip(sig, args) if t is not None and t.replace(' ', '').endswith('*')}
            n = b['size']
            n = n if isinstance(n, P) else P.const(n)
            rowvar = None
            rows = {}
            for nm, pt in ptrs.items():
                if not isinstance(pt, K.Ptr):
                    raise CheckerError('%s: %s is not an address' % (fn, nm))
                if nm == 'c':
                    if not (len(pt.idx) == 1 and normal(P.const(0) + pt.idx[0]).is_zero()):
                        raise SymRaise('BadPointer', ('%s: amplitude vector passed from offset %s' % (fn, pt.idx[0]),))
                    continue
                arr = pt.arr
                if not (isinstance(arr, IArr) and len(arr.shape) == 2 and len(pt.idx) == 2):
                    raise CheckerError('%s: %s is not the address of a row of a 2-d array' % (fn, nm))
                p_, j_ = (x if isinstance(x, P) else P.const(x) for x in pt.idx)
                # the range [ptr, ptr + size) must be exactly one row: column 0, size == row length
                if not normal(j_).is_zero() or not normal(n - arr.shape[1]).is_zero():
                    raise SymRaise('BadPointer', ('%s: %s covers columns [%s, %s + %s) of rows of length %s' % (fn, nm, j_, j_, n, arr.shape[1]),))
                ats = list(normal(p_).atoms())
                if len(ats) != 1 or not normal(p_ - P.atom(ats[0])).is_zero():
                    raise SymRaise('BadPointer', ('%s: row index %s of %s is not the loop variable' % (fn, p_, nm),))
                if rowvar is None:
                    rowvar = ats[0]
                elif rowvar != ats[0]:
                    raise SymRaise('BadPointer', ('%s: rows %s and %s in one call' % (fn, rowvar, ats[0]),))
                rows[nm] = arr
            scal = {nm: v for (t, nm), v in zip(sig, args) if nm not in ptrs and nm != 'size'}
            calls.append((fn, scal, ptrs['c'].arr if 'c' in ptrs else None))
            xs_, ys_ = rows['xs'], rows['ys']
            for nm in outs:
                if nm not in rows:
                    continue

                def fnrow(p, j, ctx, nm=nm):
                    x = normal(xs_.get((p, j), ctx))
                    y = normal(ys_.get((p, j), ctx))
                    return P.atom('%s.%s(%s;%s)' % (fn, nm, x.text(), y.text()))
                rows[nm].set_rows(itp, rowvar, fnrow)
            return None
        it.contracts[f.qualname] = contract
    return it, mod, (q, r, nc, size), calls


def run_wrapper(led, modname, fname):
    lab = 'compmech/panel/models/%s.pyx:%s' % (modname, fname)
    led.function(lab)
    it, mod, (q, r, nc, size), calls = make(modname)
    f = mod.g[fname]
    panel = K.sym_panel(it)
    panel.attrs['alpharad'] = P.const(0)      # fstrain: requires alpharad == 0 (raises NotImplementedError otherwise, by design)
    cvec = Obj(None)
    cvec.name = 'c'
    NL = integer('NLterms')

    class CVec(object):
        name = 'c'
    cobj = CVec()
    holder = {}

    def thunk():
        del calls[:]
        xs = idxarr.input_vector('xs', size, it)
        ys = idxarr.input_vector('ys', size, it)
        kw = dict(num_cores=nc)
        if fname == 'fstrain':
            kw['NLterms'] = NL
        res = it.call(f, [cobj, panel, xs, ys], kw)
        holder['calls'] = list(calls)
        return res
    results = it.explore(thunk)
    sig_outs = {'fuvw': ['us', 'vs', 'ws', 'phixs', 'phiys'], 'fstrain': ['exxs', 'eyys', 'gxys', 'kxxs', 'kyys', 'kxys']}[fname]
    nret = 0
    for path, out in results:
        tag = 'r==0' if any(isinstance(c, Cond) and c.kind == 'cmp' and c.a == '==' and 'r_rest' in repr(c) for c in path.conds) else 'r!=0'
        if any('alpharad' in repr(c) for c in path.conds):
            tag += ',alpharad'
        if out[0] != 'return':
            e = out[1]
            led.fail('%s[%s]/no-exception' % (lab, tag), lab, {'raises': e.tname, 'message': [str(a)[:200] for a in e.eargs]}, signature='raise:' + e.tname)
            continue
        nret += 1
        it.path = path
        try:
            res = out[1]
            if not (isinstance(res, tuple) and len(res) == len(sig_outs) and all(isinstance(x, IArr) for x in res)):
                led.fail('%s[%s]/returns-%d-arrays' % (lab, tag, len(sig_outs)), lab, {'returned': repr(res)[:200]}, signature='ret')
                continue
            # generic output position k = pq*size_core + jq
            size_core = None
            for x in res:
                pass
            pq, jq = integer('p_out'), integer('j_out')
            # the row length the wrapper chose on this path: q+1 (padded) or q
            for x, nm in zip(res, sig_outs):
                name = '%s[%s]/%s' % (lab, tag, nm)
                # every position k of the flattened (rows x sc) array is p*sc + j with 0 <= j < sc
                sc = getattr(x, 'rowlen', None)
                if sc is None:
                    led.fail(name + '/flattened-2d-result', lab, {'result': x.name}, signature='flat')
                    continue
                k = pq * sc + jq
                assume = [to_z3(pq) >= 0, to_z3(jq) >= 0, to_z3(jq) < to_z3(sc), to_z3(normal(k - idxarr.path_simplify(it, size))) < 0]
                ctx = Ctx(it, assume, [(normal(k), sc, pq, jq)])
                if not normal(idxarr.path_simplify(it, x.shape[0]) - idxarr.path_simplify(it, size)).is_zero() or len(x.shape) != 1:
                    led.fail(name + '/length', lab, {'shape': [str(s) for s in x.shape], 'expected': str(size)}, signature='length')
                    continue
                led.ok(name + '/length', lab)
                got = normal(x.get((normal(k),), ctx))
                # which kernel output is expected here
                want = expected(modname, fname, nm, normal(k))
                if normal(got - want).is_zero():
                    led.ok(name + '/value-at-every-point', lab)
                else:
                    led.fail(name + '/value-at-every-point', lab, {'got': got.text()[:300], 'expected': want.text()[:300]}, signature='value:' + nm)
            # arguments handed to the point kernels
            probs = []
            want_calls = {'clt_bardell_field': {'fuvw': ['cfuvw', 'cfwx', 'cfwy'], 'fstrain': ['cfstrain']}, 'clt_bardell_field_w': {'fuvw': ['cfw', 'cfwx', 'cfwy']}}[modname][fname]
            got_calls = [c[0] for c in holder['calls']]
            if sorted(got_calls) != sorted(want_calls):
                probs.append('kernels called: %s, expected %s' % (got_calls, want_calls))
            for fn, scal, carr in holder['calls']:
                if carr is not cobj:
                    probs.append('%s: amplitude vector is not the argument c' % fn)
                for nm, v in scal.items():
                    exp = NL if nm == 'NLterms' else panel.attrs.get(nm)
                    if exp is None:
                        probs.append('%s: unexpected scalar parameter %s' % (fn, nm))
                        continue
                    v = v if isinstance(v, P) else P.const(v)
                    exp = exp if isinstance(exp, P) else P.const(exp)
                    if not normal(v - exp).is_zero():
                        probs.append('%s: %s = %s, expected the panel attribute %s' % (fn, nm, v, exp))
            name = '%s[%s]/kernel-arguments' % (lab, tag)
            if probs:
                led.fail(name, lab, {'differences': probs}, signature=';'.join(probs)[:120])
            else:
                led.ok(name, lab)
        finally:
            it.path = None
    if nret < 2:
        led.fail('%s/both-padding-cases-reached' % lab, lab, {'returning paths': nret}, signature='paths')
    else:
        led.ok('%s/both-padding-cases-reached' % lab, lab)
    led.solver_time('z3-feasibility', it.solver_time)


def expected(modname, fname, out, k):
    xk, yk = 'xs[%s]' % k.text(), 'ys[%s]' % k.text()
    x = normal(P.atom(xk)).text()
    y = normal(P.atom(yk)).text()
    if fname == 'fstrain':
        return P.atom('cfstrain.%s(%s;%s)' % (out, x, y))
    if modname.endswith('_w'):
        table = {'us': None, 'vs': None, 'ws': ('cfw', 'ws'), 'phixs': ('cfwx', 'wxs'), 'phiys': ('cfwy', 'wys')}
    else:
        table = {'us': ('cfuvw', 'us'), 'vs': ('cfuvw', 'vs'), 'ws': ('cfuvw', 'ws'), 'phixs': ('cfwx', 'wxs'), 'phiys': ('cfwy', 'wys')}
    t = table[out]
    if t is None:
        return P.const(0)
    return P.atom('%s.%s(%s;%s)' % (t[0], t[1], x, y)) * SIGN.get(out, 1)


def body(led):
    led.assume('C11 wrappers: the point kernels through their contracts (c11_kernel: out[j] = series at (xs[j], ys[j]) for j < size, only the '
               'named outputs written); numpy hstack / zeros / reshape(rows, -1) / ravel / [:n] on C-contiguous arrays as index maps '
               '(row-major); a typed memoryview assignment keeps the array; prange(n) visits every 0 <= pti < n exactly once')
    for modname, fns in MODS.items():
        for fname in fns:
            run_wrapper(led, modname, fname)
