"""C09 -- Newton-Raphson driver: only equilibrated states are reported, in strictly increasing load order,
as snapshots; termination.

Functions under contract: analysis/newton_raphson.py:_solver_NR (three nested loops, inductive invariants),
analysis/analysis.py:Analysis.__init__, Analysis.static.
User callables are uninterpreted: FEXT(lambda), FINT(c, lambda), KT(c, lambda), K0; solve() returns an
arbitrary vector solve(K, b).
"""
import sys
from fractions import Fraction
import z3

from ..core import run_check, CheckerError
from ..poly import P, normal
from .. import pysym, shims, invloop, vc
from ..pysym import Interp, real, integer, Cond, to_z3, cond_z3, SymRaise
from ..invloop import Vec, GhostList, InvariantWhile, maxabs, scalar_atom

NRF = 'compmech/analysis/newton_raphson.py:_solver_NR'
LS_CHECKED = True
Q = 'compmech.analysis.newton_raphson._solver_NR'


def T(x):
    return normal(x).text() if isinstance(x, P) else str(x)


# ---- linear problem: f_int(c) = K c, tangent K, f_ext(t) = t F, exact solve.  Every state the driver can form is a multiple of
# u = K^-1 F and every force vector a multiple of F, so vectors are carried as their scalar coefficient (exact for any number of
# dofs); max|phi F| = |phi| Fm with Fm = max|F| > 0, u.F = uF > 0 (K positive definite).
FM, UF = real('Fm'), real('uF')


class KMat(Vec):
    def __init__(self):
        Vec.__init__(self, ('K',))

    def sym_havoc(self, name, tag):
        return KMat()           # sort invariant "is the stiffness matrix"; asserted at the back edges (linear: kT is K)


class _Lin(Vec):
    kind = None

    def __init__(self, coef):
        self.coef = normal(coef if isinstance(coef, P) else P.const(coef))
        Vec.__init__(self, (self.kind, self.coef.text()))

    def _coef(self, o):
        o = pysym._unwrap0(o)
        if isinstance(o, (int, float, Fraction)) and not isinstance(o, bool):
            return P.const(o)
        return o if isinstance(o, P) else None

    def __add__(self, o):
        if type(o) is type(self):
            return type(self)(self.coef + o.coef)
        raise CheckerError('linear scenario: %r + %r' % (self, o))

    __radd__ = __add__

    def __sub__(self, o):
        if type(o) is type(self):
            return type(self)(self.coef - o.coef)
        raise CheckerError('linear scenario: %r - %r' % (self, o))

    def __rsub__(self, o):
        if type(o) is type(self):
            return type(self)(o.coef - self.coef)
        raise CheckerError('linear scenario: %r - %r' % (o, self))

    def __mul__(self, o):
        k = self._coef(o)
        if k is None:
            raise CheckerError('linear scenario: %r * %r' % (self, o))
        return type(self)(self.coef * k)

    __rmul__ = __mul__

    def __neg__(self):
        return type(self)(-self.coef)

    def sym_havoc(self, name, tag):
        v = type(self)(real('%s%s' % (name, tag)))
        v.maybe_held = True
        return v

    def sym_maxabs(self, interp):
        return interp.builtins['abs'](self.coef) * FM

    def sym_getattr(self, interp, name):
        if name == 'copy':
            def cp():
                v = type(self)(self.coef)
                v.fresh_copy = True
                return v
            return cp
        if name == 'dot':
            def dot(o):
                if isinstance(o, _Lin) and o.kind != self.kind:
                    return self.coef * o.coef * UF
                raise CheckerError('linear scenario: dot of %r and %r' % (self, o))
            return dot
        return Vec.sym_getattr(self, interp, name)


class LinU(_Lin):
    kind = 'lin-u'


class LinF(_Lin):
    kind = 'lin-F'


def make_run(it, settings, linear=False):
    """an Analysis object built by the real constructor, with symbolic settings and uninterpreted callables"""
    amod = it.module('compmech.analysis.analysis')
    log = []

    def calc_fext(inc=None, silent=False, **kw):
        log.append(('fext', inc))
        return Vec(('FEXT', T(inc)))

    def calc_k0(silent=False, **kw):
        return Vec(('K0',))

    def calc_fint(c=None, inc=None, silent=False, **kw):
        return Vec(('FINT', c.term, T(inc)))

    def calc_kT(c=None, inc=None, silent=False, **kw):
        return Vec(('KT', c.term, T(inc)))
    if linear:
        def need_u(c):
            if not isinstance(c, LinU):
                raise CheckerError('linear scenario: state %r is not a multiple of K^-1 F' % (c,))
            return c
        calc_fext = lambda inc=None, silent=False, **kw: LinF(inc)
        calc_k0 = lambda silent=False, **kw: KMat()
        calc_fint = lambda c=None, inc=None, silent=False, **kw: LinF(need_u(c).coef)
        calc_kT = lambda c=None, inc=None, silent=False, **kw: (need_u(c), KMat())[1]
    run = it.call(amod.g['Analysis'], [calc_fext, calc_k0, calc_fint, calc_kT], {})
    run.name = 'run'
    for k, v in settings.items():
        run.attrs[k] = v
    return run


def settings_symbolic(it):
    s = dict(initialInc=real('initialInc'), minInc=real('minInc'), maxInc=real('maxInc'), absTOL=real('absTOL'),
             maxNumIter=integer('maxNumIter'), too_slow_TOL=real('too_slow_TOL'), compute_every_n=integer('compute_every_n'),
             max_iter_line_search=integer('max_iter_line_search'))
    it.facts += [to_z3(s['initialInc']) > 0, to_z3(s['initialInc']) <= 1, to_z3(s['minInc']) > 0,
                 to_z3(s['maxInc']) >= to_z3(s['initialInc']), to_z3(s['absTOL']) > 0, to_z3(s['maxNumIter']) >= 2,
                 to_z3(s['max_iter_line_search']) >= 1, to_z3(s['compute_every_n']) >= 1, to_z3(s['too_slow_TOL']) > 0]
    # ghost constant of the termination argument: a positive lower bound of every increment the load-step loop can start with
    # (witness: min(initialInc, minInc, maxInc, 5e-4); its existence under the preconditions is a separate obligation)
    s['mu_lb'] = real('mu_lb')
    it.facts += mu_facts(s, to_z3(s['mu_lb']))
    return s


def mu_facts(s, mu):
    return [mu > 0, mu <= to_z3(s['initialInc']), mu <= to_z3(s['minInc']), mu <= to_z3(s['maxInc']), mu <= z3.RealVal('1/2000')]


def check_mu_exists(led, it, s):
    """the ghost lower bound is not vacuous: for all settings that meet the preconditions the witness satisfies its defining facts"""
    import time
    a, b, c = to_z3(s['initialInc']), to_z3(s['minInc']), to_z3(s['maxInc'])
    m1 = z3.If(a < b, a, b)
    m2 = z3.If(m1 < c, m1, c)
    w = z3.If(m2 < z3.RealVal('1/2000'), m2, z3.RealVal('1/2000'))
    sv = z3.Solver()
    sv.set('timeout', 20000)
    sv.add(a > 0, a <= 1, b > 0, c >= a)
    sv.add(z3.Not(z3.And(*mu_facts(s, w))))
    t0 = time.time()
    r = sv.check()
    led.solver_time('z3', time.time() - t0)
    name = NRF + '/termination/positive-lower-bound-of-the-increment-exists'
    if r == z3.unsat:
        led.ok(name, NRF, backend='z3')
    elif r == z3.sat:
        led.fail(name, NRF, {'model': str(sv.model())}, backend='z3', signature='mu-witness')
    else:
        led.undecide(name, NRF, 'z3 unknown')


def install_contracts(it, linear=False):
    def lin_solve(itp, a, kw):
        if not isinstance(a[0], KMat) or not isinstance(a[1], LinF):
            raise CheckerError('linear scenario: solve(%r, %r)' % (a[0], a[1]))
        return LinU(a[1].coef)
    it.contracts['compmech.sparse.solve'] = lin_solve if linear else (lambda itp, a, kw: Vec(('solve', a[0].term, a[1].term)))
    it.contracts['compmech.logger.msg'] = lambda itp, a, kw: None
    it.contracts['compmech.logger.warn'] = lambda itp, a, kw: None


def explore_solver(led, modified, line_search, kT_initial, kappa=Fraction(2), linear=False):
    it = Interp()
    shims.install(it)
    install_contracts(it, linear)
    if linear:
        it.facts += [to_z3(FM) > 0, to_z3(UF) > 0]
    it.algebraic_minmax = True
    it.feas_timeout = 1000
    s = settings_symbolic(it)
    s.update(modified_NR=modified, line_search=line_search, kT_initial_state=kT_initial)
    def on_inc(itp, gl, v):
        if gl.sym:
            ne = cond_z3(gl.nonempty) if isinstance(gl.nonempty, Cond) else z3.BoolVal(bool(gl.nonempty))
            last = to_z3(gl.last)
        else:
            ne = z3.BoolVal(bool(gl.appended))
            last = to_z3(gl.last) if gl.appended else z3.RealVal(0)
        vz = to_z3(v)
        itp.path.obligations.append(('assert', 'report/load-factor-strictly-increasing', z3.Implies(ne, vz > last), list(itp.path.conds)))
        itp.path.obligations.append(('assert', 'report/load-factor-in-(0,1]', z3.And(vz > 0, vz <= 1), list(itp.path.conds)))

    def on_c(itp, gl, v):
        t = incs.last
        itp.path.obligations.append(('syntactic', 'report/state-is-a-fresh-copy', bool(getattr(v, 'fresh_copy', False)), []))
        if not isinstance(v, Vec) or t is None:
            itp.path.obligations.append(('syntactic', 'report/equilibrated', False, []))
            return
        if linear:
            if not isinstance(v, LinU):
                raise CheckerError('linear scenario: reported state %r' % (v,))
            goal = pysym.compare('<', (LinF(t) - LinF(v.coef)).sym_maxabs(itp), s['absTOL'])
            itp.path.obligations.append(('assert', 'report/linear-problem: the reported state is the linear solution t*K^-1*F', pysym.compare('==', v.coef, t), list(itp.path.conds)))
        else:
            resid = Vec(('-', ('FEXT', T(t)), ('FINT', v.term, T(t))))
            goal = pysym.compare('<', maxabs(resid), s['absTOL'])
        itp.path.obligations.append(('assert', 'report/equilibrated: max|fext(t)-fint(c,t)| < absTOL', goal, list(itp.path.conds)))
    incs = GhostList('increments', 'real', on_inc)
    cs = GhostList('cs', 'vec', on_c)
    if linear:
        cs.proto = LinU(0)
    tag = '%smodified=%s,line_search=%s,kT_initial=%s' % ('linear-problem,' if linear else '', modified, line_search, kT_initial)

    def outer_inv(itp, fr):
        inc, total = to_z3(fr.l['inc']), to_z3(fr.l['total'])
        mt = to_z3(fr.l['max_total'])
        if incs.sym:
            ne = cond_z3(incs.nonempty) if isinstance(incs.nonempty, Cond) else z3.BoolVal(bool(incs.nonempty))
            last = to_z3(incs.last)
            cne = cond_z3(cs.nonempty) if isinstance(cs.nonempty, Cond) else z3.BoolVal(bool(cs.nonempty))
        else:
            ne = z3.BoolVal(bool(incs.appended))
            last = to_z3(incs.last) if incs.appended else z3.RealVal(0)
            cne = z3.BoolVal(bool(cs.appended))
        L = z3.If(ne, last, z3.RealVal(0))
        return [('inc>0', inc > 0),
                ('inc>=positive-lower-bound', inc >= to_z3(s['mu_lb'])),
                ('total-inc==last-reported', total - inc == L),
                ('total<=1', total <= 1),
                ('last-reported-in-[0,1)', z3.And(L >= 0, z3.Implies(ne, z3.And(last > 0, last <= 1)))),
                ('cs-and-increments-in-step', ne == cne),
                ('max_total>=0', mt >= 0)]

    # ---- ranking functions (termination).  Load steps: V = (1 - total) + kappa inc, kappa = 2 for the code as it is: a failed
    # step gives total' = total - 0.7 inc, inc' = 0.3 inc, so V' = V - 0.7 inc; an accepted step gives inc' <= min(1.1 inc, 1 - total),
    # total' = total + inc', so V' = V - 2 inc + inc' <= V - 0.9 inc.  inc >= mu at every loop head, V >= 0.  (Other growth /
    # reduction factors need another weight kappa; body() tries the alternatives before it reports the clause as failed.)
    def outer_var(itp, fr):
        e = P.const(1) - fr.l['total'] + fr.l['inc'] * kappa
        if '__V0' not in fr.l:
            fr.l['__V0'] = e           # ghost local: value of the ranking function at the head of the load-step loop
            fr.l['__kappa'] = kappa
        return (e, s['mu_lb'] * Fraction(1, 20), P.const(0))

    def inner_var(itp, fr):
        return (s['maxNumIter'] + 1 - fr.l['iteration'], P.const(1), P.const(0))

    def bis_var(itp, fr):
        # the bisection loop repeats only while the reduced increment is still >= minInc: inc' = 0.3 inc <= inc - 0.7 minInc
        return (fr.l['inc'], s['minInc'] * Fraction(6, 10), P.const(0))

    def ls_inv(itp, fr):
        k = to_z3(fr.l['iter_line_search'])
        return [('0<=iter_line_search<max_iter_line_search', z3.And(k >= 0, k < to_z3(s['max_iter_line_search'])))]

    def ls_var(itp, fr):
        return (s['max_iter_line_search'] - fr.l['iter_line_search'], P.const(1), P.const(0))

    def inner_inv(itp, fr):
        conv = fr.l['converged']
        it_ = to_z3(fr.l['iteration'])
        c = conv.neg() if isinstance(conv, Cond) else Cond('const', not conv)
        out = [('not-converged-at-loop-head', cond_z3(c)), ('iteration>=0', it_ >= 0)]
        if linear:
            cv = fr.l['c']
            out += [('linear-problem: at most one iteration done', it_ <= 1),
                    ('linear-problem: after one iteration the state is total*K^-1*F',
                     z3.Implies(it_ >= 1, to_z3(cv.coef) == to_z3(fr.l['total'])) if isinstance(cv, LinU) else z3.BoolVal(False)),
                    ('linear-problem: the tangent in use is K', z3.BoolVal(isinstance(fr.l['kT'], KMat)))]
        return out

    m = it.module('compmech.analysis.newton_raphson')
    f = m.g['_solver_NR']
    whiles = [n for n in __import__('ast').walk(f.node) if n.__class__.__name__ == 'While']
    whiles.sort(key=lambda n: n.lineno)
    if len(whiles) != 4:
        raise CheckerError('_solver_NR: expected 4 while loops (load steps, iterations, line search, bisection), found %d' % len(whiles))
    outer, inner, ls, bis = whiles
    it.loop_modes[(Q, outer.lineno)] = InvariantWhile('load-step-loop', outer_inv, variant=outer_var, ghosts=(incs, cs), owned=('c',),
                                                      sorts=({'c': LinU(0), 'kT': KMat(), 'kT_last': KMat(), 'fext': LinF(0)} if linear else
                                                             {'c': Vec(('c',)), 'kT': Vec(('kT',)), 'kT_last': Vec(('kT',)), 'fext': Vec(('f',))}))
    it.loop_modes[(Q, inner.lineno)] = InvariantWhile('iteration-loop', inner_inv, variant=inner_var, sorts=({'c': LinU(0), 'kT': KMat()} if linear else {'c': Vec(('c',)), 'kT': Vec(('kT',))}))
    it.loop_modes[(Q, ls.lineno)] = InvariantWhile('line-search-loop', ls_inv, variant=ls_var) if LS_CHECKED else invloop.HavocLoop('line-search-loop', sorts={'c1': Vec(('c',)), 'c2': Vec(('c',)), 'fint1': Vec(('f',)), 'fint2': Vec(('f',)), 'R1': Vec(('f',)), 'R2': Vec(('f',)), 's1': real('s'), 's2': real('s'), 'eta_new': real('e')})
    it.loop_modes[(Q, bis.lineno)] = InvariantWhile('bisection-loop', lambda itp, fr: outer_bis_inv(itp, fr, incs), variant=bis_var)
    holder = {}

    def at_return(itp, fr, rv):
        # post-condition of the statement: the analysis ends with the last load factor equal to 1, or after the
        # increment fell below the configured minimum
        inc = fr.l.get('inc')
        if incs.sym:
            ne = cond_z3(incs.nonempty) if isinstance(incs.nonempty, Cond) else z3.BoolVal(bool(incs.nonempty))
            last = to_z3(incs.last)
        else:
            ne = z3.BoolVal(bool(incs.appended))
            last = to_z3(incs.last) if incs.appended else z3.RealVal(0)
        if linear:
            # the linear problem is never abandoned: a state was reported and the last one lies in the driver's window |t - 1| < 1e-3
            # (that the window is not exactly t == 1 is the known finding of the general run)
            w = z3.RealVal(str(Fraction(1e-3)))          # the driver's constant 1e-3 as the double it is
            goal = z3.And(ne, last - 1 < w, 1 - last < w)
            itp.path.obligations.append(('assert', 'exit/linear-problem: solved up to the full load (|last load factor - 1| < 1e-3)', goal, list(itp.path.conds)))
        else:
            goal = z3.Or(to_z3(inc) < to_z3(s['minInc']), z3.And(ne, last == 1))
            itp.path.obligations.append(('assert', 'exit/last-load-factor==1-or-increment-below-minimum', goal, list(itp.path.conds)))
        # reported states are never altered afterwards (no in-place update of an object held by run.cs)
        held = set()
        bad = []
        for ev in itp.path.log:
            if ev[0] == 'append' and ev[1] == 'cs':
                held.add(ev[2])
            elif ev[0] == 'mutate' and (ev[1] in held or ev[3]):
                bad.append(ev[2])
        itp.path.obligations.append(('syntactic', 'report/states-not-altered-later', not bad, []))
    it.return_hooks[Q] = at_return

    def run_it():
        del incs.appended[:]
        del cs.appended[:]
        incs.sym = cs.sym = False
        incs.last = cs.last = None
        run = make_run(it, s, linear)
        run.attrs['increments'] = incs
        run.attrs['cs'] = cs
        holder['run'] = run
        it.call(f, [run], {'silent': True})
        return 'returned'
    it.max_paths = 4000
    res = it.explore(run_it)
    return it, res, incs, cs, tag, s


def outer_bis_inv(itp, fr, incs):
    # inside the failure branch: total was the attempted factor; the relation is re-established by the bisection body
    inc, total = to_z3(fr.l['inc']), to_z3(fr.l['total'])
    if incs.sym:
        ne = cond_z3(incs.nonempty) if isinstance(incs.nonempty, Cond) else z3.BoolVal(bool(incs.nonempty))
        last = to_z3(incs.last)
    else:
        ne = z3.BoolVal(bool(incs.appended))
        last = to_z3(incs.last) if incs.appended else z3.RealVal(0)
    L = z3.If(ne, last, z3.RealVal(0))
    out = [('inc>0', inc > 0), ('total-inc==last-reported', total - inc == L), ('total<=1', total <= 1),
           ('last-reported-in-[0,1)', z3.And(L >= 0, z3.Implies(ne, z3.And(last > 0, last <= 1))))]
    if '__V0' in fr.l:
        # the ranking function of the enclosing load-step loop has not grown since that loop's head
        out.append(('load-step-ranking-not-above-its-value-at-the-loop-head', 1 - total + to_z3(P.const(fr.l['__kappa'])) * inc <= to_z3(fr.l['__V0'])))
    return out


_RP = {}


def replay_last_factor():
    """real driver on a linear one-dof problem with initialInc = 0.9995"""
    if 'lf' in _RP:
        return _RP['lf']
    from ..pyreplay import run_real
    script = '''
import numpy as np
from scipy.sparse import csr_matrix
from compmech.analysis import Analysis
K = csr_matrix(np.array([[2.]])); f = np.array([1.])
an = Analysis(calc_fext=lambda inc=1., silent=True: inc*f, calc_k0=lambda silent=True: K,
              calc_fint=lambda c, inc=1., silent=True: K.dot(c), calc_kT=lambda c, inc=1., silent=True: K)
an.initialInc = payload["initialInc"]
incs, cs = an.static(NLgeom=True, silent=True)
out = {"increments": [float(x) for x in incs], "minInc": an.minInc}
'''
    r = run_real(script, {'initialInc': 0.9995})
    incs = r.get('increments') or []
    r['reproduced'] = bool(incs and incs[-1] != 1.0)
    r['input'] = 'linear 1-dof problem K=[[2]], f=[1], initialInc=0.9995 (all other settings default)'
    _RP['lf'] = r
    return r


DYN = r'''
import itertools, numpy as np
from scipy.sparse import csr_matrix
from compmech.analysis import Analysis
viol = []
runs = 0
def scenario(k, alpha, ktscale, f, settings):
    K = csr_matrix(np.array([[k, 0.], [0., 2*k]]))
    fv = np.array([f, 0.5*f])
    seen_c = []
    def fint(c, inc=1., silent=True):
        return K.dot(c) + alpha*c**3
    def kT(c, inc=1., silent=True):
        return csr_matrix(np.diag(ktscale*(np.array([k, 2*k]) + 3*alpha*c**2)))
    an = Analysis(calc_fext=lambda inc=1., silent=True: inc*fv, calc_k0=lambda silent=True: K, calc_fint=fint, calc_kT=kT)
    for a, v in settings.items():
        setattr(an, a, v)
    incs, cs = an.static(NLgeom=True, silent=True)
    snap = [c.copy() for c in cs]
    prob = []
    for t, c in zip(incs, cs):
        if not np.abs(t*fv - fint(c)).max() < an.absTOL:
            prob.append("not equilibrated at %r" % t)
    if any(b <= a for a, b in zip(incs, incs[1:])) or any(not (0 < t <= 1) for t in incs):
        prob.append("load factors not strictly increasing in (0,1]: %r" % (list(map(float, incs)),))
    if len(set(id(c) for c in cs)) != len(cs):
        prob.append("reported states share an object")
    if alpha == 0. and ktscale == 1. and incs and abs(incs[-1] - 1) < 1e-3:
        lin = np.array([incs[-1]*fv[0]/k, incs[-1]*fv[1]/(2*k)])
        if np.abs(cs[-1] - lin).max() > 1e-6*np.abs(lin).max():
            prob.append("linear problem: last state is not the linear solution")
    if alpha == 0. and ktscale == 1. and not (incs and abs(incs[-1] - 1) < 1e-3):
        prob.append("linear problem not solved to full load: %r" % (list(map(float, incs)),))
    return prob, [float(t) for t in incs]
for k, alpha, ktscale, f in itertools.product([1., 50.], [0., 5., -0.02, 400.], [1., 0.3, 3.], [1., 4.]):
    for settings in [dict(), dict(initialInc=1.), dict(initialInc=0.05, maxNumIter=4), dict(modified_NR=False), dict(line_search=False),
                     dict(absTOL=1e-9, maxNumIter=6), dict(modified_NR=False, line_search=False, initialInc=0.6, compute_every_n=2)]:
        runs += 1
        try:
            prob, incs = scenario(k, alpha, ktscale, f, settings)
        except Exception as e:
            prob, incs = ["raised %s: %s" % (type(e).__name__, e)], []
        if prob:
            viol.append({"k": k, "alpha": alpha, "kT_scale": ktscale, "f": f, "settings": settings, "problems": prob, "increments": incs})
out = {"runs": runs, "violations": viol[:5], "n_violations": len(viol)}
'''


def dynamic_grid():
    """bounded run-time stand-in / replay: the real driver on a grid of 2-dof cubic problems with exact, too soft and too
    stiff tangents (convergence, divergence, slow convergence, iteration-limit histories), contracts evaluated at run time"""
    if 'dyn' in _RP:
        return _RP['dyn']
    from ..pyreplay import run_real
    r = run_real(DYN, {})
    r['reproduced'] = bool(r.get('n_violations', 0) > 0 or r.get('raised'))
    r['input'] = 'grid: k in {1,50}, cubic alpha in {0,5,-0.02,400}, tangent scale in {1,.3,3}, f in {1,4}, 7 settings'
    _RP['dyn'] = r
    return r


def is_termination(name):
    return 'variant' in name or 'ranking' in name


def evaluate(led, it, res, tag, only=None):
    seen = {}
    for path, out in res:
        if out[0] == 'raise':
            e = out[1]
            seen['%s[%s]/no-exception/%s' % (NRF, tag, e.tname)] = (3, 'raise', {'raises': e.tname, 'args': [str(a)[:100] for a in e.eargs],
                                                                            'line': getattr(e.node, 'lineno', None)}, [])
            continue
        for ob in path.obligations:
            if ob[0] == 'nonzero-denominator':
                continue          # numpy float64 division: inf/nan, no exception (assumption recorded)
            kind, label, goal, conds = ob
            name = '%s[%s]/%s' % (NRF, tag, label)
            if only is not None and not only(name):
                continue
            if kind == 'syntactic':
                st = 'valid' if goal else 'invalid'
                mdl, dt = None, 0.0
            else:
                st, mdl, dt = vc.prove(it, goal if isinstance(goal, Cond) else invloop._Z3Cond(goal), conds)
                led.solver_time('z3', dt)
            prev = seen.get(name)
            rank = {'valid': 0, 'unknown': 1, 'invalid': 2}[st]
            if prev is None or rank > prev[0]:
                seen[name] = (rank, st, mdl, [repr(c)[:100] for c in conds][-8:])
    return seen


def discharge(led, seen):
    for name, (rank, st, mdl, conds) in sorted(seen.items()):
        if st == 'raise':
            led.fail(name, NRF, mdl, signature='raise:' + mdl['raises'])
        elif st == 'valid':
            led.ok(name, NRF, backend='z3')
        elif st == 'invalid':
            rp = replay_last_factor() if 'last-load-factor' in name else (replay_termination() if is_termination(name) else dynamic_grid())
            led.fail(name, NRF, {'z3_model': mdl, 'path_tail': conds}, backend='z3', signature=name.split('/', 1)[-1], replay=rp)
        else:
            led.undecide(name, NRF, str(mdl))
    return seen


TERM = r"""
import numpy as np, signal
from scipy.sparse import csr_matrix
from compmech.analysis import Analysis
class Budget(Exception):
    pass
def on_alarm(*a):
    raise Budget()
signal.signal(signal.SIGALRM, on_alarm)
K = csr_matrix(np.array([[1.]]))
results = []
for sched in payload["schedules"]:
    state = {"step_calls": 0, "k": 0, "last_total": None, "steps": 0}
    def fint(c, inc=1., silent=True, state=state, sched=sched):
        # residual scripted per load step: outcome 'C' -> residual 0 (accepted at iteration 2), 'F' -> growing residual (diverges)
        if state["last_total"] != inc:
            state["last_total"] = inc; state["steps"] += 1; state["k"] = 0
        state["k"] += 1
        o = sched[(state["steps"] - 1) % len(sched)]
        r = 0. if o == "C" else 10.**state["k"]
        return inc*np.array([1.]) - r
    an = Analysis(calc_fext=lambda inc=1., silent=True: inc*np.array([1.]), calc_k0=lambda silent=True: K, calc_fint=fint,
                  calc_kT=lambda c, inc=1., silent=True: K)
    an.line_search = False
    for a, v in payload["settings"].items():
        setattr(an, a, v)
    signal.alarm(payload["seconds"])
    try:
        incs, cs = an.static(NLgeom=True, silent=True)
        signal.alarm(0)
        results.append({"schedule": sched, "terminated": True, "load_steps": state["steps"], "last": float(incs[-1]) if incs else None})
    except Budget:
        results.append({"schedule": sched, "terminated": False, "load_steps": state["steps"]})
    finally:
        signal.alarm(0)
out = {"results": results, "not_terminated": [r["schedule"] for r in results if not r["terminated"]]}
"""


def replay_termination():
    """real driver with scripted outcomes per load step (accepted / diverged) under a wall-clock budget per schedule"""
    if 'term' in _RP:
        return _RP['term']
    from ..pyreplay import run_real
    r = run_real(TERM, {'schedules': ['F', 'C', 'CF', 'CCF', 'CCCCCCCCCCCCF', 'FC', 'FFC'], 'settings': {}, 'seconds': 8})
    r['reproduced'] = bool(r.get('not_terminated'))
    r['input'] = ('1-dof problem, callables that script the outcome of every load step (C accepted, F diverged) periodically; schedules that did not '
                  'finish within 8 s: %s' % (r.get('not_terminated'),))
    _RP['term'] = r
    return r


def body(led):
    led.assume('C09: numpy float64 scalars: division by zero yields inf/nan, not an exception (change_rate_Rmax, eta_new)')
    led.assume('C09: user callables are pure functions of their arguments; solve() returns some vector')
    led.function(NRF)
    led.function('compmech/analysis/analysis.py:Analysis.__init__')
    total_paths = 0
    first = True
    for modified in (True, False):
        for ls in (True, False):
            it, res, incs, cs, tag, s = explore_solver(led, modified, ls, True)
            total_paths += len(res)
            seen = evaluate(led, it, res, tag)
            led.solver_time('z3-feasibility', it.solver_time)
            bad_term = [n for n, (rk, st, m_, c_) in seen.items() if is_termination(n) and st != 'valid']
            if bad_term and all('load-step' in n for n in bad_term):
                # the weight of the increment in the ranking function depends on the growth / reduction factors of the code: try the others
                for kappa in (Fraction(5, 4), Fraction(4), Fraction(8)):
                    it2, res2, _i, _c, _t, _s = explore_solver(led, modified, ls, True, kappa=kappa)
                    seen2 = evaluate(led, it2, res2, tag, only=is_termination)
                    led.solver_time('z3-feasibility', it2.solver_time)
                    term2 = {n: v for n, v in seen2.items() if is_termination(n)}
                    if term2 and all(v[1] == 'valid' for v in term2.values()):
                        seen = {n: v for n, v in seen.items() if not is_termination(n)}
                        seen.update(term2)
                        break
            discharge(led, seen)
            if first:
                check_mu_exists(led, it, s)
                first = False
    # the linear-problem clause, line search off (with the line search on, the first step divides 0 by 0 in exact arithmetic)
    for modified in (True, False):
        it, res, incs, cs, tag, s = explore_solver(led, modified, False, True, linear=True)
        total_paths += len(res)
        seen = evaluate(led, it, res, tag, only=lambda n: 'linear-problem' in n or 'iteration-loop' in n)
        led.solver_time('z3-feasibility', it.solver_time)
        if not any('exit/linear-problem' in n for n in seen) or not any('report/linear-problem' in n for n in seen):
            raise CheckerError('linear scenario: the exit / report obligations were not generated')
        discharge(led, seen)
    led.extra['paths'] = total_paths
    check_static(led)
    check_static_twice(led)
    dyn = dynamic_grid()
    led.bounded_item('run-time contracts on the real driver over %s (%s runs): %s violations' % (dyn.get('input'), dyn.get('runs'), dyn.get('n_violations')))
    if dyn.get('n_violations') or dyn.get('raised'):
        led.fail('newton_raphson.py:_solver_NR/bounded-run-time-contracts', NRF, {'grid': dyn}, backend='run-time(bounded)', replay=dyn, signature='dynamic-grid')
    led.assume('C09 termination: the user callables and solve() return; the settings meet the preconditions initialInc in (0,1], minInc > 0, '
               'maxInc >= initialInc, maxNumIter >= 2, max_iter_line_search >= 1 (integers); floats are reals (a NaN residual is outside the model)')
    led.assume('C09 linear-problem clause: f_int(c) = K c with K symmetric positive definite, f_ext(t) = t F, solve() exact; proved for line_search=False')
    led.extra['unchecked_clauses'] = [
                                     'linear problem with line_search=True (the default): bounded run-time stand-in only (the first step divides 0 by 0 in exact arithmetic and leaves the line search through NaN comparisons)']


def check_static(led):
    func = 'compmech/analysis/analysis.py:Analysis.static'
    led.function(func)
    it = Interp()
    shims.install(it)
    install_contracts(it)
    called = []
    it.contracts['compmech.analysis.newton_raphson._solver_NR'] = lambda itp, a, kw: called.append(dict(a[0].attrs))
    s = settings_symbolic(it)
    for NL in (False, True):
        def run_it():
            del called[:]
            run = make_run(it, dict(s))
            r = it.call(it.getattr(run, 'static'), [], dict(NLgeom=NL, silent=True))
            return run, r, list(called)
        for path, out in it.explore(run_it):
            name = '%s[NLgeom=%s]' % (func, NL)
            if out[0] != 'return':
                led.fail(name + '/no-exception', func, {'raises': out[1].tname if out[0] == 'raise' else out[0]}, signature='raise')
                continue
            run, (incs, cs), called_now = out[1]
            if not NL:
                ok = (len(incs) == 1 and isinstance(incs[0], P) and incs[0] == P.const(1) and len(cs) == 1 and isinstance(cs[0], Vec)
                      and cs[0].term == ('solve', ('K0',), ('FEXT', 'None')))
                # calc_fext() is called with its default load factor (inc defaults to 1 in every calc_fext of the package)
                (led.ok(name + '/returns-([1], [solve(K0, fext)])', func) if ok else
                 led.fail(name + '/returns-([1], [solve(K0, fext)])', func, {'increments': [str(x) for x in incs], 'cs': [repr(x) for x in cs]}, signature='linear'))
            else:
                called = called_now
                ok = len(called) == 1
                (led.ok(name + '/dispatches-to-the-NR-driver', func) if ok else led.fail(name + '/dispatches-to-the-NR-driver', func, {'calls': len(called)}, signature='dispatch'))
                if ok:
                    mi = called[0]['maxInc']
                    st, mdl, dt = vc.prove(it, invloop._Z3Cond(z3.And(to_z3(mi) >= to_z3(s['initialInc']), to_z3(mi) >= to_z3(s['maxInc']))), path.conds)
                    (led.ok(name + '/maxInc>=initialInc', func, backend='z3') if st == 'valid' else
                     led.fail(name + '/maxInc>=initialInc', func, {'model': mdl}, signature='maxInc'))
                    ok2 = run.attrs['increments'] == [] or run.attrs['increments'] is incs
                    (led.ok(name + '/returns-the-lists-the-driver-fills', func) if (incs is run.attrs['increments'] and cs is run.attrs['cs']) else
                     led.fail(name + '/returns-the-lists-the-driver-fills', func, {}, signature='lists'))


def check_static_twice(led):
    """a second analysis on the same Analysis object starts from empty output lists of its own (the reported history is the one of the
    current run; the lists returned by the earlier run are not extended)"""
    func = 'compmech/analysis/analysis.py:Analysis.static'
    for first, second in ((False, True), (True, True), (True, False), (False, False)):
        it = Interp()
        shims.install(it)
        install_contracts(it)
        entries = []

        def driver(itp, a, kw):
            run = a[0]
            entries.append((run.attrs.get('increments'), run.attrs.get('cs'), list(run.attrs.get('increments') or []), list(run.attrs.get('cs') or [])))
            run.attrs['increments'].append(real('t_reported_%d' % len(entries)))
            run.attrs['cs'].append(Vec(('state', len(entries))))
        it.contracts['compmech.analysis.newton_raphson._solver_NR'] = driver
        s = settings_symbolic(it)

        def run_it():
            del entries[:]
            run = make_run(it, dict(s))
            r1 = it.call(it.getattr(run, 'static'), [], dict(NLgeom=first, silent=True))
            r2 = it.call(it.getattr(run, 'static'), [], dict(NLgeom=second, silent=True))
            return run, r1, r2, list(entries)
        for path, out in it.explore(run_it):
            name = '%s[NLgeom=%s after a run with NLgeom=%s]/second-run-reports-only-its-own-history' % (func, second, first)
            if out[0] != 'return':
                led.fail(name + '/no-exception', func, {'raises': out[1].tname if out[0] == 'raise' else out[0]}, signature='raise')
                continue
            run, r1, r2, ent = out[1]
            probs = []
            if second:
                e = ent[-1]
                if e[2] or e[3]:
                    probs.append('the driver of the second run starts with %d load factors / %d states already in the output lists' % (len(e[2]), len(e[3])))
            if r2[0] is r1[0] or r2[1] is r1[1]:
                probs.append('the second run returns the list objects of the first run (the earlier result keeps growing)')
            if not second and not (len(r2[0]) == 1 and len(r2[1]) == 1):
                probs.append('the linear run reports %d load factors and %d states, expected one of each' % (len(r2[0]), len(r2[1])))
            if second and not (len(r2[0]) == 1 and len(r2[1]) == 1):
                probs.append('the second run reports %d load factors (the driver stub reports one)' % len(r2[0]))
            if probs:
                led.fail(name, func, {'differences': probs}, signature='static-twice:' + ';'.join(probs)[:80], replay=replay_static_twice())
            else:
                led.ok(name, func)


def replay_static_twice():
    if 'twice' in _RP:
        return _RP['twice']
    from ..pyreplay import run_real
    script = '''
import numpy as np
from scipy.sparse import csr_matrix
from compmech.analysis import Analysis
K = csr_matrix(np.array([[2.]])); f = np.array([1.])
an = Analysis(calc_fext=lambda inc=1., silent=True: inc*f, calc_k0=lambda silent=True: K,
              calc_fint=lambda c, inc=1., silent=True: K.dot(c) + 0.1*c**3, calc_kT=lambda c, inc=1., silent=True: csr_matrix(np.array([[2. + 0.3*c[0]**2]])))
i1, c1 = an.static(NLgeom=False, silent=True)
n1 = len(i1)
i2, c2 = an.static(NLgeom=True, silent=True)
fresh = Analysis(calc_fext=an.calc_fext, calc_k0=an.calc_k0, calc_fint=an.calc_fint, calc_kT=an.calc_kT)
i3, c3 = fresh.static(NLgeom=True, silent=True)
out = {"first_run_list_length_then_and_now": [n1, len(i1)], "second_run": [float(x) for x in i2], "fresh_object": [float(x) for x in i3]}
'''
    r = run_real(script, {})
    r['reproduced'] = bool(r.get('raised') or r.get('second_run') != r.get('fresh_object') or (r.get('first_run_list_length_then_and_now') or [0, 0])[0] != (r.get('first_run_list_length_then_and_now') or [0, 0])[1])
    r['input'] = '1-dof cubic spring: static(NLgeom=False), then static(NLgeom=True) on the same Analysis object, against a fresh object'
    _RP['twice'] = r
    return r


def main():
    return run_check('C09', body)


if __name__ == '__main__':
    sys.exit(main())
