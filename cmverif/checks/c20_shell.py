"""C20 for complete shells: results of ConeCyl depend on the model definition only, not on the call history.

The real methods are executed symbolically; the compiled kernels are stubs that return a value carrying their name and the
arguments they received, so that two results are equal iff the same kernels were called with the same arguments and composed
in the same way.
  (a) every evaluation method can be requested first on a freshly defined object;
  (b) for every ordered pair (A, B): the result of B after A is the result of B alone;
  (c) after a definition attribute is changed between two requests of B, the second result is that of a fresh object defined
      with the new value.
"""
import itertools

import numpy as np

from ..poly import P, normal
from ..pycheck import keep_matrix as _keep_matrix
from .. import pysym, shims, kharness as K
from ..pysym import real, integer, to_z3, Opaque, SymRaise, Obj
from . import py_conecyl as PC

CC = PC.CC


def harness():
    it = PC.mk()

    def kernel(name):
        def contract(itp, args, kw):
            return Opaque('kernel', name=name, args=list(args), kw=dict(kw))
        return contract
    for mn, m in list(it.modules.items()):
        if mn.startswith('compmech.conecyl.clpt.') or mn.startswith('compmech.conecyl.fsdt.'):
            for fn in PC.KERNEL_FUNCS:
                it.contracts['%s.%s' % (mn, fn)] = kernel('%s.%s' % (mn.split('.')[-1], fn))
    it.contracts['attr:kernel.T'] = lambda itp, o: Opaque('transpose', of=o)
    for kind in ('kernel', 'sum', 'sym'):
        it.contracts['attr:%s.data' % kind] = lambda itp, o: Opaque('data', of=o)
        it.contracts['attr:%s.shape' % kind] = lambda itp, o: (P.atom('size_of_result'), P.atom('size_of_result'))
    it.np.isnan = lambda x: False
    it.np.isinf = lambda x: False
    it.np.any = lambda x: x
    it.contracts['compmech.sparse.make_symmetric'] = lambda itp, a, kw: Opaque('sym', of=a[0])
    it.contracts['scipy.sparse.csr_matrix'] = _keep_matrix
    it.contracts['scipy.sparse.coo_matrix'] = _keep_matrix
    def exclude(itp, a, kw):
        import hashlib
        cc, k = a[0], a[1]
        excl = list(cc.attrs['excluded_dofs'])
        tag = hashlib.sha1(repr((k.key() if isinstance(k, Opaque) else repr(k), excl)).encode()).hexdigest()[:10]
        n = 3 + 3 * 2 + 6 - len(excl)
        kuk = np.empty((n, 3), dtype=object)
        for i in range(n):
            for j in range(3):
                kuk[i, j] = real('kuk_%s_%d_%d' % (tag, i, j))
        return {'kuu': Opaque('kuu', of=k, excl=excl), 'kuk': kuk}
    it.contracts['compmech.conecyl.conecyl.ConeCyl.exclude_dofs_matrix'] = exclude

    def read_stack(itp, a, kw):
        lam = Obj(None)
        lam.name = 'lam'
        key = Opaque('laminate', stack=list(a[0]), plyts=list(kw.get('plyts') or []), laminaprops=[list(x) for x in (kw.get('laminaprops') or [])])
        lam.attrs['ABD'] = Opaque('ABD', of=key)
        lam.attrs['ABDE'] = Opaque('ABDE', of=key)
        return lam
    it.contracts['compmech.composite.laminate.read_stack'] = read_stack
    return it


def base_attrs():
    return dict(model='clpt_donnell_bc1', alphadeg=real('alphadeg'), r2=real('r2'), H=real('H'), m1=2, m2=1, n2=1, s=integer('s'),
                P=real('P'), T=real('T'), Fc=real('Fc'), pdC=False, stack=[real('th0')], plyt=real('plyt'), laminaprop=(real('E1'), real('E2')),
                nx=integer('nx'), nt=integer('nt'), thetaTdeg=real('thetaTdeg'), betadeg=real('betadeg'))


CHANGES = {
    'r2': ('r2', real('r2_new')),
    'alphadeg': ('alphadeg', real('alphadeg_new')),
    'Fc': ('Fc', real('Fc_new')),
    'plyt': ('plyt', real('plyt_new')),
    'P': ('P', real('P_new')),
    'H': ('H', real('H_new')),
    'thetaTdeg': ('thetaTdeg', real('thetaTdeg_new')),
    'betadeg': ('betadeg', real('betadeg_new')),
    # a constitutive matrix given directly (it takes precedence over the laminate built from the stack)
    'F_reuse': ('F_reuse', Opaque('constitutive matrix given by the user')),
}


def ops(it):
    size = 3 + 3 * 2 + 6
    cu = np.array([real('c%d' % k) for k in range(size - 2)], dtype=object)
    return {
        'calc_k0': lambda cc: it.call(it.getattr(cc, 'calc_k0'), [], dict(silent=True)),
        'calc_fext': lambda cc: it.call(it.getattr(cc, 'calc_fext'), [], dict(silent=True)),
        'linear-matrices': lambda cc: (it.call(it.getattr(cc, '_calc_linear_matrices'), [], dict(silent=True)), cc.attrs.get('k0'), cc.attrs.get('kG0'))[1:],
        'calc_kT': lambda cc: it.call(it.getattr(cc, 'calc_kT'), [cu], dict(silent=True)),
        'calc_fint': lambda cc: it.call(it.getattr(cc, 'calc_fint'), [cu], dict(silent=True)),
    }


def key_of(v):
    if isinstance(v, tuple):
        return tuple(key_of(x) for x in v)
    if isinstance(v, Opaque):
        return v.key()
    if isinstance(v, np.ndarray):
        return ('arr', v.shape, tuple(normal(x).text() if isinstance(x, P) else (x.key() if isinstance(x, Opaque) else repr(x)) for x in v.reshape(-1)))
    if isinstance(v, P):
        return normal(v).text()
    return repr(v)


def run_seq(it, seq, change_before_last=None, fresh_with_change=None):
    OPS = ops(it)
    attrs = base_attrs()
    if fresh_with_change:
        k, v = CHANGES[fresh_with_change]
        attrs[k] = v

    def thunk():
        cc = PC.new_cc(it, **attrs)
        r = None
        for k, op in enumerate(seq):
            if change_before_last and k == len(seq) - 1:
                a, v = CHANGES[change_before_last]
                it.setattr(cc, a, v)
            try:
                r = OPS[op](cc)
            except SymRaise as e:
                e.where = (k, op)
                raise
        return r
    outs = []
    for path, out in it.explore(thunk):
        conds = tuple(sorted(repr(c) for c in path.conds if 'cte' in repr(c)))
        if out[0] == 'return':
            outs.append(('ok', key_of(out[1])))
        else:
            outs.append(('raise', out[1].tname, getattr(out[1], 'where', None), tuple(str(a)[:80] for a in out[1].eargs)))
    return sorted(set(outs), key=repr)


_RP = {}


def replay_change(op, ch):
    """the same scenario on the real package: request, change the attribute, request again, compare with a fresh object"""
    key = (op, ch)
    if key in _RP:
        return _RP[key]
    from .. import pyreplay, shell_oracle as O
    script = O.COMMON + """
new = {'r2': 500., 'alphadeg': 30., 'Fc': 2000., 'plyt': 0.25, 'P': 0.2, 'H': 800., 'thetaTdeg': 1.1, 'betadeg': 0.7, 'F_reuse': np.diag([1.e5, 1.e5, 3.e4, 1.e4, 1.e4, 3.e3])}[payload['ch']]
def fresh(changed):
    cc = make(payload); cc.pdC = False; cc.pdT = True; cc.nx = 16; cc.nt = 16; cc.Fc = 1000.; cc.P = 0.05; cc.thetaTdeg = 0.4; cc.betadeg = 0.2
    cc.add_force(100., 30., 1., 2., 3.)
    if changed:
        setattr(cc, payload['ch'], new)
    return cc
def req(cc):
    op = payload['op']
    n = cc.get_size()
    if op == 'calc_k0':
        return np.asarray(cc.calc_k0(silent=True).todense())
    if op == 'calc_fext':
        return np.asarray(cc.calc_fext(silent=True)).ravel()
    if op == 'linear-matrices':
        cc._calc_linear_matrices(silent=True); k0_ = np.asarray(cc.k0.todense()).ravel(); kg_ = np.asarray(cc.kG0.todense()).ravel()
        return np.hstack([k0_/1e9, kg_])
    cc._rebuild(); c = np.linspace(0.1, 0.5, n - len(cc.excluded_dofs))
    if op == 'calc_kT':
        return np.asarray(cc.calc_kT(c, silent=True).todense())
    return np.asarray(cc.calc_fint(c, silent=True)).ravel()
a = fresh(False); first = req(a); setattr(a, payload['ch'], new); second = req(a)
want = req(fresh(True))
def rel(x, y):
    if x.shape != y.shape:
        return 1.0
    return float(abs(x - y).max() / max(abs(y).max(), 1e-300))
out = {'second_vs_fresh_with_new_value': rel(second, want), 'second_vs_first': rel(second, first), 'first_vs_fresh_with_new_value': rel(first, want)}
"""
    pay = dict(m1=2, m2=1, n2=1, r2=250., H=500., alphadeg=15., model='clpt_donnell_bc1', op=op, ch=ch,
               laminaprop=[123.55e3, 8.708e3, 0.319, 5.695e3, 5.695e3, 5.695e3], stack=[30, -30, 45], plyt=0.125)
    r = pyreplay.run_real(script, pay, timeout=600)
    rep = (r.get('second_vs_fresh_with_new_value') or 0) > 1e-9 and (r.get('first_vs_fresh_with_new_value') or 0) > 1e-9
    _RP[key] = {'reproduced': bool(rep), 'input': pay, 'result': r, 'real_function': 'ConeCyl.' + op}
    return _RP[key]


def check_grids_not_aliased(led):
    """ConeCyl._default_field (behind uvw / strain / stress / plot): the grids it stores and returns are copies -- the plotting code
    updates the stored grid in place, and the caller's arrays must not be touched"""
    from ..pysym import Interp
    func = CC + '_default_field'
    led.function(func)
    it = PC.mk()
    X = np.array([[real('x00'), real('x01')], [real('x10'), real('x11')]], dtype=object)
    Tt = np.array([[real('t00'), real('t01')], [real('t10'), real('t11')]], dtype=object)
    keepX, keepT = X.copy(), Tt.copy()

    def run():
        cc = PC.new_cc(it, **base_attrs())
        r = it.call(it.getattr(cc, '_default_field'), [X, Tt, 5, 5], {})
        return cc, r
    for path, out in it.explore(run):
        name = func + '/stored-and-returned-grids-do-not-share-memory-with-the-caller-arrays'
        if out[0] != 'return':
            led.fail(name + '/no-exception', func, {'raises': out[1].tname}, signature='raise')
            continue
        cc, r = out[1]
        probs = []
        for lab, arr in (('self.Xs', cc.attrs.get('Xs')), ('self.Ts', cc.attrs.get('Ts')), ('returned xs', r[0]), ('returned ts', r[1])):
            if isinstance(arr, np.ndarray) and (np.shares_memory(arr, X) or np.shares_memory(arr, Tt)):
                probs.append('%s shares its memory with an array of the caller' % lab)
        if not ((X == keepX).all() and (Tt == keepT).all()):
            probs.append('the caller arrays were modified')
        if probs:
            led.fail(name, func, {'differences': probs}, signature='grid-alias')
        else:
            led.ok(name, func)


def check(led):
    check_grids_not_aliased(led)
    it = harness()
    it.facts += [to_z3(real('r2')) > 0, to_z3(real('H')) > 0, to_z3(shims.PI) > 3, to_z3(real('alphadeg')) > 0, to_z3(real('alphadeg')) < 90,
                 to_z3(real('r2_new')) > 0, to_z3(real('H_new')) > 0, to_z3(real('alphadeg_new')) > 0, to_z3(real('alphadeg_new')) < 90]
    names = list(ops(it))
    for nm in names:
        led.function(CC + nm)
    alone = {}
    for op in names:
        alone[op] = run_seq(it, [op])
        name = '%s%s/can-be-requested-first-on-a-fresh-object' % (CC, op)
        bad = [o for o in alone[op] if o[0] != 'ok']
        if bad:
            led.fail(name, CC + op, {'outcome': [str(x)[:200] for x in bad]}, signature='fresh:' + op)
        else:
            led.ok(name, CC + op)
    for a, b in itertools.product(names, names):
        got = run_seq(it, [a, b])
        name = '%s%s/same-result-after-%s' % (CC, b, a)
        if got == alone[b]:
            led.ok(name, CC + b)
        else:
            led.fail(name, CC + b, {'after %s' % a: [str(x)[:300] for x in got], 'alone': [str(x)[:300] for x in alone[b]]}, signature='order:%s,%s' % (a, b))
    for b, ch in itertools.product(names, CHANGES):
        got = run_seq(it, [b, b], change_before_last=ch)
        want = run_seq(it, [b], fresh_with_change=ch)
        name = '%s%s/follows-a-change-of-%s' % (CC, b, ch)
        if got == want:
            led.ok(name, CC + b)
        else:
            led.fail(name, CC + b, {'second request after the change': [str(x)[:400] for x in got], 'fresh object with the new value': [str(x)[:400] for x in want]},
                     signature='change:%s,%s' % (b, ch), replay=replay_change(b, ch))
    led.solver_time('z3-feasibility', it.solver_time)
