"""C15 -- Ritz eigenvalues are upper bounds that do not increase when terms are added.

Machine-checked premises:
  (i)   nestedness: the value a kernel writes for the term pair (i,j),(k,l) does not depend on the series orders m, n
        (so the (m,n) matrices are principal sub-matrices of the (m',n') ones under the embedding (i,j) -> j*m'+i);
  (ii)  the index map (i,j) -> j*m+i is injective on 0<=i<m (z3, exhaustive over the admissible orders 1..30);
  (iii) K, KG, M are the exact Gram / Hessian matrices of the energies (C02-C04, re-used);
  (iv)  interior Bardell functions and the rotation functions vanish at xi = +-1, the translation functions are switched
        off by the flags: the simply supported trial space satisfies the essential boundary conditions (exact, from the spec).
Trusted (cited, not machine-checked): Cauchy interlacing / Rayleigh-Ritz min-max => monotone upper bounds.
Not decided by this technique: convergence to the closed-form values as m,n -> infinity (a limit statement), solver precision.
"""
import sys
from fractions import Fraction

import z3

from ..core import run_check
from ..poly import P, normal, mono_text
from .. import bardell_spec as B
from . import c14, c02, c03, c04


def body(led):
    # Python-layer premise of the closed-form clause: a plate made specially orthotropic through force_orthotropic_laminate is
    # integrated with the coupling terms removed by every kernel
    from . import py_panel
    py_panel.check_one_laminate(led)
    # ... and the bending stiffnesses the closed forms are written with are those of the material the user gave: every ply stiffness is the
    # tensor rotation of the plane-stress stiffness of the given constants (real read_laminaprop + Lamina.rebuild, as in C01)
    from . import c01
    c01.part_lamina(led)
    led.assume('C15: Cauchy interlacing / Rayleigh-Ritz min-max theorem (cited): eigenvalues of nested Gram pencils are monotone and bound the continuum values from above')
    led.assume('C15: the limit clause (convergence to the closed forms as m,n grow) and floating-point eigen-solver behaviour are not decidable by contracts; not claimed')
    func = 'premise(C15): nested trial spaces'
    for model in ('plate', 'cpanel'):
        for fname, scal, form_of in (('fk0', [], c02.strain_form), ('fkG0', ['Nxx', 'Nyy', 'Nxy'], c03.prestress_form), ('fkM', ['d'], lambda m_: c04.kinetic_form(m_, +1))):
            v = c14.values(model, fname, scal, form_of(model))
            name = '%s/%s.%s entries independent of the series orders m, n' % (func, model, fname)
            if 'values' not in v:
                led.fail(name, func, {'reason': 'kernel values could not be extracted'}, signature='extract')
                continue
            bad = []
            for (p, q), val in v['values'].items():
                ats = normal(val).atoms()
                if 'm' in ats or 'n' in ats or any(('*m' in a_ or '*n' in a_) and a_.startswith('I') for a_ in ats):
                    bad.append((p, q))
            led.ok(name, func) if not bad else led.fail(name, func, {'entries_depending_on_m_or_n': bad}, signature='nest:%s.%s' % (model, fname))
    # (ii) injectivity of the index map, exhaustively for the admissible orders
    i, j, i2, j2 = z3.Ints('i j i2 j2')
    ok_all = True
    for m in range(1, 31):
        s = z3.Solver()
        s.add(i >= 0, i < m, i2 >= 0, i2 < m, j >= 0, j2 >= 0, j < 30, j2 < 30, j * m + i == j2 * m + i2, z3.Or(i != i2, j != j2))
        if s.check() != z3.unsat:
            ok_all = False
            break
    nm = 'premise(C15): (i,j) -> j*m+i injective for 0<=i<m, m in 1..30'
    led.ok(nm, 'premise(C15)', backend='z3(exhaustive over m)') if ok_all else led.fail(nm, 'premise(C15)', {'m': m})
    # embedding: the (i,j) entry of the (m,n) matrix sits at j*m'+i of the (m',n') matrix: principal sub-matrix (z3: distinct pairs stay distinct, in range)
    m1, m2 = z3.Ints('m1 m2')
    s = z3.Solver()
    s.add(m1 >= 1, m2 >= m1, m2 <= 30, i >= 0, i < m1, j >= 0, z3.Not(z3.And(i < m2, j * m2 + i >= 0)))
    nm = 'premise(C15): every term (i,j) of the (m,n) space is a term of the (m\',n\') space for m\'>=m, n\'>=n'
    led.ok(nm, 'premise(C15)', backend='z3') if s.check() == z3.unsat else led.fail(nm, 'premise(C15)', {})
    # (iv) boundary values of the basis
    bad = []
    for k in range(30):
        f = B.f_poly(k)
        vm, vp = B.peval(f, Fraction(-1)), B.peval(f, Fraction(1))
        if k in (0, 2):
            want = (1, 0) if k == 0 else (0, 1)
            if (vm, vp) != want:
                bad.append((k, str(vm), str(vp)))
        elif vm != 0 or vp != 0:
            bad.append((k, str(vm), str(vp)))
    nm = 'premise(C15): f_i(+-1) = 0 for every function except the two translation functions (which carry the t-flags)'
    led.ok(nm, 'premise(C15)', backend='exact-rational') if not bad else led.fail(nm, 'premise(C15)', {'offending': bad})
    # (v) the eigen-solver wrappers solve the problem restricted to the active amplitudes and nothing else (shared with C05/C06):
    #     a wrapper that drops or keeps amplitudes by another rule makes the smaller model no longer a sub-problem of the larger
    from .c14 import _Premises
    from . import c05, c06
    view = _Premises(led, ('/post',))
    c05.check_lb(view)
    c06.check_freq(view)
    led.extra['unchecked_clauses'] = ['monotone upper bounds: conclusion by the cited min-max theorem', 'convergence to the closed-form values (limit)']


def main():
    return run_check('C15', body)


if __name__ == '__main__':
    sys.exit(main())
