"""C18: ConeCyl.calc_fext for EVERY series order (m1, m2, n2 symbolic), complementing the instance proof of c18_fext.

Vectors over the amplitudes are modelled in *decoded coordinates*: an entry is addressed by (family, series indices, p)
   family 0: the three leading amplitudes (p = 0, 1, 2);  family 1: (i1; p < num1);  family 2: (i2, j2; p < num2),
which is the layout get_size() / cfuvw / fg use (checked against modelDB in c18_fext).  A vector is a list of additive terms:
a value at one leading amplitude, a value for every (family, indices) of a loop executed once generically, or an
element-wise function.  np.delete(v, excluded_dofs) removes leading amplitudes only, so in decoded coordinates it just marks
them as absent.  The basis matrix g is what fg fills: fg's own text (cfgss) is run with generic loops and every store
g[d, column] is proved to be component d of the basis function that cfuvw reports for that amplitude.

Obligation per (model, pdC, pdT) and per family / p: the value of fext at a generic amplitude of that family equals the virtual
work of the loads on its basis function (same clauses as c18_fext, symbolic indices instead of instances).
"""
from fractions import Fraction

import numpy as np

from ..core import CheckerError
from ..poly import P, normal
from .. import kharness as K, pysym, shims, trig, shellk as SK, kernel
from ..pysym import real, integer, to_z3, SymRaise, Cond
from . import py_conecyl as PC
from .c16 import model_db, modpath
from .c18_fext import x_integrate, theta_parts, STATIC_MODELS, FE


def _P(x):
    return x if isinstance(x, P) else P.const(x)


def subs_vars(expr, names, values):
    expr = _P(expr)
    return trig.tsubs(expr, {n: _P(v) for n, v in zip(names, values)}) if names else trig.tnormal(expr)


class Ctx(object):
    def __init__(self, it, consts, m1, m2, n2):
        self.it, self.consts, self.m1, self.m2, self.n2 = it, consts, m1, m2, n2
        self.partial = []
        self.stray = []

    def decode(self, k):
        c = self.consts
        return SK.decode_dof(_P(k), c['num0'], c['num1'], c['num2'], self.m1, self.m2)

    def full_range(self, fam, vars_):
        """the generic loops that carry the index variables cover the whole index range of the family"""
        gens = {g.var: g for g in self.it.generic}
        want = {1: [(self.consts['i0'], self.m1 + self.consts['i0'])],
                2: [(self.consts['i0'], self.m2 + self.consts['i0']), (self.consts['j0'], self.n2 + self.consts['j0'])]}[fam]
        for v, (lo, hi) in zip(vars_, want):
            g = gens.get(v)
            if g is None or not normal(_P(g.lo) - lo).is_zero() or not normal(_P(g.hi) - hi).is_zero():
                return False
        return True


class DofVec(object):
    def __init__(self, ctx, terms=None, excluded=None):
        self.ctx = ctx
        self.terms = list(terms or [])       # ('lead', p, value) | ('gen', fam, vars, p, value, conds) | ('fun', f)
        self.excluded = excluded            # None: full layout; tuple: leading amplitudes removed

    # ---- numpy-like surface used by calc_fext ------------------------------------------------------------------------
    def ravel(self):
        return self

    def sym_getattr(self, interp, name):
        if name == 'ravel':
            return self.ravel
        raise CheckerError('amplitude vector attribute %s' % name)

    def scaled(self, s):
        s = _P(s)
        out = []
        for t in self.terms:
            if t[0] == 'lead':
                out.append(('lead', t[1], t[2] * s))
            elif t[0] == 'gen':
                out.append(('gen', t[1], t[2], t[3], t[4] * s, t[5]))
            else:
                out.append(('fun', (lambda f, s: (lambda fam, idx, p: f(fam, idx, p) * s))(t[1], s)))
        return DofVec(self.ctx, out, self.excluded)

    def __mul__(self, o):
        return self.scaled(pysym._unwrap0(o))

    __rmul__ = __mul__

    def __neg__(self):
        return self.scaled(-1)

    def __add__(self, o):
        if not isinstance(o, DofVec):
            return NotImplemented
        if o.excluded != self.excluded:
            raise SymRaise('ValueError', ('operands could not be broadcast together: %s and %s leading amplitudes removed' % (self.excluded, o.excluded),))
        return DofVec(self.ctx, self.terms + o.terms, self.excluded)

    __iadd__ = __add__

    def deleted(self, excluded):
        if self.excluded is not None:
            raise CheckerError('np.delete on an already reduced vector')
        ex = tuple(sorted(pysym._toint(e) for e in excluded))
        if any(e >= self.ctx.consts['num0'] for e in ex):
            raise CheckerError('np.delete of an amplitude outside the leading block')
        return DofVec(self.ctx, self.terms, ex)

    def _store(self, interp, k, v, node, aug):
        if self.excluded is not None:
            raise CheckerError('line %d: store into a reduced vector' % node.lineno)
        d = self.ctx.decode(k)
        if d is None:
            # not the position of any amplitude in the layout num0 | num1*m1 | num2*m2*n2 that get_size / cfuvw / fg use
            self.ctx.stray.append((str(normal(_P(k))), node.lineno))
            return
        fam, vars_, p = d
        v = _P(pysym._unwrap0(v))
        if fam == 0:
            self.terms.append(('lead', p, v))
            return
        if not self.ctx.full_range(fam, vars_):
            gens = {g.var: g for g in interp.generic}
            self.ctx.partial.append((fam, ', '.join('%s in [%s, %s)' % (v_, gens[v_].lo, gens[v_].hi) if v_ in gens else v_ for v_ in vars_), node.lineno))
        conds = [c for c in interp.path.conds if isinstance(c, Cond) and any(a in vars_ for a in _cond_atoms(c))]
        # the range conditions of the loops themselves are implied by the index ranges of the family
        gens = {g.var: g for g in interp.generic}
        rng = set()
        for vn in vars_:
            g = gens[vn]
            rng.add(repr(pysym.compare('>=', P.atom(vn), _P(g.lo))))
            rng.add(repr(pysym.compare('<', P.atom(vn), _P(g.hi))))
        conds = [c for c in conds if repr(c) not in rng]
        self.terms.append(('gen', fam, vars_, p, v, conds))

    def sym_augstore(self, interp, k, op, v, node):
        if op != 'Add':
            raise CheckerError('line %d: %s into an amplitude vector' % (node.lineno, op))
        self._store(interp, k, v, node, True)

    def sym_store(self, interp, k, v, node):
        self._store(interp, k, v, node, False)

    # ---- evaluation at a generic amplitude -------------------------------------------------------------------------------
    def value(self, fam, idx_names, p, assume):
        """assume(cond) -> True / False / None"""
        tot = P({})
        for t in self.terms:
            if t[0] == 'lead':
                if fam == 0 and t[1] == p:
                    tot = tot + t[2]
            elif t[0] == 'gen':
                if t[1] == fam and t[3] == p:
                    ok = True
                    for c in t[5]:
                        c2 = _subs_cond(c, t[2], idx_names)
                        r = assume(c2)
                        if r is None:
                            raise CheckerError('guard %r of a loop contribution is not decided for the generic amplitude' % (c2,))
                        ok = ok and r
                    if ok:
                        tot = tot + subs_vars(t[4], t[2], [P.atom(n) for n in idx_names])
            else:
                tot = tot + t[1](fam, idx_names, p)
        return trig.tnormal(tot)


def _cond_atoms(c):
    if c.kind == 'cmp':
        return c.b.atoms()
    if c.kind == 'not':
        return _cond_atoms(c.a)
    return _cond_atoms(c.a) | _cond_atoms(c.b)


def _subs_cond(c, names, new):
    sub = {n: P.atom(m) for n, m in zip(names, new)}
    if c.kind == 'cmp':
        return Cond('cmp', c.a, normal(c.b.subs(sub)))
    if c.kind == 'not':
        return Cond('not', _subs_cond(c.a, names, new))
    return Cond(c.kind, _subs_cond(c.a, names, new), _subs_cond(c.b, names, new))


class GMat(object):
    """the basis matrix g (dofs x size): element (d, amplitude) by a function installed by the fg contract"""
    def __init__(self, ctx, ndofs):
        self.ctx, self.ndofs, self.fill, self.excluded = ctx, ndofs, None, None

    def deleted(self, excluded):
        g = GMat(self.ctx, self.ndofs)
        g.fill = self.fill
        g.excluded = tuple(sorted(pysym._toint(e) for e in excluded))
        return g

    def rdot(self, row):
        if self.fill is None:
            raise CheckerError('basis matrix used before fg filled it')
        row = np.asarray(row, dtype=object)
        if row.shape != (1, self.ndofs):
            raise SymRaise('ValueError', ('shapes %s and (%d, size) not aligned' % (row.shape, self.ndofs),))
        coef = [_P(x) for x in row[0]]
        fill = self.fill
        return DofVec(self.ctx, [('fun', lambda fam, idx, p: sum((coef[d] * fill(d, fam, idx, p) for d in range(self.ndofs)), P({})))], self.excluded)


class ObjArr(np.ndarray):
    """numpy array of symbols whose .dot understands the basis matrix"""
    def dot(self, other):
        if isinstance(other, GMat):
            return other.rdot(np.asarray(self))
        return np.ndarray.dot(self, other)


class InVec(object):
    """Nxxtop: input vector of symbolic length, entries as atoms"""
    def __init__(self, name, scale=None, length=None):
        self.name, self.scale, self.length = name, _P(1) if scale is None else scale, length

    def __mul__(self, o):
        return InVec(self.name, self.scale * _P(pysym._unwrap0(o)), self.length)

    __rmul__ = __mul__

    def sym_load(self, interp, k, node):
        return self.scale * entry(self.name, k)

    def sym_getattr(self, interp, name):
        if name == 'ndim':
            return 1
        if name == 'shape':
            return (self.length,)
        raise CheckerError('input vector attribute %s' % name)


class NdType(object):
    """numpy.ndarray in isinstance tests: true for real arrays and for the symbolic-length input vector"""
    def sym_isinstance(self, interp, o):
        return isinstance(o, (np.ndarray, InVec))


def entry(name, k):
    k = normal(_P(k))
    a = '%s[%s]' % (name, k.text())
    d = kernel.deps_of(k)
    if d:
        kernel.ATOM_DEPS[a] = d
    return P.atom(a)


class Kuk(object):
    def __init__(self, ctx, excluded):
        self.ctx, self.excluded = ctx, excluded

    def sym_load(self, interp, k, node):
        if not (isinstance(k, tuple) and len(k) == 2 and k[0] == slice(None)):
            raise CheckerError('line %d: k0uk read other than by column' % node.lineno)
        col = pysym._toint(k[1])
        return DofVec(self.ctx, [('fun', lambda fam, idx, p: kuk_atom(fam, idx, p, col))], self.excluded)


def kuk_atom(fam, idx, p, col):
    a = 'Kuk<%d;%s;%d|%d>' % (fam, ','.join(idx), p, col)
    if idx:
        kernel.ATOM_DEPS[a] = set(idx)
    return P.atom(a)


def fg_table(led, it, commons, ftab, consts, lab):
    """run fg / cfgss of the commons module with generic loops: g[d, column] == component d of the cfuvw basis function"""
    m = it.modules[commons] if commons in it.modules else it.module(commons)
    f = K.kernel_func(it, commons, 'fg')
    sig = [nm for _, nm in m.pyx.sigs['fg']]
    m1, m2, n2 = integer('m1'), integer('m2'), integer('n2')

    class G(object):
        def __init__(self):
            self.stores = []

        def sym_store(self, interp, k, v, node):
            d, col = k
            self.stores.append((pysym._toint(d), _P(col), _P(v), [g.var for g in interp.generic], node.lineno))
    g = G()
    args = []
    for nm in sig:
        if nm in ('gss', 'g'):
            args.append(g)
        elif nm in ('m1', 'm2', 'n2'):
            args.append({'m1': m1, 'm2': m2, 'n2': n2}[nm])
        else:
            args.append(real({'tLA': 'tLA'}.get(nm, nm)))
    res = it.explore(lambda: it.call(f, args, {}))
    if len(res) != 1 or res[0][1][0] != 'return':
        led.fail(lab + '/single-returning-path', lab, {'outcomes': [o[0] for _, o in res]}, signature='fg-paths')
        return None
    comps = ['u', 'v', 'w', 'phix', 'phit']
    seen = {}
    ok_all = True
    for d, col, v, gens, line in g.stores:
        dec = SK.decode_dof(col, consts['num0'], consts['num1'], consts['num2'], m1, m2)
        name = '%s/store@%d' % (lab, line)
        if dec is None:
            led.fail(name + '/column-is-an-amplitude', lab, {'column': str(col)}, signature='fg-col')
            ok_all = False
            continue
        fam, vars_, p = dec
        if (fam, p) not in ftab:
            led.fail(name + '/amplitude-known-to-cfuvw', lab, {'family': fam, 'p': p}, signature='fg-unknown')
            ok_all = False
            continue
        lv, fld = ftab[(fam, p)]
        want = subs_vars(fld.get(comps[d], P({})), lv, [P.atom(x) for x in vars_])
        okc, bad = K.compare(trig.tnormal(v), trig.tnormal(want))
        nm = '%s/g[%s,(%d,%d)]==cfuvw-basis' % (lab, comps[d], fam, p)
        if okc:
            led.ok(nm, lab)
        else:
            led.fail(nm, lab, {'code': str(v)[:300], 'cfuvw basis': str(want)[:300]}, signature='fg:%d,%d,%d' % (d, fam, p))
            ok_all = False
        seen[(d, fam, p)] = (vars_, v)
    # every non-zero basis component is stored
    for (fam, p), (lv, fld) in ftab.items():
        for d, cname in enumerate(comps):
            if cname in fld and not trig.tnormal(fld[cname]).is_zero() and (d, fam, p) not in seen:
                led.fail('%s/g[%s,(%d,%d)]-is-filled' % (lab, cname, fam, p), lab, {'basis': str(fld[cname])[:200]}, signature='fg-missing:%d,%d,%d' % (d, fam, p))
                ok_all = False
    return ok_all


def check_model(led, model, pdC, pdT):
    db = model_db()
    commons = modpath(db[model]['commons'])
    is_fsdt = 'fsdt' in model
    it = PC.mk()
    it.modules.pop(commons, None)
    it.contracts['extern.sin'] = lambda itp, a, kw: trig.tsin(a[0])
    it.contracts['extern.cos'] = lambda itp, a, kw: trig.tcos(a[0])
    it.builtins['PTR'] = lambda arr, *idx: arr
    it.np.sin, it.np.cos = trig.tsin, trig.tcos
    it.shims['numpy.sin'], it.shims['numpy.cos'] = trig.tsin, trig.tcos
    cm, _ = SK.load(it, commons)
    it.modules['compmech.conecyl.' + ('fsdt' if is_fsdt else 'clpt')].g[db[model]['commons']] = cm
    it.loop_modes[('*', '*')] = kernel.GenericLoop(counters=(), local=True)
    ftab, finfo = SK.field_table(it, commons, width2=db[model]['num2'])
    consts = dict(finfo['consts'])
    if not all(consts[k] == db[model][k] for k in ('num0', 'num1', 'num2', 'i0', 'j0')):
        return          # reported by c18_fext (layout obligation)
    sub = 'fsdt' if is_fsdt else 'clpt'
    lab_g = 'compmech/conecyl/%s/%s.pyx:fg' % (sub, db[model]['commons'])
    if not pdC and not pdT:
        led.function(lab_g)
        if not fg_table(led, it, commons, ftab, consts, lab_g):
            return
    m1, m2, n2 = integer('m1'), integer('m2'), integer('n2')
    ctx = Ctx(it, consts, m1, m2, n2)
    ndofs = db[model]['dofs'] if 'dofs' in db[model] else (5 if is_fsdt else 3)
    r2, L, alphadeg = real('r2'), real('L'), real('alphadeg')
    xf, tf, fx, ft, fz = (real(n) for n in ('xf', 'tf', 'fx', 'ft', 'fz'))
    xg, tg, gx, gt, gz = (real(n) for n in ('xg', 'tg', 'gx', 'gt', 'gz'))
    inc, Pc, Pi, Tc, Ti, uTM, thT = (real(n) for n in ('inc', 'P', 'P_inc', 'T', 'T_inc', 'uTM', 'thetaTdeg'))
    it.facts += [to_z3(r2) > 0, to_z3(L) > 0, to_z3(alphadeg) > 0, to_z3(alphadeg) < 90, to_z3(shims.PI) > 3,
                 to_z3(m1) >= 1, to_z3(m2) >= 1, to_z3(n2) >= 1]
    excl = tuple(([0] if pdC else []) + ([1] if pdT else []) + [2])
    use_P = not is_fsdt
    arad = alphadeg * shims.PI * Fraction(1, 180)
    sina, cosa = trig.tsin(arad), trig.tcos(arad)
    comps = ['u', 'v', 'w', 'phix', 'phit']

    def fill_for(x_, t_):
        def fill(d, fam, idx, p):
            lv, fld = ftab[(fam, p)]
            f = fld.get(comps[d], P({}))
            f = trig.tsubs(f, {'cosa': cosa})
            f = subs_vars(f, lv, [P.atom(n) for n in idx])
            return trig.tsubs(f, {'x': x_, 't': t_, 'tLA': P.const(0)})
        return fill

    def fg_contract(itp, a, kw):
        g = a[0]
        if not isinstance(g, GMat):
            raise CheckerError('fg called with %r' % (g,))
        names = [nm for _, nm in cm.pyx.sigs['fg']]
        b = dict(zip(names, a))
        want = {'m1': m1, 'm2': m2, 'n2': n2, 'r2': r2, 'L': L}
        for k_, v_ in want.items():
            if k_ in b and not normal(_P(b[k_]) - v_).is_zero():
                raise SymRaise('BadArgument', ('fg receives %s = %s' % (k_, b[k_]),))
        if 'cosa' in b and not K.compare(trig.tnormal(_P(b['cosa'])), trig.tnormal(cosa))[0]:
            raise SymRaise('BadArgument', ('fg receives cosa = %s' % (b['cosa'],),))
        tla = b.get('tLA')
        if tla is not None and not trig.tnormal(_P(tla)).is_zero():
            raise SymRaise('BadArgument', ('fg receives tLA = %s (the check is stated for tLArad = 0)' % (tla,),))
        g.fill = fill_for(_P(b['x']), _P(b['t']))
        return None
    it.contracts[commons + '.fg'] = fg_contract
    old_zeros, old_delete, old_array = it.np.zeros, it.np.delete, it.np.array

    def zeros(shape, dtype=None):
        if isinstance(shape, tuple) and len(shape) == 2:
            return GMat(ctx, pysym._toint(shape[0]))
        return DofVec(ctx)

    def delete(arr, obj, axis=None):
        if isinstance(arr, (DofVec, GMat)):
            return arr.deleted(obj)
        return old_delete(arr, obj, axis)

    def array(x, *a, **k):
        r = np.empty((len(x), len(x[0])), dtype=object)
        for i_, row in enumerate(x):
            for j_, v_ in enumerate(row):
                r[i_, j_] = _P(pysym._unwrap0(v_))
        return r.view(ObjArr)
    it.np.zeros, it.np.delete, it.np.array = zeros, delete, array
    old_nd = getattr(it.np, 'ndarray', None)
    it.np.ndarray = NdType()
    tag = '%s,pdC=%s,pdT=%s,any series order' % (model, pdC, pdT)

    def run():
        cc = PC.new_cc(it, model=model, alphadeg=alphadeg, r2=r2, L=L, m1=m1, m2=m2, n2=n2, pdC=pdC, pdT=pdT,
                       stack=[real('th0')], plyt=real('plyt'), laminaprop=(real('E1'),),
                       forces=[[xf, tf, fx, ft, fz]], forces_inc=[[xg, tg, gx, gt, gz]],
                       P=(Pc if use_P else 0.), P_inc=(Pi if use_P else 0.), T=Tc, T_inc=Ti, uTM=uTM, thetaTdeg=thT,
                       nx=integer('nx'), nt=integer('nt'))
        it.setattr(cc, 'Nxxtop', InVec('Nxx', None, 2 * n2 + 1))
        size = consts['num0'] + consts['num1'] * m1 + consts['num2'] * m2 * n2
        it.setattr(cc, 'k0', pysym.Opaque('k0', shape=(size, size)))
        it.setattr(cc, 'k0uk', Kuk(ctx, excl))
        return it.call(it.getattr(cc, 'calc_fext'), [], dict(inc=inc, silent=True))
    try:
        res = it.explore(run)
    finally:
        it.np.zeros, it.np.delete, it.np.array = old_zeros, old_delete, old_array
        it.np.ndarray = old_nd
    rets = [(p_, o) for p_, o in res if o[0] == 'return']
    nm = '%s[%s]/loops-cover-the-whole-index-range-of-their-family' % (FE, tag)
    if ctx.partial:
        led.fail(nm, FE, {'loops': sorted(set('family %d: %s (line %d)' % x for x in ctx.partial))[:4]}, signature='partial-loop')
    else:
        led.ok(nm, FE)
    nm = '%s[%s]/every-store-addresses-an-amplitude-of-the-layout' % (FE, tag)
    if ctx.stray:
        led.fail(nm, FE, {'stores': sorted(set('index %s (line %d)' % x for x in ctx.stray))[:4],
                          'layout': 'num0 leading amplitudes | num1 per i1 | num2 per (i2, j2): position num0 + num1*m1 + num2*((j2-j0)*m2 + (i2-i0)) + p'},
                 signature='stray-store', replay=replay_orders(model, pdC, pdT))
    else:
        led.ok(nm, FE)
    for path, out in res:
        if out[0] == 'raise':
            led.fail('%s[%s]/no-exception' % (FE, tag), FE, {'raises': out[1].tname, 'args': [str(a)[:160] for a in out[1].eargs],
                                                            'path': [repr(c) for c in path.conds][-3:]}, signature='raise:' + out[1].tname)
    tot_P, tot_T = Pc + inc * Pi, Tc + inc * Ti
    import z3
    for path, out in rets:
        fext = out[1]
        if not isinstance(fext, DofVec) or fext.excluded != excl:
            led.fail('%s[%s]/reduced-vector' % (FE, tag), FE, {'result': repr(fext)[:100], 'excluded': getattr(fext, 'excluded', None), 'expected': excl}, signature='layout')
            continue
        pathP = tot_P if use_P else P({})
        pathT = tot_T
        for c in path.conds:
            if getattr(c, 'kind', None) == 'cmp' and c.a == '==':
                if use_P and (normal(c.b - tot_P).is_zero() or normal(c.b + tot_P).is_zero()):
                    pathP = P({})
                if normal(c.b - tot_T).is_zero() or normal(c.b + tot_T).is_zero():
                    pathT = P({})
        suffix = '' if len(rets) == 1 else '|' + ('P=0' if pathP.is_zero() else 'P!=0') + (',T=0' if pathT.is_zero() else ',T!=0')
        for (fam, p), (lv, fld) in sorted(ftab.items()):
            if fam == 0 and p in excl:
                continue
            cases = [('', [])]
            if fam == 1:
                # the series starts at i1 = i0 = 0 for every registered model: the i1 = 0 term (sin(0) = 0) is guarded in the code
                i1 = P.atom(lv[0])
                cases = [('|i1=0', [Cond('cmp', '==', i1)]), ('|i1>0', [Cond('cmp', '>', i1)])]
            for ctag, extra in cases:
                def assume(c, extra=extra):
                    s = z3.Solver()
                    s.set('timeout', 10000)
                    for f_ in it.facts:
                        s.add(f_)
                    for e in extra:
                        s.add(pysym.cond_z3(e))
                    for n_, (lo, hi) in zip(lv, {1: [(consts['i0'], m1 + consts['i0'])], 2: [(consts['i0'], m2 + consts['i0']), (consts['j0'], n2 + consts['j0'])]}.get(fam, [])):
                        s.add(to_z3(P.atom(n_)) >= to_z3(_P(lo)), to_z3(P.atom(n_)) < to_z3(_P(hi)))
                    cz = pysym.cond_z3(c)
                    s.push()
                    s.add(z3.Not(cz))
                    if s.check() == z3.unsat:
                        return True
                    s.pop()
                    s.add(cz)
                    if s.check() == z3.unsat:
                        return False
                    return None
                name = '%s[%s]%s/entry(%d,%s,%d)%s==virtual-work' % (FE, tag, suffix, fam, ','.join(lv), p, ctag)
                try:
                    got = fext.value(fam, lv, p, assume)
                except CheckerError as e:
                    led.undecide(name, FE, str(e)[:200])
                    continue
                fldc = {k_: trig.tsubs(v_, {'cosa': cosa}) for k_, v_ in fld.items()}
                zero_i1 = bool(extra) and extra[0].a == '=='
                if zero_i1:
                    fldc = {k_: trig.tsubs(v_, {lv[0]: P.const(0)}) for k_, v_ in fldc.items()}
                    got = trig.tsubs(got, {lv[0]: P.const(0)})
                z = P({})
                u, v, w = fldc.get('u', z), fldc.get('v', z), fldc.get('w', z)
                jn = lv[1] if fam == 2 else None
                want = P({})
                for (x_, t_, a_, b_, c_, fac) in ((xf, tf, fx, ft, fz, P.const(1)), (xg, tg, gx, gt, gz, inc)):
                    at = lambda f: trig.tsubs(f, {'x': x_, 't': t_, 'tLA': P.const(0)})
                    want = want + fac * (a_ * at(u) + b_ * at(v) + c_ * at(w))
                if not pdC:
                    u0 = trig.tsubs(u, {'x': P.const(0)})
                    if fam == 0 and p == 2:
                        cpart = apart = bpart = P({})
                    else:
                        cpart, apart, bpart = theta_parts(u0, jn)
                    term = 2 * shims.PI * cpart * entry('Nxx', 0)
                    if fam == 2:
                        j = P.atom(lv[1])
                        term = term + shims.PI * (apart * entry('Nxx', 1 + 2 * (j - consts['j0'])) + bpart * entry('Nxx', 2 + 2 * (j - consts['j0'])))
                    want = want + inc * r2 * term
                if not pathP.is_zero():
                    if fam == 0 and p == 2:
                        cw = P({})
                    else:
                        cw, aw, bw = theta_parts(w, jn)
                    if not trig.tnormal(cw).is_zero():
                        val = x_integrate(cw * (r2 + P.atom('x') * sina), P.const(0), L)
                        want = want + pathP * 2 * shims.PI * val
                if not pdT and not pathT.is_zero():
                    v0 = trig.tsubs(v, {'x': P.const(0)})
                    cv = theta_parts(v0, jn)[0] if not (fam == 0 and p == 2) else P({})
                    want = want + pathT / (2 * shims.PI * r2 * r2) * r2 * 2 * shims.PI * cv
                if pdC:
                    want = want - inc * uTM * kuk_atom(fam, lv, p, 0)
                if pdT:
                    want = want - inc * (thT * shims.PI * Fraction(1, 180)) * kuk_atom(fam, lv, p, 1)
                ok, bad = K.compare(trig.tnormal(got), trig.tnormal(want))
                if ok:
                    led.ok(name, FE)
                else:
                    led.fail(name, FE, {'code': str(got)[:400], 'contract': str(trig.tnormal(want))[:400], 'difference': bad}, signature='fext-any:%d,%d' % (fam, p),
                             replay=replay_orders(model, pdC, pdT))
    led.solver_time('z3-feasibility', it.solver_time)


_RP = {}


def replay_orders(model, pdC, pdT):
    """calc_fext against quadrature of the work on fg for unequal series orders, on the real package"""
    key = (model, pdC, pdT)
    if key in _RP:
        return _RP[key]
    from .. import pyreplay, shell_oracle as O
    pay = dict(m1=4, m2=3, n2=5, r2=250., H=500., alphadeg=15., laminaprop=[123.55e3, 8.708e3, 0.319, 5.695e3, 5.695e3, 5.695e3],
               stack=[30, -30, 45], plyt=0.125, model=model, pdC=pdC, pdT=pdT, T=1000., P=(0. if 'fsdt' in model else 0.05),
               Nxxtop=[10.] + [float(k + 1) for k in range(10)], forces=[[100., 30., 1., 2., 3.]], uTM=0.4, thetaTdeg=1.2)
    if model.startswith('iso_'):
        pay['iso'] = [71e3, 0.33, 2.]
    try:
        r = pyreplay.run_real(O.FEXT, pay)
        _RP[key] = {'reproduced': bool(r.get('n_mismatch')), 'input': pay, 'result': r, 'real_function': 'ConeCyl.calc_fext vs quadrature of the work on fg'}
    except Exception as e:
        _RP[key] = {'reproduced': False, 'replay_error': repr(e)}
    return _RP[key]


def _job(led, j):
    check_model(led, *j)


def check(led):
    from .. import parallel
    jobs = [(m, c, t) for m in STATIC_MODELS for c in (False, True) for t in (False, True)]
    only = __import__('os').environ.get('C18_MODELS')
    if only:
        jobs = [j for j in jobs if j[0] in only.split(',')]
    led.assume('calc_fext, any series order: numpy zeros / delete of leading amplitudes / += / row-vector . matrix as element-wise operations on '
               'amplitude vectors (cmverif/checks/c18_fext_any.py); the axial-load and pressure loops are executed once generically and must cover the '
               'whole index range of their family; tLArad = 0')
    parallel.run(led, _job, jobs)
