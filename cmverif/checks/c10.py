"""C10 -- Bardell functions, integral tables and quadrature tables are exact.

Functions under contract (all read from /repo on every run):
  lib/src/bardell_functions.c : calc_vec_f/fxi/fxixi, calc_f/fxi/fxixi
  lib/src/bardell.c           : integral_{ff,ffxi,ffxixi,fxifxi,fxifxixi,fxixifxixi}
  lib/src/bardell_integral_*_12.c, *_c0c1.c
  lib/src/legendre_gauss_quadrature.c : leggauss_quad
  integrate/integrate.pyx     : trapz_quad, trapz2d_points, simps2d_points
One obligation per (function, index arm): the polynomial the arm returns
(symbolic in flags, xi / xi1,xi2 / c0,c1) equals the spec polynomial.
"""
import os
import random
import sys
import time
from fractions import Fraction
from multiprocessing import Pool

from ..core import REPO, run_check, CheckerError
from ..poly import P, close, mono_text
from .. import bardell_spec as B
from ..ctables import CFile, CParseError

SRC = os.path.join(REPO, 'compmech', 'lib', 'src')
REL = Fraction(5, 10 ** 14)
NIDX = 30


def _bad_detail(bad, limit=4):
    return [{'monomial': mono_text(m), 'code': float(a), 'spec': float(b)} for m, a, b in bad[:limit]]


# ---------------------------------------------------------------------------
def job_integral(arg):
    fname, func, fam, kind = arg
    path = os.path.join(SRC, fname)
    out = []
    try:
        cf = CFile(path)
    except (CParseError, OSError) as e:
        return [('parse:%s' % fname, 'error', None, str(e), func)]
    if func not in cf.funcs:
        return [('parse:%s' % fname, 'error', None, 'function %s not found' % func, func)]
    names = B.XN + B.YN + {'full': (), '12': ('xi1', 'xi2'), 'c0c1': ('c0', 'c1')}[kind]
    # parameter order is part of the contract (call sites pass positionally)
    want = {'full': ['i', 'j'], '12': ['xi1', 'xi2', 'i', 'j'], 'c0c1': ['c0', 'c1', 'i', 'j']}[kind] + list(B.XN + B.YN)
    got = [p[1] for p in cf.funcs[func].params]
    where = '%s:%s' % (fname, func)
    if got != want:
        out.append(('%s/signature' % where, 'fail', cf.funcs[func].line,
                    {'expected_parameters': want, 'found': got}, where))
    else:
        out.append(('%s/signature' % where, 'ok', cf.funcs[func].line, None, where))
    env = {n: P.atom(n) for n in names}
    spec_fn = {'full': B.spec_full, '12': B.spec_12, 'c0c1': B.spec_c0c1}[kind]
    for i in range(NIDX):
        for j in range(NIDX):
            try:
                v, line, _ = cf.run(func, {'i': i, 'j': j}, env)
            except CParseError as e:
                out.append(('%s[%d,%d]' % (where, i, j), 'error', None, str(e), where))
                continue
            if v is None:
                out.append(('%s[%d,%d]' % (where, i, j), 'fail', line, {'reason': 'no value returned (falls off the end)'}, where))
                continue
            s = spec_fn(fam, i, j)
            ok, bad = close(v, s, REL)
            if ok:
                out.append(('%s[%d,%d]' % (where, i, j), 'ok', line, None, where))
            else:
                out.append(('%s[%d,%d]' % (where, i, j), 'fail', line,
                            {'residual': _bad_detail(bad), 'n_bad_monomials': len(bad),
                             'witness': _witness(v, s, names)}, where))
    return out


def _witness(code, spec, names, tries=12):
    """a rational point where code and spec differ measurably"""
    rnd = random.Random(12345)
    diff = code - spec
    best = None
    for _ in range(tries):
        env = {}
        for n in names:
            if n in ('xi1',):
                env[n] = Fraction(rnd.randint(-9, 0), 10)
            elif n == 'xi2':
                env[n] = Fraction(rnd.randint(1, 10), 10)
            elif n in ('c0',):
                env[n] = Fraction(rnd.randint(-4, 4), 10)
            elif n == 'c1':
                env[n] = Fraction(rnd.randint(1, 5), 10)
            elif n == 'xi':
                env[n] = Fraction(rnd.randint(-10, 10), 10)
            else:
                env[n] = Fraction(1)
        try:
            d = diff.evalf(env)
            sv = spec.evalf(env)
        except KeyError:
            return None
        if best is None or abs(d) > best[0]:
            best = (abs(d), {k: str(v) for k, v in env.items()}, float(sv), float(sv + d))
    if best is None or best[0] == 0:
        return None
    return {'inputs': best[1], 'spec_value': best[2], 'code_value_symbolic': best[3]}


# ---------------------------------------------------------------------------
def job_functions(_):
    fname = 'bardell_functions.c'
    path = os.path.join(SRC, fname)
    out = []
    try:
        cf = CFile(path)
    except (CParseError, OSError) as e:
        return [('parse:%s' % fname, 'error', None, str(e), fname)]
    names = ('xi', 'xi1t', 'xi1r', 'xi2t', 'xi2r')
    env = {n: P.atom(n) for n in names}
    for order, suffix in ((0, 'f'), (1, 'fxi'), (2, 'fxixi')):
        vf = 'calc_vec_' + suffix
        sf = 'calc_' + suffix
        for func in (vf, sf):
            if func not in cf.funcs:
                out.append(('%s:%s' % (fname, func), 'error', None, 'function missing', fname))
        if vf in cf.funcs:
            where = '%s:%s' % (fname, vf)
            want = [suffix, 'xi', 'xi1t', 'xi1r', 'xi2t', 'xi2r']
            got = [p[1] for p in cf.funcs[vf].params]
            out.append(('%s/signature' % where, 'ok' if got == want else 'fail', cf.funcs[vf].line,
                        None if got == want else {'expected_parameters': want, 'found': got}, where))
            try:
                _, _, arrays = cf.run(vf, {}, env)
            except CParseError as e:
                out.append((where, 'error', None, str(e), where))
                arrays = {}
            arr = arrays.get(suffix, {})
            for i in range(NIDX):
                s = B.spec_f(i, order)
                if i not in arr:
                    out.append(('%s[%d]' % (where, i), 'fail', None, {'reason': 'entry never assigned'}, where))
                    continue
                ok, bad = close(arr[i], s, REL)
                out.append(('%s[%d]' % (where, i), 'ok' if ok else 'fail', None,
                            None if ok else {'residual': _bad_detail(bad), 'witness': _witness(arr[i], s, names)}, where))
            extra = sorted(k for k in arr if k >= NIDX or k < 0)
            out.append(('%s/frame' % where, 'ok' if not extra and set(arrays) <= {suffix} else 'fail', None,
                        None if not extra else {'reason': 'writes outside 0..29', 'indices': extra}, where))
        if sf in cf.funcs:
            where = '%s:%s' % (fname, sf)
            want = ['i', 'xi', 'xi1t', 'xi1r', 'xi2t', 'xi2r']
            got = [p[1] for p in cf.funcs[sf].params]
            out.append(('%s/signature' % where, 'ok' if got == want else 'fail', cf.funcs[sf].line,
                        None if got == want else {'expected_parameters': want, 'found': got}, where))
            for i in range(NIDX):
                try:
                    v, line, _ = cf.run(sf, {'i': i}, env)
                except CParseError as e:
                    out.append(('%s[%d]' % (where, i), 'error', None, str(e), where))
                    continue
                s = B.spec_f(i, order)
                if v is None:
                    out.append(('%s[%d]' % (where, i), 'fail', line, {'reason': 'no value returned'}, where))
                    continue
                ok, bad = close(v, s, REL)
                out.append(('%s[%d]' % (where, i), 'ok' if ok else 'fail', line,
                            None if ok else {'residual': _bad_detail(bad), 'witness': _witness(v, s, names)}, where))
    return out


# ---------------------------------------------------------------------------
def job_gauss(n):
    fname = 'legendre_gauss_quadrature.c'
    path = os.path.join(SRC, fname)
    where = '%s:leggauss_quad' % fname
    out = []
    try:
        cf = job_gauss.cf if getattr(job_gauss, 'cf', None) else CFile(path)
        job_gauss.cf = cf
        _, _, arrays = cf.run('leggauss_quad', {'n': n}, {})
    except (CParseError, OSError, KeyError) as e:
        return [('%s[n=%d]' % (where, n), 'error', None, str(e), where)]
    pts = arrays.get('points', {})
    wts = arrays.get('weights', {})
    name = '%s[n=%d]' % (where, n)
    if sorted(pts) != list(range(n)) or sorted(wts) != list(range(n)):
        return [(name + '/shape', 'fail', None, {'reason': 'points/weights indices written', 'points': sorted(pts), 'weights': sorted(wts)}, where)]
    x = [pts[k].const_value() for k in range(n)]
    w = [wts[k].const_value() for k in range(n)]
    ok = all(x[k] < x[k + 1] for k in range(n - 1)) and x[0] > -1 and x[-1] < 1
    out.append((name + '/ordered-in-(-1,1)', 'ok' if ok else 'fail', None, None if ok else {'points': [float(v) for v in x]}, where))
    ok = all(v > 0 for v in w)
    out.append((name + '/weights-positive', 'ok' if ok else 'fail', None, None if ok else {'weights': [float(v) for v in w]}, where))
    ok = all(x[k] == -x[n - 1 - k] and w[k] == w[n - 1 - k] for k in range(n))
    out.append((name + '/symmetric', 'ok' if ok else 'fail', None, None if ok else {'reason': 'x_k != -x_{n-1-k} or w_k != w_{n-1-k}'}, where))
    eps = Fraction(1, 2 ** 53)
    xp = [Fraction(1)] * n
    worst = None
    nbad = 0
    for d in range(2 * n):
        mom = sum(wk * xk for wk, xk in zip(w, xp))
        exact = Fraction(2, d + 1) if d % 2 == 0 else Fraction(0)
        tol = 4 * (d + 1) * eps
        if abs(mom - exact) > tol:
            nbad += 1
            if worst is None:
                worst = {'degree': d, 'quadrature': float(mom), 'exact': float(exact), 'tolerance': float(tol)}
        xp = [a * b for a, b in zip(xp, x)]
    out.append((name + '/moments-0..%d' % (2 * n - 1), 'ok' if not nbad else 'fail', None,
                None if not nbad else {'first_failing_moment': worst, 'failing_degrees': nbad}, where))
    return out


JOBS_INT = ([('bardell.c', 'integral_' + f, f, 'full') for f in ('ff', 'ffxi', 'ffxixi', 'fxifxi', 'fxifxixi', 'fxixifxixi')]
            + [('bardell_integral_%s_12.c' % f, 'integral_%s_12' % f, f, '12') for f in ('ff', 'ffxi', 'ffxixi', 'fxifxi', 'fxifxixi', 'fxixifxixi')]
            + [('bardell_integral_%s_c0c1.c' % f, 'integral_%s_c0c1' % f, f, 'c0c1') for f in ('ff', 'ffxi', 'fxif', 'fxifxi', 'fxixifxixi')])


def replay_arm(res):
    """run the real C function at the witness point"""
    name, status, line, detail, where = res
    if detail and 'leggauss_quad' in where:
        return replay_gauss(name, detail)
    if not detail or not detail.get('witness'):
        return None
    try:
        from ..creplay import compile_c, call_double
        fname, func = where.split(':')
        lib = compile_c(os.path.join(SRC, fname))
        inp = detail['witness']['inputs']
        idx = name[name.index('[') + 1:name.index(']')].split(',')
        vals = {k: float(Fraction(v)) for k, v in inp.items()}
        if func.startswith('integral_'):
            lead = [n for n in ('xi1', 'xi2', 'c0', 'c1') if n in vals]
            sig = 'd' * len(lead) + 'ii' + 'd' * 8
            args = [vals[n] for n in lead] + [int(idx[0]), int(idx[1])] + [vals[n] for n in B.XN + B.YN]
        elif func.startswith('calc_vec_'):
            return {'reproduced': False, 'note': 'vector function: symbolic residual only'}
        else:
            sig = 'id' + 'd' * 4
            args = [int(idx[0]), vals['xi']] + [vals[n] for n in ('xi1t', 'xi1r', 'xi2t', 'xi2r')]
        real = call_double(lib, func, sig, args)
        specv = detail['witness']['spec_value']
        scale = max(abs(specv), 1e-300)
        rep = abs(real - specv) > 1e-12 * max(scale, abs(real)) and abs(real - specv) > 0
        return {'reproduced': bool(rep), 'real_function': func, 'compiled_from': os.path.join(SRC, fname),
                'args': args, 'real_value': real, 'spec_value': specv}
    except Exception as e:  # replay is best effort
        return {'reproduced': False, 'note': 'replay failed: %r' % (e,)}


def replay_gauss(name, detail):
    try:
        import ctypes
        from ..creplay import compile_c
        n = int(name[name.index('[n=') + 3:name.index(']')])
        lib = compile_c(os.path.join(SRC, 'legendre_gauss_quadrature.c'))
        pts = (ctypes.c_double * n)()
        wts = (ctypes.c_double * n)()
        lib.leggauss_quad.restype = None
        lib.leggauss_quad(ctypes.c_int(n), pts, wts)
        worst = None
        for d in range(2 * n):
            q = sum(w * x ** d for w, x in zip(wts, pts))
            exact = 2.0 / (d + 1) if d % 2 == 0 else 0.0
            tol = 4 * (d + 1) * 2.0 ** -53 + 1e-15
            if abs(q - exact) > tol and worst is None:
                worst = {'degree': d, 'real_quadrature_of_x^d': q, 'exact_integral': exact}
        sym = all(pts[k] == -pts[n - 1 - k] and wts[k] == wts[n - 1 - k] for k in range(n))
        return {'reproduced': worst is not None or not sym, 'real_function': 'leggauss_quad', 'n': n,
                'first_inexact_monomial': worst, 'symmetric': sym, 'points': list(pts), 'weights': list(wts)}
    except Exception as e:
        return {'reproduced': False, 'note': 'replay failed: %r' % (e,)}


def body(led):
    led.assume('C10: doubles are the exact binary64 values of the literals; arithmetic inside a table arm is real arithmetic')
    led.assume('C10: Gauss-Legendre exactness is checked to the first-order rounding bound 4(d+1)*2^-53 of the moment of degree d')
    led.trust('gcc translates the parsed C subset according to the C standard (replay only)')
    t = time.time()
    with Pool(min(16, os.cpu_count() or 4)) as pool:
        r_int = pool.map_async(job_integral, JOBS_INT, chunksize=1)
        r_fun = pool.map_async(job_functions, [0])
        r_g = pool.map_async(job_gauss, list(range(2, 65)), chunksize=4)
        results = [x for chunk in r_int.get() for x in chunk]
        results += [x for chunk in r_fun.get() for x in chunk]
        results += [x for chunk in r_g.get() for x in chunk]
    led.solver_time('normal-form', time.time() - t)
    seen_where = set()
    fails = []
    for res in results:
        name, status, line, detail, where = res
        if where not in seen_where:
            seen_where.add(where)
            led.function('compmech/lib/src/' + where)
        if status == 'ok':
            led.ok(name, where, sample=None)
        elif status == 'error':
            led.error('%s: %s' % (name, detail))
        else:
            fails.append(res)
    for res in fails[:50]:
        name, status, line, detail, where = res
        rep = replay_arm(res)
        led.fail(name, where, {'line': line, **(detail or {})}, replay=rep)
    for res in fails[50:]:
        led.fail(res[0], res[4], {'line': res[2], **(res[3] or {})}, replay=None)
    # integrate.pyx part
    from . import c10_integrate
    c10_integrate.body(led)
    # z3 re-check of a seeded sample + canary
    z3_recheck(led)
    led.samples.append({'obligation': 'bardell.c:integral_ffxi[0,1]', 'spec': B.spec_full('ffxi', 0, 1).text(),
                        'meaning': 'int_-1^1 f_0*f_1\' dxi * x1t*y1r'})
    led.extra['exhaustive'] = True
    led.extra['explanation'] = ('finite index domain 0..29 (x 0..29) enumerated completely; each arm is a symbolic '
                                'polynomial identity in flags / xi / (xi1,xi2) / (c0,c1), i.e. for all real values')


def z3_recheck(led):
    from .. import smt
    rnd = random.Random(led.seed)
    n = 40 if led.tier == 'quick' else 400
    cache = {}
    done = 0
    for _ in range(n):
        fname, func, fam, kind = rnd.choice(JOBS_INT)
        i, j = rnd.randrange(NIDX), rnd.randrange(NIDX)
        if fname not in cache:
            cache[fname] = CFile(os.path.join(SRC, fname))
        names = B.XN + B.YN + {'full': (), '12': ('xi1', 'xi2'), 'c0c1': ('c0', 'c1')}[kind]
        env = {k: P.atom(k) for k in names}
        v, line, _ = cache[fname].run(func, {'i': i, 'j': j}, env)
        s = {'full': B.spec_full, '12': B.spec_12, 'c0c1': B.spec_c0c1}[kind](fam, i, j)
        if v is None:
            continue
        verdict, model, dt = smt.ground_close(v, s, REL)
        led.solver_time('z3', dt)
        name = 'z3-recheck/%s:%s[%d,%d]' % (fname, func, i, j)
        ok_inproc, _ = close(v, s, REL)
        if verdict == 'valid' and ok_inproc:
            led.ok(name, '%s:%s' % (fname, func), backend='z3')
            done += 1
        elif verdict == 'unknown':
            led.undecide(name, func, str(model))
        elif (verdict == 'valid') != ok_inproc:
            led.error('normal-form comparison and z3 disagree on %s' % name)
    # canary: a perturbed spec coefficient must be refuted by both engines
    s = B.spec_full('ff', 0, 0)
    pert = s * P.const(Fraction(10 ** 12 + 1, 10 ** 12))
    ok, _ = close(pert, s, REL)
    verdict, _, _ = smt.ground_close(pert, s, REL)
    led.canary('ff[0,0] scaled by 1+1e-12', (not ok) and verdict == 'invalid')


def main():
    return run_check('C10', body)


if __name__ == '__main__':
    sys.exit(main())
