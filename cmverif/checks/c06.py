"""C06 -- frequency wrapper: returned pairs satisfy K v = omega^2 M v, positive ascending, zeros on removed amplitudes.

Functions under contract: analysis/freq.py:freq ; panel/_panel.py:Panel.freq (staged)
Assumed (not verified): the contracts of eigs / eig / remove_null_cols stated in cmverif/eigctx.py.
"""
import sys
import z3

from ..core import run_check
from ..poly import P
from .. import pysym, shims, absnp, eigctx
from ..pysym import Interp, integer, real, to_z3, Cond, SymRaise
from ..absnp import AArr, T
from .c05 import mk, raise_signature, sizes_from_model, per_mode_multiple

FQ = 'compmech/analysis/freq.py:freq'


def strip_selectors(term):
    """peel column/element selections (sort permutation, >1e-6 filter, prefix) off a term: returns (base, [selectors])"""
    sels = []
    while isinstance(term, tuple) and term and term[0] == 'index':
        sels.append(term[2][-1])
        term = term[1]
    return term, list(reversed(sels))


def replay_small(mdl):
    from ..pyreplay import run_real
    script = '''
import numpy as np
from scipy.sparse import csr_matrix
from compmech.analysis import freq
rs = np.random.RandomState(3)
n, nu = payload["n"], payload["nu"]
A = rs.rand(nu, nu); Kd = np.zeros((n, n)); Kd[:nu, :nu] = A.dot(A.T) + nu*np.eye(nu)
B = rs.rand(nu, nu); Md = np.zeros((n, n)); Md[:nu, :nu] = B.dot(B.T) + np.eye(nu)
K = csr_matrix(Kd); M = csr_matrix(Md)
res = {}
for sp in (True, False):
    for rd in (False, True):
        try:
            ev, evec = freq(K, M, sparse_solver=sp, silent=True, num_eigvalues=payload["num"], reduced_dof=rd)
            res["sparse=%s,reduced_dof=%s" % (sp, rd)] = "ok %d values, modes %s" % (len(ev), evec.shape)
        except Exception as e:
            res["sparse=%s,reduced_dof=%s" % (sp, rd)] = "raised %s: %s" % (type(e).__name__, str(e)[:120])
out = {"result": res}
'''
    n, nu, num = sizes_from_model(mdl, (12, 12, 25))
    r = run_real(script, {'n': n, 'nu': nu, 'num': num})
    r['reproduced'] = any('raised' in v for v in (r.get('result') or {}).values())
    r['input'] = 'K, M SPD on the first %d of %d amplitudes (others null), num_eigvalues=%d, solver switches x reduced_dof' % (nu, n, num)
    return r


def check_freq(led):
    led.function(FQ)
    n_paths = 0
    for sparse in (True, False):
        for sort in (True, False):
            for reduced in (False, True):
                it, log = mk()
                n = integer('size')
                num = integer('num_eigvalues')
                it.facts += [to_z3(n) >= 6, to_z3(n) <= 400, to_z3(num) >= 1, to_z3(num) <= 25]
                K = AArr((n, n), 'K')
                M = AArr((n, n), 'M')
                f = it.module('compmech.analysis.freq').g['freq']
                tag = 'sparse_solver=%s,sort=%s,reduced_dof=%s' % (sparse, sort, reduced)

                def run():
                    del log[:]
                    r = it.call(f, [K, M], dict(sparse_solver=sparse, silent=True, num_eigvalues=num, sort=sort, reduced_dof=reduced))
                    return r, list(log)
                res = it.explore(run)
                n_paths += len(res)
                analyse(led, it, res, FQ, tag, sparse, 'K', 'M', replay_small)
                led.solver_time('z3-feasibility', it.solver_time)
    led.extra['paths'] = n_paths



def norm(t):
    """a + b is commutative and associative"""
    if isinstance(t, tuple) and t and t[0] == '+':
        flat = []

        def go(x):
            if isinstance(x, tuple) and x and x[0] == '+':
                for y in x[1:]:
                    go(y)
            else:
                flat.append(norm(x))
        go(t)
        return ('+',) + tuple(sorted(flat, key=repr))
    if isinstance(t, tuple):
        return tuple(norm(x) for x in t)
    return t


def base_of(t):
    while isinstance(t, tuple) and t and t[0] == 'index':
        t = t[1]
    return t


def mentions(t, what):
    if norm(t) == norm(what):
        return True
    if isinstance(t, tuple):
        return any(mentions(x, what) for x in t)
    return False


def analyse(led, it, res, func, tag, sparse, Kt, Mt, replay):
    for path, out in res:
        name = '%s[%s]' % (func, tag)
        if out[0] == 'raise':
            e = out[1]
            mdl = None
            try:
                r_, m_ = __import__('cmverif.smt', fromlist=['x']).satisfiable(list(it.facts) + [pysym.cond_z3(c) for c in path.conds])
                mdl = {str(d): str(m_[d]) for d in m_.decls() if str(d).startswith('i!')} if r_ == 'sat' else None
            except Exception:
                pass
            led.fail('%s/no-exception/%s' % (name, raise_signature(e)), func,
                     {'raises': e.tname, 'message': [str(a)[:200] for a in e.eargs], 'sizes_that_trigger_it': mdl},
                     backend='z3', signature=raise_signature(e), replay=replay(mdl) if replay else None)
            continue
        (eigvals, eigvecs), calls = out[1]
        probs = []
        solver = [c for c in calls if c['fn'] in ('eigs', 'eig')]
        if not solver:
            probs.append('no eigen-solver call')
        else:
            c = solver[-1]
            cid = calls.index(c)
            vbase, vsel = strip_selectors(getattr(eigvals, 'term', None))
            mbase, msel = strip_selectors(getattr(eigvecs, 'term', None))
            if sparse:
                if norm(c['A']) != norm(('restrict', Kt, Kt)) or norm(c['M']) != norm(('restrict', Mt, Kt)):
                    probs.append('eigs operators are A=%r M=%r, expected K and M restricted to the non-null columns of K' % (c['A'], c['M']))
                if c['kw'].get('sigma') != '-1' or c['kw'].get('which') != 'LM':
                    probs.append('eigs keywords %r, expected sigma=-1, which=LM (lowest frequencies)' % (c['kw'],))
                if vbase != ('sqrt', ('eigvals', cid)):
                    probs.append('frequencies are %r, expected sqrt of the solver values (omega^2 -> omega)' % (vbase,))
            else:
                if vbase != ('sqrt', ('/', 'swap', ('eigvals', cid), '-1')):
                    probs.append('frequencies are %r, expected sqrt(-1/nu) of the solver values of (-M) v = nu K v' % (vbase,))
                A_ok = isinstance(c['A'], tuple) and c['A'][0] == 'neg' and norm(base_of(c['A'][1])) == norm(Mt)
                B_ok = norm(base_of(c['M'])) == norm(Kt)
                if not A_ok:
                    probs.append('dense solver first operand is %r, expected -M (restricted)' % (c['A'],))
                if not B_ok:
                    probs.append('dense solver second operand is %r, expected K (restricted)' % (c['M'],))
            if not sparse:
                # active amplitudes of the dense path: exactly those with a non-zero mass column sum
                rows = None
                t_ = mbase
                if isinstance(t_, tuple) and t_ and t_[0] == 'store':
                    rows = t_[2][0]
                ok_masks = [('mask', ('cmp', '!=', ('sum', 0, Mt), z_)) for z_ in (0, '0')] + [('mask', ('cmp', '>', ('abs', ('sum', 0, Mt)), z_)) for z_ in (0, '0')]
                if rows is not None and rows not in ok_masks:
                    probs.append('modes are scattered into rows %r, expected the amplitudes whose mass column sum is non-zero' % (rows,))
            # the modes handed back are the solver's eigenvectors, scattered into the active rows of a zero array; a factor per
            # mode (a scalar, or a row vector broadcast down the columns) keeps K v = w^2 M v, anything else does not
            if isinstance(mbase, tuple) and mbase and mbase[0] == 'store':
                val = mbase[3] if len(mbase) > 3 else None
                if mbase[1] != ('zeros',):
                    probs.append('modes are scattered into %r, expected a zero array' % (mbase[1],))
                if not per_mode_multiple(val, ('eigvecs', cid)):
                    probs.append('the modes handed back are %r, expected the eigenvectors of the last solver call (up to a factor per mode)' % (val,))
                if not (isinstance(mbase[2], tuple) and len(mbase[2]) == 2 and mbase[2][1] == 'all'):
                    probs.append('modes are scattered with the selector %r, expected (active rows, all columns)' % (mbase[2],))
            elif mbase != ('eigvecs', cid):
                probs.append('modes are %r, expected the solver eigenvectors scattered into the active rows' % (mbase,))
            if vsel != msel:
                probs.append('values and modes are selected differently: %r vs %r (pairing of column i with value i is lost)' % (vsel, msel))
            # ascending order (sort=True): the permutation must sort by the frequencies themselves; a key that merges neighbouring values
            # (rounding) leaves them in the solver's order
            perms = [x for x in vsel if isinstance(x, tuple) and x and x[0] == 'take' and isinstance(x[1], tuple) and x[1] and x[1][0] == 'perm']
            if 'sort=True' in tag:
                def has_round(t):
                    return isinstance(t, tuple) and ((t and t[0] == 'round') or any(has_round(y) for y in t))
                nm_asc = name + '/ascending-order'
                if not perms:
                    led.fail(nm_asc, func, {'differences': ['sort=True but the values are not permuted by a sort']}, signature='no-sort')
                elif not (isinstance(perms[0][1][1], tuple) and len(perms[0][1][1]) >= 1 and isinstance(perms[0][1][1][-1], tuple)
                          and perms[0][1][1][-1][:1] == ('real',) and norm(perms[0][1][1][-1][1]) == norm(vbase)):
                    led.fail(nm_asc, func, {'differences': ['the primary sort key (the last key of lexsort) is %r, expected the real part of the frequencies themselves'
                                                            % (perms[0][1][1][-1] if perms[0][1][1] else None,)]}, signature='sort-key-order')
                elif has_round(perms[0]):
                    led.fail(nm_asc, func, {'differences': ['the sort key is rounded (%r): frequencies closer than the rounding step keep the order of the eigen-solver, '
                                                            'which is not ascending in general' % (perms[0][1][1],)]}, signature='sort-key-rounded', replay=replay_rounded_sort())
                else:
                    led.ok(nm_asc, func)
        if solver and 'sort=True' in tag:
            masks = [x for x in vsel if isinstance(x, tuple) and x and x[0] == 'mask']
            for mk_ in masks:
                c_ = mk_[1]
                if not (isinstance(c_, tuple) and len(c_) == 4 and c_[0] == 'cmp' and c_[1] == '>' and isinstance(c_[2], tuple) and c_[2][:1] == ('real',)):
                    probs.append('after sorting, the pairs are filtered by %r; the only filter of the contract keeps the pairs with a positive real part (each of them, '
                                 'also both members of a numerically split repeated frequency)' % (c_,))
        if probs:
            led.fail(name + '/post', func, {'differences': probs}, signature=';'.join(probs)[:150], replay=replay(None) if replay else None)
        else:
            led.ok(name + '/post', func)


PF = 'compmech/panel/_panel.py:Panel.freq'
_RS = {}


def replay_rounded_sort():
    if 'r' in _RS:
        return _RS['r']
    from ..pyreplay import run_real
    script = """
import numpy as np
from compmech.panel import Panel
from compmech.analysis import freq
def mk():
    p = Panel(a=15., b=12., stack=[0], plyt=1e-3, laminaprop=(70e9, 70e9, 0.3), mu=2700., m=10, n=10, model='plate_clt_donnell_bardell')
    p.w1tx = p.w2tx = p.w1ty = p.w2ty = 0.; p.w1rx = p.w2rx = p.w1ry = p.w2ry = 1.
    return p
p = mk()
k0 = p.calc_k0(silent=True); kM = p.calc_kM(silent=True)
res = {}
for n in (5, 8):
    ev, vec = freq(k0, kM, sparse_solver=True, silent=True, num_eigvalues=n)
    res['analysis.freq,num=%d' % n] = [float(x) for x in np.real(ev)[:n]]
    q = mk(); q.num_eigvalues = n; q.freq(silent=True, sparse_solver=True)
    res['Panel.freq,num=%d' % n] = [float(x) for x in np.real(q.eigvals)[:n]]
out = {'frequencies': res, 'not_ascending': [k for k, v in res.items() if any(b < a for a, b in zip(v, v[1:]))]}
"""
    r = run_real(script, {})
    r['reproduced'] = bool(r.get('raised') or r.get('not_ascending'))
    r['input'] = 'simply supported aluminium sheet 15 m x 12 m x 1 mm, m=n=10, sparse route, 5 and 8 frequencies requested (0.6928 and 0.7140 rad/s share the rounded key 0.7)'
    _RS['r'] = r
    return r


def replay_panel_small(mdl):
    from ..pyreplay import run_real
    script = """
from compmech.panel import Panel
res = {}
for sp in (True, False):
    for rd in (False, True):
        p = Panel(a=1., b=0.5, stack=[0, 90], plyt=1e-3, mu=1.3e3, laminaprop=(142.5e9, 8.7e9, 0.28, 5.1e9, 5.1e9, 5.1e9), m=2, n=2)
        p.num_eigvalues = payload["num"]
        try:
            p.freq(silent=True, sparse_solver=sp, reduced_dof=rd)
            res["sparse=%s,reduced_dof=%s" % (sp, rd)] = "ok %d values, modes %s" % (len(p.eigvals), p.eigvecs.shape)
        except Exception as e:
            res["sparse=%s,reduced_dof=%s" % (sp, rd)] = "raised %s: %s" % (type(e).__name__, str(e)[:120])
out = {"result": res}
"""
    r = run_real(script, {'num': 12})
    r['reproduced'] = any('raised' in v for v in (r.get('result') or {}).values())
    r['input'] = 'simply supported plate m=n=2 (12 amplitudes, 4 active), num_eigvalues=12, solver switches x reduced_dof'
    return r


def check_panel_freq(led):
    """Panel.freq (duplicate implementation of analysis.freq): the same obligations, with K the sum of the panel's own matrices
    selected by atype (1: k0+kA+kG0, 2: k0+kA, 3: k0+kG0, 4: k0) and M = kM, each computed by the panel's calc_* method."""
    led.function(PF)
    from .. import panelctx
    want_K = {1: ('+', 'k0', 'kA', 'kG0'), 2: ('+', 'k0', 'kA'), 3: ('+', 'k0', 'kG0'), 4: 'k0'}
    want_calls = {1: {'calc_k0', 'calc_kM', 'calc_kG0', 'calc_kA'}, 2: {'calc_k0', 'calc_kM', 'calc_kA'}, 3: {'calc_k0', 'calc_kM', 'calc_kG0'}, 4: {'calc_k0', 'calc_kM'}}
    for atype in (1, 2, 3, 4):
        for sparse in (True, False):
            for sort in (True, False):
                for reduced in ((False, True) if not sparse else (False,)):
                    it, log = mk()
                    n = integer('size')
                    num = integer('num_eigvalues')
                    it.facts += [to_z3(n) >= 6, to_z3(n) <= 400, to_z3(num) >= 1, to_z3(num) <= 25]
                    mcalls = []

                    def contract(nm, attr):
                        def c(itp, a, kw):
                            mcalls.append(nm)
                            a[0].attrs[attr] = AArr((n, n), attr)
                            return a[0].attrs[attr]
                        return c
                    for nm, attr in (('calc_k0', 'k0'), ('calc_kM', 'kM'), ('calc_kG0', 'kG0'), ('calc_kA', 'kA'), ('calc_cA', 'cA')):
                        it.contracts['compmech.panel._panel.Panel.' + nm] = contract(nm, attr)
                    tag = 'atype=%d,sparse_solver=%s,sort=%s,reduced_dof=%s' % (atype, sparse, sort, reduced)

                    def run():
                        del log[:]
                        del mcalls[:]
                        p = panelctx.new_panel(it, a=real('a'), b=real('b'), stack=[real('th')], plyt=real('t'), laminaprop=(real('E'), real('E'), real('nu')))
                        p.attrs['num_eigvalues'] = num
                        it.call(it.getattr(p, 'freq'), [], dict(atype=atype, sparse_solver=sparse, silent=True, sort=sort, reduced_dof=reduced))
                        return (p.attrs.get('eigvals'), p.attrs.get('eigvecs')), list(log), set(mcalls)
                    res = it.explore(run)
                    res2 = []
                    for path, out in res:
                        if out[0] == 'return':
                            nm = '%s[%s]/matrices-computed' % (PF, tag)
                            if out[1][2] == want_calls[atype]:
                                led.ok(nm, PF)
                            else:
                                led.fail(nm, PF, {'called': sorted(out[1][2]), 'expected': sorted(want_calls[atype])}, signature='calls')
                            res2.append((path, ('return', (out[1][0], out[1][1]))))
                        else:
                            res2.append((path, out))
                    analyse(led, it, res2, PF, tag, sparse, want_K[atype], 'kM', replay_panel_small)
                    led.solver_time('z3-feasibility', it.solver_time)
                    led.extra['paths'] = led.extra.get('paths', 0) + len(res)


def lemma(led):
    kv, mv, w2, nu = z3.Reals('Kv Mv w2 nu')
    from ..smt import valid
    st, mdl, dt = valid(z3.Implies(z3.And(-mv == nu * kv, nu != 0, w2 == -1 / nu), kv == w2 * mv))
    nm = 'lemma(C06)/(-M) v = nu K v and omega^2 = -1/nu imply K v = omega^2 M v'
    led.ok(nm, 'lemma(C06)', backend='z3') if st == 'valid' else led.fail(nm, 'lemma(C06)', {'z3': str(mdl)})


def body(led):
    led.assume('C06: contracts of scipy eigs/eig and of sparse.remove_null_cols as stated in cmverif/eigctx.py (assumed, not verified)')
    led.assume('C06: solver precision, ordering returned by ARPACK, positivity of the computed values and sparse/dense agreement are not decidable by contracts')
    led.trust('cmverif symbolic executor with abstract arrays (absnp); z3 (LIA) for shape obligations')
    check_freq(led)
    check_panel_freq(led)
    lemma(led)
    _standin(led)


def _standin(led):
    from . import sparse_standin
    from . import sparse_proof
    sparse_proof.remove_null_cols_or_standin(led)


def main():
    return run_check('C06', body)


if __name__ == '__main__':
    sys.exit(main())
