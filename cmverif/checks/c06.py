"""C06 -- frequency wrapper: returned pairs satisfy K v = omega^2 M v, positive ascending, zeros on removed amplitudes.

Functions under contract: analysis/freq.py:freq ; panel/_panel.py:Panel.freq (staged)
Assumed (not verified): the contracts of eigs / eig / remove_null_cols stated in cmverif/eigctx.py.
"""
import sys
import z3

from ..core import run_check
from ..poly import P
from .. import pysym, shims, absnp, eigctx
from ..pysym import Interp, integer, real, to_z3, Cond, SymRaise
from ..absnp import AArr, T
from .c05 import mk, raise_signature, sizes_from_model

FQ = 'compmech/analysis/freq.py:freq'


def strip_selectors(term):
    """peel column/element selections (sort permutation, >1e-6 filter, prefix) off a term: returns (base, [selectors])"""
    sels = []
    while isinstance(term, tuple) and term and term[0] == 'index':
        sels.append(term[2][-1])
        term = term[1]
    return term, list(reversed(sels))


def replay_small(mdl):
    from ..pyreplay import run_real
    script = '''
import numpy as np
from scipy.sparse import csr_matrix
from compmech.analysis import freq
rs = np.random.RandomState(3)
n, nu = payload["n"], payload["nu"]
A = rs.rand(nu, nu); Kd = np.zeros((n, n)); Kd[:nu, :nu] = A.dot(A.T) + nu*np.eye(nu)
B = rs.rand(nu, nu); Md = np.zeros((n, n)); Md[:nu, :nu] = B.dot(B.T) + np.eye(nu)
K = csr_matrix(Kd); M = csr_matrix(Md)
res = {}
for sp in (True, False):
    for rd in (False, True):
        try:
            ev, evec = freq(K, M, sparse_solver=sp, silent=True, num_eigvalues=payload["num"], reduced_dof=rd)
            res["sparse=%s,reduced_dof=%s" % (sp, rd)] = "ok %d values, modes %s" % (len(ev), evec.shape)
        except Exception as e:
            res["sparse=%s,reduced_dof=%s" % (sp, rd)] = "raised %s: %s" % (type(e).__name__, str(e)[:120])
out = {"result": res}
'''
    n, nu, num = sizes_from_model(mdl, (12, 12, 25))
    r = run_real(script, {'n': n, 'nu': nu, 'num': num})
    r['reproduced'] = any('raised' in v for v in (r.get('result') or {}).values())
    r['input'] = 'K, M SPD on the first %d of %d amplitudes (others null), num_eigvalues=%d, solver switches x reduced_dof' % (nu, n, num)
    return r


def check_freq(led):
    led.function(FQ)
    n_paths = 0
    for sparse in (True, False):
        for sort in (True, False):
            for reduced in (False, True):
                it, log = mk()
                n = integer('size')
                num = integer('num_eigvalues')
                it.facts += [to_z3(n) >= 6, to_z3(n) <= 400, to_z3(num) >= 1, to_z3(num) <= 25]
                K = AArr((n, n), 'K')
                M = AArr((n, n), 'M')
                f = it.module('compmech.analysis.freq').g['freq']
                tag = 'sparse_solver=%s,sort=%s,reduced_dof=%s' % (sparse, sort, reduced)

                def run():
                    del log[:]
                    r = it.call(f, [K, M], dict(sparse_solver=sparse, silent=True, num_eigvalues=num, sort=sort, reduced_dof=reduced))
                    return r, list(log)
                res = it.explore(run)
                n_paths += len(res)
                for path, out in res:
                    name = '%s[%s]' % (FQ, tag)
                    if out[0] == 'raise':
                        e = out[1]
                        mdl = None
                        try:
                            r_, m_ = __import__('cmverif.smt', fromlist=['x']).satisfiable(list(it.facts) + [pysym.cond_z3(c) for c in path.conds])
                            mdl = {str(d): str(m_[d]) for d in m_.decls() if str(d).startswith('i!')} if r_ == 'sat' else None
                        except Exception:
                            pass
                        led.fail('%s/no-exception/%s' % (name, raise_signature(e)), FQ,
                                 {'raises': e.tname, 'message': [str(a)[:200] for a in e.eargs], 'sizes_that_trigger_it': mdl},
                                 backend='z3', signature=raise_signature(e), replay=replay_small(mdl))
                        continue
                    (eigvals, eigvecs), calls = out[1]
                    probs = []
                    solver = [c for c in calls if c['fn'] in ('eigs', 'eig')]
                    if not solver:
                        probs.append('no eigen-solver call')
                    else:
                        c = solver[-1]
                        cid = calls.index(c)
                        vbase, vsel = strip_selectors(getattr(eigvals, 'term', None))
                        mbase, msel = strip_selectors(getattr(eigvecs, 'term', None))
                        if sparse:
                            if c['A'] != ('restrict', 'K', 'K') or c['M'] != ('restrict', 'M', 'K'):
                                probs.append('eigs operators are A=%r M=%r, expected K and M restricted to the non-null columns of K' % (c['A'], c['M']))
                            if c['kw'].get('sigma') != '-1' or c['kw'].get('which') != 'LM':
                                probs.append('eigs keywords %r, expected sigma=-1, which=LM (lowest frequencies)' % (c['kw'],))
                            if vbase != ('sqrt', ('eigvals', cid)):
                                probs.append('frequencies are %r, expected sqrt of the solver values (omega^2 -> omega)' % (vbase,))
                        else:
                            if vbase != ('sqrt', ('/', 'swap', ('eigvals', cid), '-1')):
                                probs.append('frequencies are %r, expected sqrt(-1/nu) of the solver values of (-M) v = nu K v' % (vbase,))
                            A_ok = isinstance(c['A'], tuple) and c['A'][0] == 'neg'
                            if not A_ok:
                                probs.append('dense solver first operand is %r, expected -M' % (c['A'],))
                        if not sparse:
                            # active amplitudes of the dense path: exactly those with a non-zero mass column sum
                            rows = None
                            t_ = mbase
                            if isinstance(t_, tuple) and t_ and t_[0] == 'store':
                                rows = t_[2][0]
                            ok_masks = [('mask', ('cmp', '!=', ('sum', 0, 'M'), z_)) for z_ in (0, '0')] + [('mask', ('cmp', '>', ('abs', ('sum', 0, 'M')), z_)) for z_ in (0, '0')]
                            if rows is not None and rows not in ok_masks:
                                probs.append('modes are scattered into rows %r, expected the amplitudes whose mass column sum is non-zero' % (rows,))
                        if vsel != msel:
                            probs.append('values and modes are selected differently: %r vs %r (pairing of column i with value i is lost)' % (vsel, msel))
                    if probs:
                        led.fail(name + '/post', FQ, {'differences': probs}, signature=';'.join(probs)[:150], replay=replay_small(None))
                    else:
                        led.ok(name + '/post', FQ)
                led.solver_time('z3-feasibility', it.solver_time)
    led.extra['paths'] = n_paths


def lemma(led):
    kv, mv, w2, nu = z3.Reals('Kv Mv w2 nu')
    from ..smt import valid
    st, mdl, dt = valid(z3.Implies(z3.And(-mv == nu * kv, nu != 0, w2 == -1 / nu), kv == w2 * mv))
    nm = 'lemma(C06)/(-M) v = nu K v and omega^2 = -1/nu imply K v = omega^2 M v'
    led.ok(nm, 'lemma(C06)', backend='z3') if st == 'valid' else led.fail(nm, 'lemma(C06)', {'z3': str(mdl)})


def body(led):
    led.assume('C06: contracts of scipy eigs/eig and of sparse.remove_null_cols as stated in cmverif/eigctx.py (assumed, not verified)')
    led.assume('C06: solver precision, ordering returned by ARPACK, positivity of the computed values and sparse/dense agreement are not decidable by contracts')
    led.trust('cmverif symbolic executor with abstract arrays (absnp); z3 (LIA) for shape obligations')
    check_freq(led)
    lemma(led)
    _standin(led)


def _standin(led):
    from . import sparse_standin
    sparse_standin.check(led, ['remove_null_cols'])


def main():
    return run_check('C06', body)


if __name__ == '__main__':
    sys.exit(main())
