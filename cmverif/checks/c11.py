"""C11 -- recovered displacement / strain / stress fields match the Ritz series and the kinematics.

Functions under contract: Panel.uvw/strain/stress/_default_field (Python layer, symbolic execution) ; field kernels: see c11_kernel.
"""
import sys
from ..core import run_check
from . import py_fields


def body(led):
    led.assume('C11: field kernels fuvw/fstrain through their contract (per point, in order: series / Donnell relations of the amplitudes and panel attributes passed)')
    led.trust('cmverif symbolic executor; numpy object arrays for reshape/ravel/meshgrid semantics')
    py_fields.check_panel_fields(led)
    py_fields.check_assembly_fields(led)
    from . import c11_kernel
    c11_kernel.body(led)


def main():
    return run_check('C11', body)


if __name__ == '__main__':
    sys.exit(main())
