"""C11 -- recovered displacement / strain / stress fields match the Ritz series and the kinematics.

Functions under contract: Panel.uvw/strain/stress/_default_field (Python layer, symbolic execution) ; point kernels: c11_kernel; the padding / prange / flattening
wrappers fuvw, fstrain (both field modules): c11_wrap.
"""
import sys
from ..core import run_check
from . import py_fields


def body(led):
    led.assume('C11: in the Python layer fuvw/fstrain act through their contract (per point, in order: series / Donnell relations of the amplitudes and '
               'panel attributes passed); that contract is itself proved: point kernels in c11_kernel, padding / chunking / flattening wrappers in c11_wrap')
    led.trust('cmverif symbolic executor; numpy object arrays for reshape/ravel/meshgrid semantics')
    py_fields.check_panel_fields(led)
    py_fields.check_assembly_fields(led)
    py_fields.check_bay_fields(led)
    from . import c11_kernel
    c11_kernel.body(led)
    from . import c11_wrap
    c11_wrap.body(led)
    if getattr(led, 'tier', 'quick') == 'thorough':
        from . import binary_xcheck
        binary_xcheck.check_fields(led)


def main():
    return run_check('C11', body)


if __name__ == '__main__':
    sys.exit(main())
