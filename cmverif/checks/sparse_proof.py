"""compmech/sparse.py: make_symmetric, make_skew_symmetric, finalize_symmetric_matrix proved for every COO input (generic stored
entry, cmverif/segcoo.py) instead of the bounded run-time stand-in.

Contract (U = the part of the input on or above the diagonal, duplicates summed):
    make_symmetric(m)      == U + strict_upper(U)^T
    make_skew_symmetric(m) == U - strict_upper(U)^T
    finalize_symmetric_matrix(M) == csr_matrix(make_symmetric(M))      (conversion keeps the dense value)
entries below the diagonal are ignored; the result has the shape of the input; a non-square input raises ValueError.
"""
from ..poly import P, normal
from ..pycheck import keep_matrix as _keep_matrix
from .. import pysym, shims, segcoo
from ..pysym import Interp, integer, real, to_z3, SymRaise

SP = 'compmech/sparse.py:'


def check(led, functions=('make_symmetric', 'make_skew_symmetric', 'finalize_symmetric_matrix')):
    from ..core import CheckerError
    from ..parallel import Rec
    for fn in functions:
        rec = Rec(getattr(led, 'tier', 'quick'), getattr(led, 'known', ()))
        try:
            _check_one(rec, fn)
        except CheckerError as e:
            # the function is written in a way the generic-entry model does not cover: fall back to the bounded run-time stand-in
            from . import sparse_standin
            led.bounded_item('compmech/sparse.py %s: outside the generic-entry model (%s); bounded run-time stand-in used instead' % (fn, str(e)[:120]))
            sparse_standin.check(led, [fn])
            continue
        rec.replay_into(led)
    led.assume('sparse.py proofs: numpy boolean-mask selection, concatenate, where, fancy assignment over distinct indices and scipy coo -> dense '
               '(sum of the stored entries) as stated in cmverif/segcoo.py')


def _check_one(led, fn):
    if True:
        func = SP + fn
        led.function(func)
        it = Interp()
        shims.install(it)
        segcoo.install(it)
        it.contracts['scipy.sparse.csr_matrix'] = _keep_matrix
        n = integer('n')
        it.facts += [to_z3(n) >= 1]
        f = it.module('compmech.sparse').g[fn]
        holder = {}

        def run():
            m, (R, C, V) = segcoo.new_input(n)
            holder['rcv'] = (R, C, V)
            # case split on the position of the generic entry, so that every path is about one of the three positions
            if not it.truth(pysym.compare('<', C, R)):
                it.truth(pysym.compare('==', C, R))
            return it.call(f, [m], {})
        R, C, V = integer('R'), integer('C'), real('V')
        saved = list(it.facts)
        it.facts += [to_z3(R) >= 0, to_z3(R) < to_z3(n), to_z3(C) >= 0, to_z3(C) < to_z3(n)]
        res = it.explore(run)
        it.facts[:] = saved
        sign = -1 if fn == 'make_skew_symmetric' else 1
        seen = set()
        for path, out in res:
            if out[0] != 'return':
                led.fail('%s/no-exception' % func, func, {'raises': out[1].tname, 'message': [str(a)[:100] for a in out[1].eargs]}, signature='raise')
                continue
            o = out[1]
            conds = [repr(c) for c in path.conds]
            # classify the path by the position of the generic entry relative to the diagonal
            def implied(c):
                import z3
                s = z3.Solver()
                for f_ in it.facts:
                    s.add(f_)
                for c_ in path.conds:
                    s.add(pysym.cond_z3(c_) if isinstance(c_, pysym.Cond) else c_)
                s.add(z3.Not(c))
                return s.check() == z3.unsat
            zR, zC = to_z3(R), to_z3(C)
            if implied(zC < zR):
                case, want = 'below-diagonal', []
            elif implied(zC == zR):
                case, want = 'diagonal', [(R, C, V)]
            elif implied(zC > zR):
                case, want = 'above-diagonal', [(R, C, V), (C, R, V * sign)]
            else:
                led.undecide('%s/path-classified' % func, func, 'path conditions %s do not fix the position of the entry' % conds)
                continue
            seen.add(case)
            got = []
            if not isinstance(o, segcoo.SegCOO):
                led.fail('%s[%s]/returns-coo' % (func, case), func, {'returned': repr(o)[:100]}, signature='ret')
                continue
            if o.row.alive:
                for r_, c_, v_ in zip(o.row.segs, o.col.segs, o.data.segs):
                    if normal(v_).is_zero():
                        continue           # explicit zeros do not change the dense value
                    got.append((normal(r_).text(), normal(c_).text(), normal(v_).text()))
            wantk = sorted((normal(a).text(), normal(b).text(), normal(c).text()) for a, b, c in want)
            name = '%s[%s]/stored-entries' % (func, case)
            if sorted(got) == wantk:
                led.ok(name, func)
            else:
                led.fail(name, func, {'entries produced from (R, C, V)': sorted(got), 'expected': wantk}, signature='entries:' + case)
            shp = o.shape
            nm = '%s[%s]/shape' % (func, case)
            if isinstance(shp, tuple) and len(shp) == 2 and all(normal((x if isinstance(x, P) else P.const(x)) - n).is_zero() for x in shp):
                led.ok(nm, func)
            else:
                led.fail(nm, func, {'shape': repr(shp)}, signature='shape')
        nm = '%s/all-three-positions-reached' % func
        if seen == {'below-diagonal', 'diagonal', 'above-diagonal'}:
            led.ok(nm, func)
        else:
            led.fail(nm, func, {'reached': sorted(seen)}, signature='cases')
        # non-square input
        it2 = Interp()
        shims.install(it2)
        segcoo.install(it2)
        it2.contracts['scipy.sparse.csr_matrix'] = _keep_matrix
        f2 = it2.module('compmech.sparse').g[fn]

        def run2():
            m, _ = segcoo.new_input(n)
            m.shape = (n, n + 1)
            return it2.call(f2, [m], {})
        r2 = it2.explore(run2)
        nm = '%s/non-square-input-raises-ValueError' % func
        if all(o[0] == 'raise' and o[1].tname == 'ValueError' for _, o in r2) and r2:
            led.ok(nm, func)
        else:
            led.fail(nm, func, {'outcomes': [o[0] for _, o in r2]}, signature='nonsquare')
        led.solver_time('z3-feasibility', it.solver_time)


def check_remove_null_cols(led):
    _remove_null_cols(led)


def remove_null_cols_or_standin(led):
    """proof; bounded run-time stand-in if the function is rewritten outside the abstract-array model"""
    from ..core import CheckerError
    from ..parallel import Rec
    rec = Rec(getattr(led, 'tier', 'quick'), getattr(led, 'known', ()))
    try:
        _remove_null_cols(rec)
    except CheckerError as e:
        from . import sparse_standin
        led.bounded_item('compmech/sparse.py remove_null_cols: outside the abstract-array model (%s); bounded run-time stand-in used instead' % str(e)[:120])
        sparse_standin.check(led, ['remove_null_cols'])
        return
    rec.replay_into(led)
    led.assume('remove_null_cols proof: csr_matrix(x) keeps the matrix, m.nonzero() lists the positions of the non-zero entries, np.unique sorts and '
               'removes duplicates, fancy indexing with an index vector takes those rows / columns in order; the first matrix is symmetric')


def _remove_null_cols(led):
    """compmech/sparse.py:remove_null_cols executed on abstract matrices: for every argument X_i the result is X_i[U, :][:, U] with
    U = unique(column indices of the stored non-zeros of X_0), and U is returned last -- the definition behind the contract
    ('restrict', X_i, X_0) / ('used_cols', X_0) that the eigen-wrapper checks (C05, C06, C07) use.
    Trusted numpy / scipy semantics: csr_matrix(x) keeps the matrix; m.nonzero() lists the positions of the non-zero entries; np.unique
    sorts and removes duplicates; fancy indexing with an index vector takes those rows / columns in order."""
    from .. import absnp
    from ..absnp import AArr, fresh_int
    from ..pysym import compare
    func = SP + 'remove_null_cols'
    led.function(func)
    for nargs, as_csr in ((1, True), (2, True), (3, False)):
        it = Interp()
        shims.install(it)
        absnp.install(it)
        n = integer('size')
        it.facts += [to_z3(n) >= 1]

        class CsrT(object):
            def __init__(self, csr):
                self.csr = csr

            def sym_isinstance(self, interp, o):
                return isinstance(o, AArr) and self.csr

            def __call__(self, x):
                return x
        csr_t = CsrT(as_csr)
        it.contracts['scipy.sparse.csr_matrix'] = _keep_matrix
        it.shims['scipy.sparse.csr_matrix'] = csr_t
        it.contracts['compmech.logger.log'] = lambda itp, a, kw: None

        def nonzero_of(arr):
            def f():
                nnz = fresh_int('nnz', 0, None, it)
                return (AArr((nnz,), ('nz-rows', arr.term), 'int'), AArr((nnz,), ('nz-cols', arr.term), 'int'))
            return f
        old_getattr = AArr.sym_getattr

        def patched(self, itp, name):
            if name == 'nonzero':
                return nonzero_of(self)
            return old_getattr(self, itp, name)
        AArr.sym_getattr = patched

        def unique(x):
            nu = fresh_int('n_used', 0, None, it)
            it.path.conds.append(compare('<=', nu, n))
            return AArr((nu,), ('unique', x.term), 'int')
        it.np.unique = unique
        f = it.module('compmech.sparse').g['remove_null_cols']
        mats = [AArr((n, n), 'X%d' % k) for k in range(nargs)]
        try:
            res = it.explore(lambda: it.call(f, list(mats), dict(silent=True)))
        finally:
            AArr.sym_getattr = old_getattr
        tag = '%d matrices,%s' % (nargs, 'csr input' if as_csr else 'other sparse input')
        for path, out in res:
            name = '%s[%s]' % (func, tag)
            if out[0] != 'return':
                led.fail(name + '/no-exception', func, {'raises': out[1].tname, 'message': [str(a)[:120] for a in out[1].eargs]}, signature='raise')
                continue
            r = out[1]
            probs = []
            U = ('unique', ('nz-cols', 'X0'))
            # the first matrix is symmetric (precondition stated in the function's docstring and by C05/C06): its non-null rows are its
            # non-null columns, so an index set taken from the row indices is the same set
            if isinstance(r, list) and r and isinstance(r[-1], AArr) and r[-1].term == ('unique', ('nz-rows', 'X0')):
                U = ('unique', ('nz-rows', 'X0'))
            if not isinstance(r, list) or len(r) != nargs + 1:
                probs.append('returns %r' % (type(r).__name__,))
            else:
                for k, m in enumerate(r[:-1]):
                    want = ('index', ('index', 'X%d' % k, (('take', U), 'all')), ('all', ('take', U)))
                    if not isinstance(m, AArr) or m.term != want:
                        probs.append('matrix %d is %r, expected X%d[U, :][:, U]' % (k, getattr(m, 'term', m), k))
                    elif len(m.shape) != 2 or not all(normal(d - r[-1].shape[0]).is_zero() for d in m.shape):
                        probs.append('matrix %d has shape %s' % (k, [str(d) for d in m.shape]))
                if not isinstance(r[-1], AArr) or r[-1].term != U:
                    probs.append('last result is %r, expected U = unique(columns of the non-zeros of the first matrix)' % (getattr(r[-1], 'term', r[-1]),))
            if probs:
                led.fail(name, func, {'differences': probs}, signature=';'.join(probs)[:120])
            else:
                led.ok(name, func)
        led.solver_time('z3-feasibility', it.solver_time)
