"""compmech/sparse.py: make_symmetric, make_skew_symmetric, finalize_symmetric_matrix proved for every COO input (generic stored
entry, cmverif/segcoo.py) instead of the bounded run-time stand-in.

Contract (U = the part of the input on or above the diagonal, duplicates summed):
    make_symmetric(m)      == U + strict_upper(U)^T
    make_skew_symmetric(m) == U - strict_upper(U)^T
    finalize_symmetric_matrix(M) == csr_matrix(make_symmetric(M))      (conversion keeps the dense value)
entries below the diagonal are ignored; the result has the shape of the input; a non-square input raises ValueError.
"""
from ..poly import P, normal
from .. import pysym, shims, segcoo
from ..pysym import Interp, integer, real, to_z3, SymRaise

SP = 'compmech/sparse.py:'


def check(led, functions=('make_symmetric', 'make_skew_symmetric', 'finalize_symmetric_matrix')):
    from ..core import CheckerError
    from ..parallel import Rec
    for fn in functions:
        rec = Rec(getattr(led, 'tier', 'quick'), getattr(led, 'known', ()))
        try:
            _check_one(rec, fn)
        except CheckerError as e:
            # the function is written in a way the generic-entry model does not cover: fall back to the bounded run-time stand-in
            from . import sparse_standin
            led.bounded_item('compmech/sparse.py %s: outside the generic-entry model (%s); bounded run-time stand-in used instead' % (fn, str(e)[:120]))
            sparse_standin.check(led, [fn])
            continue
        rec.replay_into(led)
    led.assume('sparse.py proofs: numpy boolean-mask selection, concatenate, where, fancy assignment over distinct indices and scipy coo -> dense '
               '(sum of the stored entries) as stated in cmverif/segcoo.py')


def _check_one(led, fn):
    if True:
        func = SP + fn
        led.function(func)
        it = Interp()
        shims.install(it)
        segcoo.install(it)
        it.contracts['scipy.sparse.csr_matrix'] = lambda itp, a, kw: a[0]
        n = integer('n')
        it.facts += [to_z3(n) >= 1]
        f = it.module('compmech.sparse').g[fn]
        holder = {}

        def run():
            m, (R, C, V) = segcoo.new_input(n)
            holder['rcv'] = (R, C, V)
            # case split on the position of the generic entry, so that every path is about one of the three positions
            if not it.truth(pysym.compare('<', C, R)):
                it.truth(pysym.compare('==', C, R))
            return it.call(f, [m], {})
        R, C, V = integer('R'), integer('C'), real('V')
        saved = list(it.facts)
        it.facts += [to_z3(R) >= 0, to_z3(R) < to_z3(n), to_z3(C) >= 0, to_z3(C) < to_z3(n)]
        res = it.explore(run)
        it.facts[:] = saved
        sign = -1 if fn == 'make_skew_symmetric' else 1
        seen = set()
        for path, out in res:
            if out[0] != 'return':
                led.fail('%s/no-exception' % func, func, {'raises': out[1].tname, 'message': [str(a)[:100] for a in out[1].eargs]}, signature='raise')
                continue
            o = out[1]
            conds = [repr(c) for c in path.conds]
            # classify the path by the position of the generic entry relative to the diagonal
            def implied(c):
                import z3
                s = z3.Solver()
                for f_ in it.facts:
                    s.add(f_)
                for c_ in path.conds:
                    s.add(pysym.cond_z3(c_) if isinstance(c_, pysym.Cond) else c_)
                s.add(z3.Not(c))
                return s.check() == z3.unsat
            zR, zC = to_z3(R), to_z3(C)
            if implied(zC < zR):
                case, want = 'below-diagonal', []
            elif implied(zC == zR):
                case, want = 'diagonal', [(R, C, V)]
            elif implied(zC > zR):
                case, want = 'above-diagonal', [(R, C, V), (C, R, V * sign)]
            else:
                led.undecide('%s/path-classified' % func, func, 'path conditions %s do not fix the position of the entry' % conds)
                continue
            seen.add(case)
            got = []
            if not isinstance(o, segcoo.SegCOO):
                led.fail('%s[%s]/returns-coo' % (func, case), func, {'returned': repr(o)[:100]}, signature='ret')
                continue
            if o.row.alive:
                for r_, c_, v_ in zip(o.row.segs, o.col.segs, o.data.segs):
                    if normal(v_).is_zero():
                        continue           # explicit zeros do not change the dense value
                    got.append((normal(r_).text(), normal(c_).text(), normal(v_).text()))
            wantk = sorted((normal(a).text(), normal(b).text(), normal(c).text()) for a, b, c in want)
            name = '%s[%s]/stored-entries' % (func, case)
            if sorted(got) == wantk:
                led.ok(name, func)
            else:
                led.fail(name, func, {'entries produced from (R, C, V)': sorted(got), 'expected': wantk}, signature='entries:' + case)
            shp = o.shape
            nm = '%s[%s]/shape' % (func, case)
            if isinstance(shp, tuple) and len(shp) == 2 and all(normal((x if isinstance(x, P) else P.const(x)) - n).is_zero() for x in shp):
                led.ok(nm, func)
            else:
                led.fail(nm, func, {'shape': repr(shp)}, signature='shape')
        nm = '%s/all-three-positions-reached' % func
        if seen == {'below-diagonal', 'diagonal', 'above-diagonal'}:
            led.ok(nm, func)
        else:
            led.fail(nm, func, {'reached': sorted(seen)}, signature='cases')
        # non-square input
        it2 = Interp()
        shims.install(it2)
        segcoo.install(it2)
        it2.contracts['scipy.sparse.csr_matrix'] = lambda itp, a, kw: a[0]
        f2 = it2.module('compmech.sparse').g[fn]

        def run2():
            m, _ = segcoo.new_input(n)
            m.shape = (n, n + 1)
            return it2.call(f2, [m], {})
        r2 = it2.explore(run2)
        nm = '%s/non-square-input-raises-ValueError' % func
        if all(o[0] == 'raise' and o[1].tname == 'ValueError' for _, o in r2) and r2:
            led.ok(nm, func)
        else:
            led.fail(nm, func, {'outcomes': [o[0] for _, o in r2]}, signature='nonsquare')
        led.solver_time('z3-feasibility', it.solver_time)
