"""C14(d): numerically integrated kernels at NLgeom=0 have the analytic integrand.

phi replaces every 1-D integral atom  I<o1,i,X|o2,k,Y>  of the analytic kernel value by  f_i^{(o1)}[X](pt) * f_k^{(o2)}[Y](pt)
(pt = xi for x-direction atoms, eta for y-direction ones).  Obligation:  fkL_num value at a generic point == weight * phi(fk0 value),
fkG_num == weight * phi(fkG0 value with the resultants of the state).  Equality of the integrated matrices then follows from Gauss
exactness (C10) whenever 2n-1 >= the polynomial degree of the integrand."""
import re

from ..poly import P, normal
from .. import kharness as K, spec_panel as S, kernel
from . import c08, c02, c14
from .c11_kernel import Fval

ATOM = re.compile(r'^I<(\d),([^,]+),([^|]+)\|(\d),([^,]+),([^>]+)>$')


def idx_atom(t):
    m = re.match(r'^1\*([A-Za-z_][A-Za-z_0-9]*)$', t)
    if not m:
        raise ValueError('index text %r' % t)
    return P.atom(m.group(1))


def phi(p, xi, eta):
    out = P({})
    for mono, c in normal(p).t.items():
        term = P.const(c)
        for a_, e in mono:
            m = ATOM.match(a_)
            if m is None:
                term = term * P.atom(a_) ** e
                continue
            o1, i1, f1, o2, i2, f2 = m.groups()
            fl1 = tuple(P.atom(x.split('*', 1)[1]) for x in f1.split('/'))
            fl2 = tuple(P.atom(x.split('*', 1)[1]) for x in f2.split('/'))
            pt = xi if f1.split('/')[0].endswith('x') else eta
            term = term * (Fval(int(o1), idx_atom(i1), fl1, pt) * Fval(int(o2), idx_atom(i2), fl2, pt)) ** e
        out = out + term
    return out


def body(led):
    func = 'relation(C14d): numerical integrand == analytic integrand (NLgeom=0)'
    for model in ('plate', 'cpanel'):
        ana = c14.values(model, 'fk0', [], c02.strain_form(model))
        it, res, panel, (size, row0, col0, nx, ny) = c08.run(model, 'fkL_num', 0, 'uniform')
        _, em = c08.merged_emissions(res)
        if 'values' not in ana or not em:
            led.fail('%s/%s' % (func, model), func, {'reason': 'kernel values could not be extracted'}, signature='extract')
            continue
        path, groups = em[0]
        m = panel.attrs['m']
        xi, eta = P.atom('gauss_x<1*nx>[1*ptx]'), P.atom('gauss_x<1*ny>[1*pty]')
        weight = P.atom('gauss_w<1*nx>[1*ptx]') * P.atom('gauss_w<1*ny>[1*pty]')
        num = {}
        roles = None
        for g in groups:
            lv = [v for v in g['loopvars'] if v not in ('ptx', 'pty')]
            dr = K.decode_index(g['row'], row0, 3, m, lv)
            dc = K.decode_index(g['col'], col0, 3, m, lv)
            if dr is None or dc is None:
                continue
            roles = (dr[0], dr[1], dc[0], dc[1])
            num[(dr[2], dc[2])] = num.get((dr[2], dc[2]), P.const(0)) + g['val']
        for p in range(3):
            for q in range(3):
                a_val = ana['values'].get((p, q), P.const(0))
                for old, new in zip(ana['roles'], roles or ana['roles']):
                    if old != new:
                        a_val = kernel.rename_var(a_val, old, new)
                c14.cmp(led, '%s/%s.fkL_num[%d,%d]' % (func, model, p, q), func, num.get((p, q), P.const(0)), weight * phi(a_val, xi, eta), sig='numint:%s%d%d' % (model, p, q))
