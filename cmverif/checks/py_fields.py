"""Python-layer contracts of the field-recovery methods (C11): Panel.uvw / strain / stress, PanelAssembly.uvw / strain / stress."""
import itertools
from fractions import Fraction

import numpy as np

from ..poly import P, normal
from .. import pysym, shims, panelctx, pycheck
from ..pysym import Interp, real, integer, Opaque, SymRaise, Obj
from ..kernel import InArray, user_array
from ..panelctx import field_atom, panel_key
from . import py_panel
from .py_panel import build, report

PF = 'compmech/panel/_panel.py:Panel.'
AF = 'compmech/panel/assembly/assembly.py:PanelAssembly.'
STRAINS = ('exx', 'eyy', 'gxy', 'kxx', 'kyy', 'kxy')
RESULTANTS = ('Nxx', 'Nyy', 'Nxy', 'Mxx', 'Myy', 'Mxy')


def points(form, kw):
    a, b = kw['a'], kw['b']
    if form == 'default-grid':
        gx, gy = 2, 3
        xs = [a * Fraction(i, gx - 1) for i in range(gx)]
        ys = [b * Fraction(j, gy - 1) for j in range(gy)]
        X = np.empty((gy, gx), dtype=object)
        Y = np.empty((gy, gx), dtype=object)
        for j in range(gy):
            for i in range(gx):
                X[j, i], Y[j, i] = xs[i], ys[j]
        return dict(gridx=gx, gridy=gy), X, Y
    if form == 'user-2d':
        X = np.array([[real('x00'), real('x01')], [real('x10'), real('x11')], [real('x20'), real('x21')]], dtype=object)
        Y = np.array([[real('y00'), real('y01')], [real('y10'), real('y11')], [real('y20'), real('y21')]], dtype=object)
        return dict(xs=X, ys=Y), X, Y
    if form == 'user-2d-fortran':
        # the same kind of input stored column-major (X.T of a meshgrid, np.asfortranarray, DataFrame.values): entry [i, j] of every result
        # still belongs to the point (xs[i, j], ys[i, j])
        X = np.asfortranarray(np.array([[real('x00'), real('x01')], [real('x10'), real('x11')], [real('x20'), real('x21')]], dtype=object))
        Y = np.asfortranarray(np.array([[real('y00'), real('y01')], [real('y10'), real('y11')], [real('y20'), real('y21')]], dtype=object))
        return dict(xs=X, ys=Y), X, Y
    X = np.array([real('xa'), real('xb'), real('xc')], dtype=object)
    Y = np.array([real('ya'), real('yb'), real('yc')], dtype=object)
    return dict(xs=list(X), ys=list(Y)), X, Y


def expected_pkey(call, want):
    vals = {}
    for k in call.f['panel']:
        vals[k] = want.get(k, call.f['panel'][k])
    return panel_key(vals)


def cmp_array(name, got, kind, cname, pk, X, Y, nl, probs):
    if not isinstance(got, np.ndarray):
        probs.append('%s is %r, expected an array' % (name, type(got).__name__))
        return
    if got.shape != X.shape:
        probs.append('%s has shape %s, expected the shape of the requested points %s' % (name, got.shape, X.shape))
        return
    for idx in np.ndindex(X.shape):
        w = field_atom(kind, cname, pk, X[idx], Y[idx], nl)
        g = got[idx]
        if not (isinstance(g, P) and normal(g - w).is_zero()):
            probs.append('%s%s = %s, expected %s' % (name, list(idx), pycheck.describe(g)[:160], pycheck.describe(w)[:160]))
            return


def check_panel_fields(led, replay=None):
    it, calls = py_panel.mk()
    for geom, form in itertools.product(('plate', 'cpanel', 'kpanel'), ('default-grid', 'user-2d', 'user-2d-fortran', 'list')):
        if geom == 'kpanel' and form not in ('default-grid', 'list'):
            continue
        for method, opts in (('uvw', {}), ('strain', {'NLterms': True}), ('strain', {'NLterms': False}),
                             ('stress', {'NLterms': True}), ('stress', {'NLterms': False}), ('stress', {'NLterms': False, 'F': 'given'})):
            func = PF + method
            led.function(func)
            tag = '%s,%s,%s' % (geom, form, ','.join('%s=%s' % kv for kv in sorted(opts.items())))
            holder = {}

            def run():
                del calls[:]
                p, kw, want, g = build(it, geom, 'uniform', 'none', {})
                it.call(it.getattr(p, 'calc_k0'), [], dict(silent=True))
                del calls[:]
                c = user_array('c', shape=(g['num'] * kw['m'] * kw['n'],))
                pkw, X, Y = points(form, kw)
                o = dict(opts)
                Fuser = None
                if o.get('F') == 'given':
                    Fuser = np.empty((6, 6), dtype=object)
                    for i in range(6):
                        for j in range(6):
                            Fuser[i, j] = real('Fu%d%d' % (i, j))
                    o['F'] = Fuser
                r = it.call(it.getattr(p, method), [c], dict(pkw, **o))
                return p, kw, want, g, r, X, Y, list(calls), Fuser
            for path, out in it.explore(run):
                name = '%s[%s]' % (func, tag)
                if out[0] != 'return':
                    if geom == 'kpanel' and method != 'uvw' and out[1].tname == 'NotImplementedError':
                        # clt_bardell_field.fstrain refuses a cone (alpharad != 0) explicitly: nothing is reported
                        continue
                    report(led, name + '/no-exception', func, ['raises %s%s' % (out[1].tname, tuple(str(a)[:80] for a in out[1].eargs))],
                           replay_strided if out[1].tname == 'KernelPrecondition' else replay, signature='raise:' + out[1].tname)
                    continue
                p, kw, want, g, r, X, Y, cl, Fuser = out[1]
                probs = []
                fc = [c_ for c_ in cl if isinstance(c_, Opaque) and c_.kind == 'field-call']
                if len(fc) != 1:
                    probs.append('%d field-kernel calls, expected 1' % len(fc))
                    report(led, name, func, probs, replay)
                    continue
                call = fc[0]
                pk = expected_pkey(call, want)
                if call.f['pkey'] != pk:
                    diffs = [k for k in call.f['panel'] if panelctx.vkey(call.f['panel'][k]) != panelctx.vkey(want.get(k, call.f['panel'][k]))]
                    probs.append('the field kernel sees panel attributes %s different from the panel definition' % diffs)
                if call.f['c'] != 'c':
                    probs.append('amplitude vector handed to the kernel is %s, expected the caller\'s c' % call.f['c'])
                if method == 'uvw':
                    if not (isinstance(r, tuple) and len(r) == 5):
                        probs.append('uvw returns %r' % (type(r).__name__,))
                    else:
                        for kind, arr in zip(('u', 'v', 'w', 'phix', 'phiy'), r):
                            cmp_array(kind, arr, kind, 'c', pk, X, Y, None, probs)
                            if panelctx.vkey(p.attrs.get(kind)) != panelctx.vkey(arr):
                                probs.append('Panel.%s is not the returned array' % kind)
                else:
                    nl = '1' if opts.get('NLterms') else '0'
                    if not isinstance(r, dict):
                        probs.append('%s returns %r' % (method, type(r).__name__))
                    elif method == 'strain':
                        for kind in STRAINS:
                            cmp_array(kind, r.get(kind), kind, 'c', pk, X, Y, nl, probs)
                    else:
                        F = Fuser if Fuser is not None else None
                        for ri, rn in enumerate(RESULTANTS):
                            got = r.get(rn)
                            if not isinstance(got, np.ndarray) or got.shape != X.shape:
                                probs.append('%s missing or wrong shape' % rn)
                                continue
                            for idx in np.ndindex(X.shape):
                                w = P.const(0)
                                for t, kind in enumerate(STRAINS):
                                    Fe = Fuser[ri, t] if Fuser is not None else want['lam.ABD'].sym_load(it, (ri, t), None)
                                    w = w + Fe * field_atom(kind, 'c', pk, X[idx], Y[idx], nl)
                                if not (isinstance(got[idx], P) and normal(got[idx] - w).is_zero()):
                                    probs.append('%s%s = %s..., expected sum_t F[%d,t]*strain_t with NLterms=%s' % (rn, list(idx), pycheck.describe(got[idx])[:140], ri, nl))
                                    break
                        for key, A in (('x', X), ('y', Y)):
                            gotx = r.get(key)
                            if not isinstance(gotx, np.ndarray) or gotx.shape != A.shape or any(not normal((gotx[i] if isinstance(gotx[i], P) else P.const(gotx[i])) - (A[i] if isinstance(A[i], P) else P.const(A[i]))).is_zero() for i in np.ndindex(A.shape)):
                                probs.append('returned %s coordinates differ from the requested points' % key)
                sig = None
                if any('NLterms=0' in x and 'NL=1' in x for x in probs):
                    sig = 'stress-ignores-NLterms'
                report(led, name, func, probs, replay, signature=sig)
    led.solver_time('z3-feasibility', it.solver_time)
    led.bounded_item('field recovery (Python layer): point sets of 6 (default 2x3 grid), 6 (user 3x2 array) and 3 (list) symbolic points')


def check_assembly_fields(led):
    from .py_assembly import make_assembly, offsets
    it, calls = py_panel.mk()
    layouts = [(('skin', 'skin', 'other'), 'skin'), (('other', 'skin', 'skin'), 'skin'), (('skin', 'other', 'skin'), 'skin'), (('other', 'skin', 'other'), 'other')]
    for (method, opts), (groups, asked) in itertools.product((('uvw', {}), ('strain', {'NLterms': True}), ('strain', {'NLterms': False}), ('stress', {'NLterms': True}), ('stress', {'NLterms': False})), layouts):
        func = AF + method
        led.function(func)
        tag = (','.join('%s=%s' % kv for kv in sorted(opts.items())) or 'default') + ',groups=%s,asked=%s' % ('/'.join(groups), asked)
        members = [k for k, g_ in enumerate(groups) if g_ == asked]

        def run():
            del calls[:]
            asm, panels, meta, conn = make_assembly(it, ['plate', 'cpanel', 'plate'])
            for p, grp in zip(panels, groups):
                it.call(it.getattr(p, 'calc_k0'), [], dict(silent=True))
                p.attrs['group'] = grp
            del calls[:]
            offs, tot = offsets(meta)
            c = user_array('c', shape=(tot,))
            r = it.call(it.getattr(asm, method), [c, asked], dict(gridx=2, gridy=3, **opts))
            return asm, panels, meta, r, list(calls)
        for path, out in it.explore(run):
            name = '%s[%s]' % (func, tag)
            if out[0] != 'return':
                report(led, name + '/no-exception', func, ['raises %s%s' % (out[1].tname, tuple(str(a)[:80] for a in out[1].eargs))], signature='raise:' + out[1].tname)
                continue
            asm, panels, meta, r, cl = out[1]
            offs, tot = offsets(meta)
            probs = []
            fc = [c_ for c_ in cl if isinstance(c_, Opaque) and c_.kind == 'field-call']
            if len(fc) != len(members):
                probs.append('%d field-kernel calls, expected one per panel of the group (%d)' % (len(fc), len(members)))
            for pos, (k, call) in enumerate(zip(members, fc)):
                kw, want, g = meta[k]
                lo, hi = offs[k], offs[k] + 3 * kw['m'] * kw['n']
                wantc = 'c[%s:%s]' % (normal(lo).text(), normal(hi).text())
                if call.f['c'] != wantc:
                    probs.append('panel %d evaluated with amplitudes %s, expected its own slice %s' % (k + 1, call.f['c'], wantc))
                pk = expected_pkey(call, want)
                if call.f['pkey'] != pk:
                    probs.append('panel %d: kernel sees attributes different from the panel definition' % (k + 1))
                if method != 'uvw':
                    nl = '1' if opts.get('NLterms') else '0'
                    if call.f['nl'] != nl:
                        probs.append('panel %d: strains computed with NLterms=%s, requested %s' % (k + 1, call.f['nl'], nl))
                # values: default 2 x 3 grid of that panel
                _, X, Y = points('default-grid', kw)
                if isinstance(r, dict):
                    keys = {'uvw': ('u', 'v', 'w', 'phix', 'phiy'), 'strain': STRAINS, 'stress': RESULTANTS}[method]
                    for ki, key in enumerate(keys):
                        lst = r.get(key)
                        if not isinstance(lst, list) or len(lst) != len(members):
                            probs.append('result[%s] has %s entries, expected one per panel of the group' % (key, len(lst) if isinstance(lst, list) else 'no'))
                            continue
                        arr = lst[pos]
                        nl = None if method == 'uvw' else ('1' if opts.get('NLterms') else '0')
                        if method in ('uvw', 'strain'):
                            cmp_array('%s(panel %d)' % (key, k + 1), arr, key, wantc, pk, X, Y, nl, probs)
                        else:
                            if not isinstance(arr, np.ndarray) or arr.shape != X.shape:
                                probs.append('%s(panel %d) has the wrong shape' % (key, k + 1))
                                continue
                            for idx in np.ndindex(X.shape):
                                w = P.const(0)
                                for t, kind in enumerate(STRAINS):
                                    w = w + want['lam.ABD'].sym_load(it, (ki, t), None) * field_atom(kind, wantc, pk, X[idx], Y[idx], nl)
                                if not (isinstance(arr[idx], P) and normal(arr[idx] - w).is_zero()):
                                    probs.append('%s(panel %d)%s is not sum_t F[%d,t]*strain_t of that panel' % (key, k + 1, list(idx), ki))
                                    break
                else:
                    probs.append('result is %r' % type(r).__name__)
            report(led, name, func, probs)
    led.solver_time('z3-feasibility', it.solver_time)


# ------------------------------------------------------------------------------------------------ StiffPanelBay field recovery
BFF = 'compmech/stiffpanelbay/stiffpanelbay.py:StiffPanelBay.'


def check_bay_fields(led):
    """StiffPanelBay.uvw_skin / uvw_stiffener: the field of a component is evaluated with that component's own slice of the bay's
    amplitude vector -- the range the matrices use (skin | flanges of the 2-D blade stiffeners | base, flange of the T stiffeners,
    each group in the order of its own list) -- and with that component's attributes; the values are those of the requested points
    in order and shape."""
    from ..pysym import to_z3
    from . import py_stiffeners
    it, calls = py_panel.mk()
    py_stiffeners._with_plies(it)
    it.algebraic_minmax = True
    bmod = it.module('compmech.stiffpanelbay.stiffpanelbay')
    for fn in ('uvw_skin', 'uvw_stiffener'):
        led.function(BFF + fn)
    lam = dict(stack=[real('th')], plyt=real('t'), laminaprop=(real('E'), real('E'), real('nu')))
    flam = dict(fstack=[real('thf')], fplyt=real('tf'), flaminaprop=(real('Ef'), real('Ef'), real('nuf')))
    blam = dict(bstack=[real('thb')], bplyt=real('tb'), blaminaprop=(real('Eb'), real('Eb'), real('nub')))
    orders = [('b2',), ('t2',), ('b2', 'b2'), ('t2', 't2'), ('b2', 't2'), ('t2', 'b2'), ('b1', 'b2'), ('b1', 't2', 'b2')]
    X = np.array([real('xq0'), real('xq1'), real('xq2')], dtype=object)
    Y = np.array([real('yq0'), real('yq1'), real('yq2')], dtype=object)
    for kinds in orders:
        targets = [('skin', None, None)] + [(k, si, reg) for si, k in enumerate(kinds) if k != 'b1' for reg in (('flange',) if k == 'b2' else ('base', 'flange'))]
        for (what, si, region) in targets:
            tag = 'stiffeners=%s,%s' % ('/'.join(kinds), 'skin' if si is None else 'stiffener %d %s' % (si, region))
            func = BFF + ('uvw_skin' if si is None else 'uvw_stiffener')

            def run():
                del calls[:]
                bay = it.call(bmod.g['StiffPanelBay'], [], {})
                a, b = real('a'), real('b')
                m, n = integer('m'), integer('n')
                bay.attrs.update(a=a, b=b, m=m, n=n, mu=real('mu'), r=None, model='plate_clt_donnell_bardell', out_num_cores=integer('ncores'), **lam)
                for f in py_stiffeners.FLAG_NAMES:
                    bay.attrs[f] = real(f + '_bay')
                cuts = [P.const(0)] + [real('ys%d' % q) for q in range(len(kinds))] + [b]
                it.facts[:] = [to_z3(a) > 0, to_z3(b) > 0, to_z3(a) <= 10 * to_z3(b)]
                for q in range(len(cuts) - 1):
                    it.facts.append(to_z3(cuts[q]) < to_z3(cuts[q + 1]))
                    it.call(it.getattr(bay, 'add_panel'), [], dict(y1=cuts[q], y2=cuts[q + 1]))
                it.np.isclose = lambda x, y, **k: pysym.compare('==', x if isinstance(x, P) else P.const(x), y if isinstance(y, P) else P.const(y))
                stiffs = []
                for q, k in enumerate(kinds):
                    ys = cuts[q + 1]
                    if k == 'b2':
                        s = it.call(it.getattr(bay, 'add_bladestiff2d'), [], dict(ys=ys, bf=real('bf%d' % q), mf=integer('mf%d' % q), nf=integer('nf%d' % q), **flam))
                    elif k == 't2':
                        s = it.call(it.getattr(bay, 'add_tstiff2d'), [], dict(ys=ys, bb=real('bb%d' % q), bf=real('bf%d' % q), mb=integer('mb%d' % q), nb=integer('nb%d' % q),
                                                                               mf=integer('mf%d' % q), nf=integer('nf%d' % q), **dict(flam, **blam)))
                    else:
                        s = it.call(it.getattr(bay, 'add_bladestiff1d'), [], dict(ys=ys, bf=real('bf%d' % q), **flam))
                    stiffs.append(s)
                size = it.call(it.getattr(bay, 'get_size'), [], {})
                c = user_array('c', shape=(size,))
                del calls[:]
                if si is None:
                    r = it.call(it.getattr(bay, 'uvw_skin'), [c], dict(xs=X, ys=Y))
                else:
                    r = it.call(it.getattr(bay, 'uvw_stiffener'), [c, si], dict(region=region, xs=X, ys=Y))
                return bay, stiffs, r, list(calls), (m, n)
            for path, out in it.explore(run):
                name = '%s[%s]' % (func, tag)
                if out[0] != 'return':
                    report(led, name + '/no-exception', func, ['raises %s%s' % (out[1].tname, tuple(str(a_)[:80] for a_ in out[1].eargs))], signature='raise:' + out[1].tname,
                           replay=replay_bay_field)
                    continue
                bay, stiffs, r, cl, (m, n) = out[1]
                probs = []
                # the layout of the matrices
                pos = 3 * m * n
                rng = {('skin', None): (P.const(0), pos)}
                for q, (k, s) in enumerate(zip(kinds, stiffs)):
                    if k == 'b2':
                        sz = 3 * integer('mf%d' % q) * integer('nf%d' % q)
                        rng[(q, 'flange')] = (pos, pos + sz)
                        pos = pos + sz
                for q, (k, s) in enumerate(zip(kinds, stiffs)):
                    if k == 't2':
                        szb = 3 * integer('mb%d' % q) * integer('nb%d' % q)
                        szf = 3 * integer('mf%d' % q) * integer('nf%d' % q)
                        rng[(q, 'base')] = (pos, pos + szb)
                        rng[(q, 'flange')] = (pos + szb, pos + szb + szf)
                        pos = pos + szb + szf
                lo, hi = rng[('skin', None)] if si is None else rng[(si, region)]
                wantc = 'c[%s:%s]' % (normal(lo).text(), normal(hi).text())
                fc = [c_ for c_ in cl if isinstance(c_, Opaque) and c_.kind == 'field-call']
                if len(fc) != 1:
                    probs.append('%d field-kernel calls, expected one' % len(fc))
                else:
                    call = fc[0]
                    if call.f['c'] != wantc:
                        probs.append('evaluated with amplitudes %s, expected the component\'s own range %s' % (call.f['c'], wantc))
                    comp = bay if si is None else stiffs[si].attrs[region]
                    for key in ('a', 'b', 'm', 'n') + tuple(py_stiffeners.FLAG_NAMES):
                        if key in call.f['panel']:
                            e = comp.attrs[key] if si is not None else bay.attrs[key]
                            g = call.f['panel'][key]
                            if not normal((g if isinstance(g, P) else P.const(g)) - (e if isinstance(e, P) else P.const(e))).is_zero():
                                probs.append('kernel sees %s = %s, the component has %s' % (key, g, e))
                    if not (isinstance(call.f['num_cores'], P) and normal(call.f['num_cores'] - integer('ncores')).is_zero()):
                        probs.append('thread count passed: %s' % (call.f['num_cores'],))
                    if not (isinstance(r, tuple) and len(r) == 5):
                        probs.append('result is %r' % type(r).__name__)
                    else:
                        for key, arr in zip(('u', 'v', 'w', 'phix', 'phiy'), r):
                            cmp_array(key, arr, key, wantc, call.f['pkey'], X, Y, None, probs)
                report(led, name, func, probs, replay=replay_bay_field if probs else None)
    led.solver_time('z3-feasibility', it.solver_time)
    led.bounded_item('StiffPanelBay field recovery: 1..3 stiffeners in 8 orders of kinds (sizes, series orders, positions symbolic); three symbolic points')


_RPS = {}


def replay_strided():
    """real Panel.uvw / strain / stress with a strided amplitude vector (a column of a C-ordered matrix) against the same values in a
    contiguous copy"""
    if 'r' in _RPS:
        return _RPS['r']
    from ..pyreplay import run_real
    script = '''
import numpy as np
from compmech.panel import Panel
p = Panel(a=1., b=0.6, r=3., stack=[0, 45, -45, 90], plyt=1.25e-4, laminaprop=(142.5e9, 8.7e9, 0.28, 5.1e9, 5.1e9, 5.1e9), m=4, n=5)
p.calc_k0(silent=True)
rng = np.random.RandomState(3)
M = rng.rand(p.get_size(), 3)
c = M[:, 1]
xs = np.array([0.1, 0.4, 0.77]); ys = np.array([0.05, 0.3, 0.52])
res = {}
u1 = p.uvw(c, xs=xs, ys=ys); u2 = p.uvw(c.copy(), xs=xs, ys=ys)
res["uvw"] = float(max(abs(np.asarray(a) - np.asarray(b)).max() for a, b in zip(u1, u2)))
for nl in (False, True):
    e1 = p.strain(c, xs=xs, ys=ys, NLterms=nl); e2 = p.strain(c.copy(), xs=xs, ys=ys, NLterms=nl)
    res["strain,NLterms=%s" % nl] = float(max(abs(e1[k] - e2[k]).max() for k in e2))
    s1 = p.stress(c, xs=xs, ys=ys, NLterms=nl); s2 = p.stress(c.copy(), xs=xs, ys=ys, NLterms=nl)
    res["stress,NLterms=%s" % nl] = float(max(abs(s1[k] - s2[k]).max() for k in s2))
out = {"max_difference_strided_vs_copy": res}
'''
    r = run_real(script, {})
    d = r.get('max_difference_strided_vs_copy', {})
    r['reproduced'] = bool(any(v > 1e-12 for v in d.values()) or r.get('raised'))
    r['input'] = 'cylindrical panel, c = M[:, 1] of a C-ordered (size, 3) matrix, three points'
    _RPS['r'] = r
    return r


def replay_bay_field():
    from ..pyreplay import run_real
    script = '''
import numpy as np
from compmech.stiffpanelbay import StiffPanelBay
from compmech.panel.modelDB import db
lp = (142.5e9, 8.7e9, 0.28, 5.1e9, 5.1e9, 5.1e9)
res = {}
for kinds in (['b2', 'b2'], ['t2', 'b2'], ['b2', 't2']):
    spb = StiffPanelBay()
    spb.a = 2.; spb.b = 1.; spb.m = 4; spb.n = 4; spb.model = 'plate_clt_donnell_bardell'
    spb.stack = [0, 90, 90, 0]; spb.plyt = 1.25e-4; spb.mu = 1.3e3; spb.laminaprop = lp
    spb.add_panel(y1=0, y2=0.3); spb.add_panel(y1=0.3, y2=0.6); spb.add_panel(y1=0.6, y2=1.)
    for y, k in zip([0.3, 0.6], kinds):
        if k == 'b2':
            spb.add_bladestiff2d(ys=y, bf=0.05, fstack=[0]*8, fplyt=spb.plyt, flaminaprop=lp, mf=3, nf=3)
        else:
            spb.add_tstiff2d(ys=y, bb=0.1, bf=0.05, bstack=[0]*8, bplyt=spb.plyt, blaminaprop=lp, fstack=[0]*8, fplyt=spb.plyt, flaminaprop=lp, mb=3, nb=4, mf=3, nf=3)
    pos = 3*spb.m*spb.n
    lay = {}
    for s in spb.bladestiff2ds:
        lay[id(s)] = (pos, pos + s.flange.get_size()); pos += s.flange.get_size()
    for s in spb.tstiff2ds:
        pos += s.base.get_size(); lay[id(s)] = (pos, pos + s.flange.get_size()); pos += s.flange.get_size()
    c = np.arange(spb.get_size(), dtype=float)
    for si, s in enumerate(spb.stiffeners):
        lo, hi = lay[id(s)]
        try:
            got = spb.uvw_stiffener(c, si, region='flange', xs=np.array([0.5]), ys=np.array([0.02]))
            ref = db[s.flange.model]['field'].fuvw(c[lo:hi].copy(), s.flange, np.array([0.5]), np.array([0.02]), 1)
            res['%s/%d' % ('+'.join(kinds), si)] = 'ok' if abs(got[2][0] - ref[2][0]) <= 1e-9*max(1., abs(ref[2][0])) else 'wrong slice: w = %.6g, own slice gives %.6g' % (got[2][0], ref[2][0])
        except Exception as e:
            res['%s/%d' % ('+'.join(kinds), si)] = 'raised %s: %s' % (type(e).__name__, str(e)[:80])
out = {'result': res}
'''
    r = run_real(script, {})
    r['reproduced'] = any(v != 'ok' for v in (r.get('result') or {}).values()) and not r.get('raised')
    r['input'] = 'bay 2 x 1, m=n=4, three skin panels, two 2-D stiffeners in the orders b2+b2, t2+b2, b2+t2; flange field of each at one point'
    r['real_function'] = 'StiffPanelBay.uvw_stiffener'
    return r
