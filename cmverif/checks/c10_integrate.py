"""C10, integrate.pyx part (trapz_quad / trapz2d_points / simps2d_points) -- filled in below"""


def body(led):
    pass
