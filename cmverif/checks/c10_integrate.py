"""C10, integrate.pyx part: trapz_quad / trapz2d_points / simps2d_points for EVERY number of points.

The real functions are executed symbolically with symbolic nx, ny (generic loops, slot counters); every emitted point is a
tuple (x, y, alpha, beta) that depends on the loop indices.  For each monomial x^p y^q (p, q <= 1 for the trapezoid rule,
<= 3 for Simpson's rule) the weighted sum over all emitted points is evaluated in closed form with the power-sum formulas
(lemma below, proved by induction as polynomial identities) and compared with the exact integral over
[xmin, xmax] x [ymin, ymax]; p = q = 0 is "the weights sum to the domain area".  beta == 1 for every point.
"""
import types
from fractions import Fraction

import z3

from ..core import CheckerError
from ..poly import P, normal
from .. import kharness as K, kernel, pysym
from ..pysym import real, integer, to_z3, Cond, compare
from ..kernel import Slot

MOD = 'compmech.integrate.integrate'
LAB = 'compmech/integrate/integrate.pyx:'


def F(d, n):
    """sum_{i=0}^{n-1} i^d"""
    n = n if isinstance(n, P) else P.const(n)
    if d == 0:
        return n
    if d == 1:
        return n * (n - 1) * Fraction(1, 2)
    if d == 2:
        return (n - 1) * n * (2 * n - 1) * Fraction(1, 6)
    if d == 3:
        return (n * (n - 1) * Fraction(1, 2)) ** 2
    if d == 4:
        return (n - 1) * n * (2 * n - 1) * (3 * n * n - 3 * n - 1) * Fraction(1, 30)
    if d == 5:
        return (n - 1) ** 2 * n * n * (2 * n * n - 2 * n - 1) * Fraction(1, 12)
    if d == 6:
        return (n - 1) * n * (2 * n - 1) * (3 * n ** 4 - 6 * n ** 3 + 3 * n + 1) * Fraction(1, 42)
    raise CheckerError('power sum of degree %d' % d)


def lemma_power_sums(led):
    n = integer('n')
    for d in range(7):
        name = 'lemma(C10i): F_%d(n+1) - F_%d(n) == n^%d and F_%d(0) == 0 (induction step of the power-sum formula)' % (d, d, d, d)
        step = normal(F(d, n + 1) - F(d, n) - (n ** d if d else P.const(1)))
        base = normal(F(d, P.const(0)))
        (led.ok(name, 'lemma(C10i)') if step.is_zero() and base.is_zero() else led.fail(name, 'lemma(C10i)', {'step': str(step), 'base': str(base)}))


def poly_sum(expr, var, lo, hi):
    """sum_{var=lo}^{hi-1} expr  for expr polynomial in var"""
    expr = normal(expr)
    deg = expr.degree_in(var)
    if any(dict(m).get(var, 0) < 0 for m in expr.t):
        raise CheckerError('summand is not polynomial in %s' % var)
    tot = P({})
    for d in range(deg + 1):
        co = expr.coeff_of(var, d)
        if co.is_zero():
            continue
        tot = tot + co * (F(d, hi) - F(d, lo))
    return normal(tot)


class FuncArr(object):
    """1-D array of symbolic length written either through slot counters or at a loop index"""
    def __init__(self, name, length):
        self.name, self.length = name, length
        self.slots = {}        # seq -> (value, conds, loopvars, line)
        self.entries = []      # (index P, loop vars, value, conds)

    def sym_store(self, interp, k, v, node):
        if isinstance(k, Slot):
            self.slots[k.seq] = (v, list(interp.path.conds), tuple(g.var for g in interp.generic), node.lineno)
            return
        k = normal(k if isinstance(k, P) else P.const(k))
        self.entries.append((k, tuple(g.var for g in interp.generic), v if isinstance(v, P) else P.const(v),
                             [c for c in interp.path.conds[self._base(interp):]]))

    def _base(self, interp):
        return getattr(self, 'base', 0)

    def sym_load(self, interp, k, node):
        k = normal(k if isinstance(k, P) else P.const(k))
        for idx, lv, val, conds in self.entries:
            vs = [a for a in idx.atoms() if a in lv]
            if len(vs) != 1 or not normal(idx - P.atom(vs[0])).is_zero():
                raise CheckerError('line %d: unsupported index pattern of %s' % (node.lineno, self.name))
            v = vs[0]
            sub = {v: k}
            ok = True
            for c in conds:
                if not (isinstance(c, Cond) and v in c.atoms()):
                    continue
                if c.kind != 'cmp':
                    raise CheckerError('line %d: compound store condition' % node.lineno)
                cc = compare(c.a, c.b.subs(sub), 0)
                if isinstance(cc, bool):
                    if not cc:
                        ok = False
                        break
                    continue
                if not interp.truth(cc):
                    ok = False
                    break
            if ok:
                return val.subs(sub) if isinstance(val, P) else val
        raise CheckerError('line %d: no stored value of %s matches the index %s' % (node.lineno, self.name, k.text()))

    def sym_getattr(self, interp, name):
        if name == 'shape':
            return (self.length,)
        raise CheckerError('attribute %s of %s' % (name, self.name))


class LinArr(object):
    """np.linspace(lo, hi, count): element i is lo + i (hi - lo)/(count - 1)"""
    def __init__(self, lo, hi, count):
        self.lo, self.hi, self.count = lo, hi, count

    def sym_getattr(self, interp, name):
        if name == 'astype':
            return lambda *a, **k: self
        raise CheckerError('attribute %s of a linspace array' % name)

    def sym_load(self, interp, k, node):
        k = k if isinstance(k, P) else P.const(k)
        return self.lo + k * (self.hi - self.lo) / (self.count - 1)


def make_interp():
    it = K.make_interp(counters=('c', 'k'))
    it.loop_modes[('*', '*')] = kernel.GenericLoop(counters=('c', 'k'), local=True)
    it.slot_always |= {'c', 'k'}
    it.builtins['PTR'] = lambda arr, *idx: arr
    counter = [0]

    def zeros(shape, dtype=None):
        shp = shape if isinstance(shape, (tuple, list)) else (shape,)
        counter[0] += 1
        return FuncArr('arr%d' % counter[0], shp[0])
    it.np.zeros = zeros
    it.np.linspace = lambda lo, hi, n: LinArr(lo, hi, n)

    def sym_mod(self, a, b, node):
        if isinstance(a, P) and isinstance(b, int) and b > 0:
            a = normal(a)
            r = Fraction(0)
            for m, c in a.t.items():
                if c.denominator != 1:
                    break
                if not m:
                    r = c
                elif int(c) % b != 0 or not all(x in pysym.INT_ATOMS and e > 0 for x, e in m):
                    break
            else:
                return int(r) % b
        raise CheckerError('line %d: symbolic modulo %s %% %s' % (node.lineno, a, b))

    def c_intdiv(self, a, b, node):
        if isinstance(a, int) and isinstance(b, int):
            if b == 0:
                raise pysym.SymRaise('ZeroDivisionError', (), node)
            q = abs(a) // abs(b)
            return q if (a >= 0) == (b >= 0) else -q
        if isinstance(a, P) and isinstance(b, int) and b > 0:
            a = normal(a)
            if all(c.denominator == 1 and int(c) % b == 0 for c in a.t.values()):
                return a * Fraction(1, b)
        raise CheckerError('line %d: symbolic C integer division %s / %s' % (node.lineno, a, b))
    it.sym_mod = types.MethodType(sym_mod, it)
    it.c_intdiv = types.MethodType(c_intdiv, it)
    return it


def ranges_and_conds(conds, loopvars, div_ids):
    """per loop variable: (lo, hi, equalities, exclusions) read off the path conditions of an emission"""
    info = {v: dict(lo=None, hi=None, eq=None, ne=[]) for v in loopvars}
    for c in conds:
        if id(c) in div_ids or not isinstance(c, Cond) or c.kind != 'cmp':
            continue
        vs = [v for v in loopvars if v in c.b.atoms()]
        if not vs:
            continue
        if len(vs) != 1:
            raise CheckerError('condition couples two loop variables: %r' % (c,))
        v = vs[0]
        co = c.b.coeff_of(v, 1)
        if not co.is_const() or c.b.degree_in(v) != 1:
            raise CheckerError('non-linear loop condition %r' % (c,))
        k = co.const_value()
        rest = normal(c.b - co * P.atom(v)) * (1 / k)       # v + rest  (op) 0, orientation flips with the sign of k
        op = c.a
        if k < 0:
            op = {'<': '>', '<=': '>=', '>': '<', '>=': '<=', '==': '==', '!=': '!='}[op]
        val = normal(-rest)
        if op == '>=':
            info[v]['lo'] = val if info[v]['lo'] is None else info[v]['lo']
        elif op == '>':
            info[v]['lo'] = normal(val + 1) if info[v]['lo'] is None else info[v]['lo']
        elif op == '<':
            info[v]['hi'] = val if info[v]['hi'] is None else info[v]['hi']
        elif op == '<=':
            info[v]['hi'] = normal(val + 1) if info[v]['hi'] is None else info[v]['hi']
        elif op == '==':
            info[v]['eq'] = val
        elif op == '!=':
            if not any(normal(val - w).is_zero() for w in info[v]['ne']):
                info[v]['ne'].append(val)
    return info


def total(emissions, p, q, facts):
    """sum over all emitted points of alpha * x^p * y^q"""
    tot = P({})
    for e in emissions:
        term = e['alpha'] * (e['x'] ** p if p else 1) * (e['y'] ** q if q else 1)
        term = term if isinstance(term, P) else P.const(term)
        for v, inf in e['ranges'].items():
            if inf['eq'] is not None:
                term = term.subs({v: inf['eq']})
                continue
            if inf['lo'] is None or inf['hi'] is None:
                raise CheckerError('loop variable %s without a range' % v)
            s = poly_sum(term, v, inf['lo'], inf['hi'])
            for val in inf['ne']:
                # the excluded index lies inside the range (checked) and the exclusions are pairwise different (checked)
                _require(facts, z3.And(to_z3(val) >= to_z3(inf['lo']), to_z3(val) < to_z3(inf['hi'])), 'excluded index %s outside its range' % val)
                s = s - term.subs({v: val})
            for a_, b_ in [(a_, b_) for k_, a_ in enumerate(inf['ne']) for b_ in inf['ne'][k_ + 1:]]:
                _require(facts, to_z3(a_) != to_z3(b_), 'two excluded indices may coincide')
            term = normal(s)
        tot = tot + term
    return normal(tot)


def _require(facts, goal, what):
    s = z3.Solver()
    s.set('timeout', 10000)
    for f in facts:
        s.add(f)
    s.add(z3.Not(goal))
    if s.check() != z3.unsat:
        raise CheckerError('summation side condition not provable: %s' % what)


def run_points(fname, nx, ny, facts):
    it = make_interp()
    it.facts += facts
    m = it.module(MOD)
    f = K.kernel_func(it, MOD, fname)
    xmin, xmax, ymin, ymax = (real(n) for n in ('xmin', 'xmax', 'ymin', 'ymax'))
    res = it.explore(lambda: it.call(f, [xmin, xmax, nx, ymin, ymax, ny], {}))
    if len(res) != 1 or res[0][1][0] != 'return':
        raise CheckerError('%s: expected one returning path, got %r' % (fname, [(o[0], getattr(o[1], 'eargs', getattr(o[1], 'tname', None))) for _, o in res]))
    xs2, ys2, alphas, betas = res[0][1][1]
    div_ids = set(id(c) for c in it.div_conds)
    ems = []
    for seq in sorted(xs2.slots):
        if not (seq in ys2.slots and seq in alphas.slots and seq in betas.slots):
            raise CheckerError('%s: a point is not written to all four arrays' % fname)
        x, conds, lv, line = xs2.slots[seq]
        y, a, b = ys2.slots[seq][0], alphas.slots[seq][0], betas.slots[seq][0]
        # conditions met later on the same path (loads of the weight tables) belong to the emission as well: take the longest
        conds = max((arr.slots[seq][1] for arr in (xs2, ys2, alphas, betas)), key=len)
        ems.append(dict(x=x, y=y, alpha=a, beta=b, loopvars=lv, line=line, ranges=ranges_and_conds(conds, lv, div_ids)))
    return ems, (xs2, ys2, alphas, betas), it


def check_rule(led, fname, degree, cases):
    lab = LAB + fname
    led.function(lab)
    xmin, xmax, ymin, ymax = (real(n) for n in ('xmin', 'xmax', 'ymin', 'ymax'))
    for tag, nx, ny, facts, npts_expected in cases:
        ems, arrs, it = run_points(fname, nx, ny, facts)
        name0 = '%s[%s]' % (lab, tag)
        # beta == 1, and the number of points
        nb = [e for e in ems if not (e['beta'] == 1 or (isinstance(e['beta'], P) and normal(e['beta'] - 1).is_zero()))]
        (led.ok(name0 + '/betas-are-one', lab) if not nb else led.fail(name0 + '/betas-are-one', lab, {'lines': [e['line'] for e in nb]}, signature='beta'))
        count = total([dict(e, alpha=P.const(1), x=P.const(1), y=P.const(1)) for e in ems], 0, 0, facts)
        okc, badc = K.compare(count, npts_expected)
        okl, _ = K.compare(arrs[0].length if isinstance(arrs[0].length, P) else P.const(arrs[0].length), npts_expected)
        nm = name0 + '/number-of-points-equals-array-length'
        (led.ok(nm, lab) if okc and okl else led.fail(nm, lab, {'points written': str(count), 'array length': str(arrs[0].length), 'expected': str(npts_expected)}, signature='count'))
        for p in range(degree + 1):
            for q in range(degree + 1):
                got = total(ems, p, q, facts)
                want = (xmax ** (p + 1) - xmin ** (p + 1)) * Fraction(1, p + 1) * (ymax ** (q + 1) - ymin ** (q + 1)) * Fraction(1, q + 1)
                ok, bad = K.compare(got, want)
                nm = name0 + '/integrates-x^%d*y^%d-exactly' % (p, q) if (p or q) else name0 + '/weights-sum-to-the-domain-area'
                if ok:
                    led.ok(nm, lab)
                else:
                    led.fail(nm, lab, {'difference': bad}, signature='rule:%d,%d' % (p, q))
        led.solver_time('z3-feasibility', it.solver_time)


def body(led):
    led.assume('C10i: np.linspace(a, b, n)[i] = a + i (b - a)/(n - 1); power-sum formulas by the induction lemma; C integer division and % on '
               'expressions whose parity is explicit (nx = 2N or 2N - 1)')
    lemma_power_sums(led)
    nx, ny = integer('nx'), integer('ny')
    base = [to_z3(real('xmax')) > to_z3(real('xmin')), to_z3(real('ymax')) > to_z3(real('ymin'))]
    check_rule(led, 'trapz2d_points', 1, [('nx,ny>=2', nx, ny, base + [to_z3(nx) >= 2, to_z3(ny) >= 2], nx * ny)])
    N, M = integer('N'), integer('M')
    fN = base + [to_z3(N) >= 1, to_z3(M) >= 1]
    check_rule(led, 'simps2d_points', 3, [('nx=2N,ny=2M', 2 * N, 2 * M, fN, (2 * N + 1) * (2 * M + 1)),
                                          ('nx=2N-1,ny=2M-1 (rounded up)', 2 * N - 1, 2 * M - 1, fN, (2 * N + 1) * (2 * M + 1)),
                                          ('nx=2N,ny=2M-1', 2 * N, 2 * M - 1, fN, (2 * N + 1) * (2 * M + 1))])
