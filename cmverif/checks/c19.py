"""C19 -- piston-theory aerodynamic matrices.

Functions under contract:
  panel/models/{plate,plate_w,cpanel}*.pyx : fkAx, fkAy, fcA          (kernel contracts)
  panel/_panel.py : Panel.calc_kA (Mach-route formulas, dispatch, skew/symmetric completion), Panel.calc_cA
  stiffpanelbay/stiffpanelbay.py : StiffPanelBay.calc_kA (delegation)   -- see c19_bay
  lemma: integration by parts of the Bardell tables with w restrained on the flow edges (exhaustive over 30x30)
"""
import sys
from fractions import Fraction

from ..core import run_check
from ..poly import P
from .. import kharness as K, spec_panel as S, bardell_spec as B
from ..pysym import real
from . import kern_common as KC, py_panel, replays

DOFS = {'plate': ('u', 'v', 'w'), 'plate_w': ('w',), 'cpanel': ('u', 'v', 'w')}


def aero_form(model, which):
    def form(panel, scal, geo):
        sx, sy = 2 / geo['a'], 2 / geo['b']
        ops = {'w': {'w': [(P.const(1), 0, 0)], 'wx': [(sx, 1, 0)], 'wy': [(sy, 0, 1)]}}
        if which == 'kAx':
            W = {('wx', 'w'): -scal['beta']}
            if model == 'cpanel':
                W[('w', 'w')] = -scal['gamma']
        elif which == 'kAy':
            W = {('wy', 'w'): -scal['beta']}
        else:
            W = {('w', 'w'): -scal['aeromu']}
        return ops, W, DOFS[model]
    return form


def lemma_by_parts(led):
    """for all i,k < 30:  int f_i' f_k + int f_i f_k' == [f_i f_k]_{-1}^{+1}; with the translation flags of w
    set to zero on the flow edges the boundary term vanishes, so
        -beta int w_A,flow w_B == +beta int w_A w_B,flow      (statement form == code form)
    and the flow part is skew-symmetric with zero diagonal."""
    func = 'lemma(C19): integration by parts of the tables'
    led.function('compmech/lib/src/bardell.c:integral_ffxi (via its C10 contract)')
    bad = []
    for i in range(30):
        for k in range(30):
            lhs = B.full_value('ffxi', k, i) + B.full_value('ffxi', i, k)      # int f_k f_i' + int f_i f_k'
            fi, fk = B.f_poly(i), B.f_poly(k)
            bnd = B.peval(fi, Fraction(1)) * B.peval(fk, Fraction(1)) - B.peval(fi, Fraction(-1)) * B.peval(fk, Fraction(-1))
            if lhs != bnd:
                bad.append((i, k, str(lhs), str(bnd)))
            # boundary term is non-zero only if both functions are translation functions (index 0 or 2),
            # i.e. carry a t-flag: with w1t = w2t = 0 it vanishes
            if bnd != 0 and not (i in (0, 2) and k in (0, 2)):
                bad.append((i, k, 'boundary term for a function without translation flag', str(bnd)))
    if bad:
        led.fail(func + '/900-pairs', func, {'failing_pairs': bad[:5]})
    else:
        led.ok(func + '/900-pairs', func, backend='exact-rational(exhaustive)',
               sample={'statement': 'int f_i\' f_k + int f_i f_k\' = f_i f_k |_{-1}^{1}, non-zero only for i,k in {0,2}'})


def body(led):
    led.assume('C19: w is restrained (translation flags zero) on the upstream and downstream edges (pre-condition of the statement)')
    led.assume('C19: table functions through their C10 contracts; coo duplicates are summed (A4)')
    led.trust('cmverif pyx front end, symbolic executor, normaliser; z3')
    for model in ('plate', 'plate_w', 'cpanel'):
        KC.run(led, model, 'fkAx', ['beta', 'gamma'], aero_form(model, 'kAx'))
        KC.run(led, model, 'fkAy', ['beta'], aero_form(model, 'kAy'))
        KC.run(led, model, 'fcA', ['aeromu'], aero_form(model, 'cA'))
    lemma_by_parts(led)
    py_panel.check_calc_kA(led)
    py_panel.check_calc_cA(led)
    from . import c19_bay
    c19_bay.check(led)
    c19_bay.check_cA(led)
    ok, _ = K.compare(real('beta') * 2, real('beta'))
    led.canary('2*beta vs beta', not ok)
    _standin(led)


def _standin(led):
    from . import sparse_standin
    from . import sparse_proof
    sparse_proof.check(led, ['make_skew_symmetric', 'finalize_symmetric_matrix'])


def main():
    return run_check('C19', body)


if __name__ == '__main__':
    sys.exit(main())
