"""The linear static route of an object, end to end in the Python layer:

    obj.static()  ->  Analysis.static(NLgeom=False)  ->  fext = <callback>(), k0 = <callback>(), c = solve(k0, fext)

Obligation (C07 for Panel, C18 for ConeCyl): the system that is solved is  K c = f  with K the result of THE OBJECT'S calc_k0() (no state,
no other operator) and f the result of its calc_fext() at the full load, and what static() returns / stores is that solution.  The four
callbacks handed to the Analysis object by the real constructor must be the object's own calc_fext / calc_k0 / calc_fint / calc_kT, in that
role (a tangent or an internal force in the place of the linear stiffness is a different operator as soon as a reference load is defined);
the verdict is taken from the calls that reach calc_* and solve, the stored callbacks are only quoted as a diagnosis.

The real constructors, the real static() wrappers and the real Analysis.static are executed; calc_* of the object and sparse.solve are
replaced by recording contracts (their own post-conditions are proved elsewhere: C02/C16, C07 load vector, sparse.solve).
"""
from ..poly import P
from .. import pysym
from ..pysym import real, Opaque


ROLES = ('calc_fext', 'calc_k0', 'calc_fint', 'calc_kT')


def wiring(obj):
    """differences between the callbacks stored in obj.analysis and the object's own methods of the same role"""
    probs = []
    an = obj.attrs.get('analysis')
    if not isinstance(an, pysym.Obj):
        return ['the object has no Analysis instance']
    for role in ROLES:
        cb = an.attrs.get(role)
        if not isinstance(cb, pysym.BoundMethod):
            probs.append('analysis.%s is %r, expected the bound method of the object' % (role, cb))
            continue
        if cb.obj is not obj:
            probs.append('analysis.%s is bound to another object' % role)
        if cb.func.qualname.split('.')[-1] != role:
            probs.append('analysis.%s is %s of the object' % (role, cb.func.qualname.split('.')[-1]))
    return probs


def install(it, cls_qual, log):
    """recording contracts for the four evaluation methods of the class and for sparse.solve"""
    def mk(role):
        def c(itp, a, kw):
            log.append((role, a[0], list(a[1:]), dict(kw)))
            return Opaque('result-of', role=role, n=len([x for x in log if x[0] == role]))
        return c
    for role in ROLES:
        it.contracts['%s.%s' % (cls_qual, role)] = mk(role)

    def solve(itp, a, kw):
        log.append(('solve', None, list(a), dict(kw)))
        return Opaque('solution', K=a[0], f=a[1])
    it.contracts['compmech.sparse.solve'] = solve


def solver_settings(obj):
    """the increment settings of the non-linear solvers are the user's (not at their defaults): a linear analysis is at the full load
    whatever they are"""
    an = obj.attrs.get('analysis')
    if isinstance(an, pysym.Obj):
        for k in ('initialInc', 'minInc', 'maxInc'):
            an.attrs[k] = real('user_' + k)


def judge(obj, log, ret, inc_name='inc'):
    # the verdict rests on what is evaluated and solved; how the callbacks are stored (bound method, wrapper) is only quoted as a diagnosis
    probs = []
    by = {}
    for rec in log:
        by.setdefault(rec[0], []).append(rec)
    for role in ('calc_fint', 'calc_kT'):
        if by.get(role):
            probs.append('%s is evaluated in a linear analysis' % role)
    k0c, fc, sv = by.get('calc_k0', []), by.get('calc_fext', []), by.get('solve', [])
    if len(k0c) != 1 or len(fc) != 1 or len(sv) != 1:
        probs.append('calls: calc_k0 x%d, calc_fext x%d, solve x%d (expected one each)' % (len(k0c), len(fc), len(sv)))
        return probs + ['diagnosis: ' + w for w in wiring(obj)]
    for role, rec in (('calc_k0', k0c[0]), ('calc_fext', fc[0])):
        if rec[1] is not obj:
            probs.append('%s is called on another object' % role)
        extra = {k: v for k, v in rec[3].items() if k != 'silent'}
        pos = rec[2]
        if role == 'calc_fext':
            incv = extra.pop(inc_name, pos[0] if pos else None)
            if incv is not None and not (isinstance(incv, (int, float, P)) and (incv == 1 or (isinstance(incv, P) and incv == P.const(1)))):
                probs.append('calc_fext evaluated at the load level %r, expected the full load' % (incv,))
            pos = pos[1:]
        if pos or any(v is not None and v is not False for v in extra.values()):
            probs.append('%s called with %s %s: not the operator of the linear problem' % (role, pos, extra))
    K, f = (sv[0][2] + [None, None])[:2]
    if not (isinstance(K, Opaque) and K.kind == 'result-of' and K.f['role'] == 'calc_k0'):
        probs.append('the system matrix is %r, expected the result of calc_k0()' % (K,))
    if not (isinstance(f, Opaque) and f.kind == 'result-of' and f.f['role'] == 'calc_fext'):
        probs.append('the right-hand side is %r, expected the result of calc_fext()' % (f,))
    an = obj.attrs.get('analysis')
    cs = an.attrs.get('cs') if isinstance(an, pysym.Obj) else None
    if not (isinstance(cs, list) and len(cs) == 1 and isinstance(cs[0], Opaque) and cs[0].kind == 'solution'):
        probs.append('analysis.cs is %r, expected [the solution]' % (cs,))
    if ret is not None and not (isinstance(ret, list) and len(ret) == 1 and isinstance(ret[0], Opaque) and ret[0].kind == 'solution'):
        probs.append('static() returns %r, expected [the solution]' % (ret,))
    if probs:
        probs += ['diagnosis: ' + w for w in wiring(obj)]
    return probs


def check_panel_static(led):
    from . import py_panel
    func = py_panel.PF + 'static'
    led.function(func)
    led.function('compmech/analysis/analysis.py:Analysis.static')
    for geom, ref in ((g, r) for g in ('plate', 'cpanel') for r in ('no reference load', 'reference load Nxx, Nyy, Nxy defined')):
        it, calls = py_panel.mk()
        log = []
        install(it, 'compmech.panel._panel.Panel', log)

        def run():
            del log[:]
            extra = dict(Nxx=real('Nxx'), Nyy=real('Nyy'), Nxy=real('Nxy')) if ref.startswith('reference') else {}
            p, kw, want, g = py_panel.build(it, geom, 'uniform', 'none', extra)
            p.attrs['forces'] = [[real('xf'), real('yf'), real('fx'), real('fy'), real('fz')]]
            solver_settings(p)
            r = it.call(it.getattr(p, 'static'), [], dict(silent=True))
            return p, r, list(log)
        for path, out in it.explore(run):
            name = '%s[%s,%s]/solves the linear stiffness of the object against its load vector' % (func, geom, ref)
            if out[0] != 'return':
                py_panel.report(led, name + '/no-exception', func, ['raises %s%s' % (out[1].tname, tuple(str(a)[:80] for a in out[1].eargs))], signature='raise:' + out[1].tname)
                continue
            p, r, lg = out[1]
            probs = judge(p, lg, r)
            py_panel.report(led, name, func, probs, replay_panel_static if probs else None, signature='static-route:' + ';'.join(probs)[:100])
        led.solver_time('z3-feasibility', it.solver_time)


def replay_panel_static():
    from ..pyreplay import run_real
    script = '''
import numpy as np
from compmech.panel import Panel
from compmech.analysis import static
p = Panel(a=1., b=0.5, stack=[0, 90, 90, 0], plyt=1.25e-4, laminaprop=(142.5e9, 8.7e9, 0.28, 5.1e9, 5.1e9, 5.1e9), m=6, n=6)
p.Nxx = -250.
p.add_force(0.5, 0.25, 0., 0., 1.)
cs = p.static(silent=True)
K = p.calc_k0(silent=True); f = p.calc_fext(silent=True)
res = np.asarray(K.dot(cs[0])).ravel() - np.asarray(f).ravel()
out = {'relative_residual_K_c_minus_f': float(abs(res).max() / abs(np.asarray(f)).max())}
'''
    r = run_real(script, {})
    r['reproduced'] = bool(r.get('raised') or (r.get('relative_residual_K_c_minus_f') or 0) > 1e-8)
    r['input'] = 'Panel(a=1,b=.5,[0/90]s,m=n=6), Nxx=-250 (reference load of a buckling analysis), one transverse force; static()'
    r['real_function'] = 'Panel.static'
    return r


def check_conecyl_static(led):
    """the same obligation for ConeCyl.static(NLgeom=False): Analysis.static is executed (not replaced), calc_* / solve record"""
    from . import py_conecyl as PC
    func = PC.CC + 'static'
    led.function(func)
    led.function('compmech/analysis/analysis.py:Analysis.static')
    for load in ('Fc', 'Fc and a reference torque'):
        it = PC.mk()
        log = []
        install(it, 'compmech.conecyl.conecyl.ConeCyl', log)

        def run():
            del log[:]
            extra = dict(T=real('T')) if 'torque' in load else {}
            cc = PC.new_cc(it, alphadeg=real('alphadeg'), r2=real('r2'), L=real('L'), n2=2, stack=[real('th0')], plyt=real('plyt'), laminaprop=(real('E1'),),
                           Fc=real('Fc'), pdC=False, **extra)
            solver_settings(cc)
            r = it.call(it.getattr(cc, 'static'), [], dict(silent=True))
            return cc, r, list(log)
        for path, out in it.explore(run):
            name = '%s[NLgeom=False,%s]/solves the linear stiffness of the object against its load vector' % (func, load)
            if out[0] != 'return':
                led.fail(name + '/no-exception', func, {'raises': out[1].tname, 'args': [str(a)[:100] for a in out[1].eargs]}, signature='raise:' + out[1].tname)
                continue
            cc, r, lg = out[1]
            probs = judge(cc, lg, r)
            if probs:
                led.fail(name, func, {'differences': probs}, signature='static-route:' + ';'.join(probs)[:100])
            else:
                led.ok(name, func)
