import sys
from ..core import run_check
from . import py_panel
def main():
    return run_check('C02', lambda led: py_panel.check_calc_k0(led))
