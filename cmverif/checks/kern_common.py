"""Shared driver for the panel matrix kernels (fk0, fkG0, fkM, fkA*, fcA and their y1y2 variants)
of the four panel models."""
from fractions import Fraction

from ..poly import P, normal
from .. import kharness as K, kcheck, spec_panel as S, shims, pysym
from ..pysym import integer, real, to_z3

MODELS = 'compmech.panel.models.'
MODEL_FILES = {'plate': ('plate_clt_donnell_bardell', 3), 'plate_w': ('plate_clt_donnell_bardell_w', 1),
               'cpanel': ('cpanel_clt_donnell_bardell', 3), 'kpanel': ('kpanel_clt_donnell_bardell', 3)}
NSEC = 41
SLOPE_SIG = 'slope-sign: code is the Hessian for dr/dx = +sin(alpha) while its sections use r = rbot - sin(alpha)*x'


def geometry(model, panel, y12, slope_sign=-1):
    """(a, b, r, rp, cosa, xlim, ylim) as seen by the spec of one model"""
    a, b, r = panel.attrs['a'], panel.attrs['b'], panel.attrs['r']
    ylim = None
    if y12 is not None:
        ylim = (2 * y12[0] / b - 1, 2 * y12[1] / b - 1)
    if model != 'kpanel':
        return dict(a=a, b=b, r=(r if model == 'cpanel' else None), rp=None, cosa=None, xlim=None, ylim=ylim)
    alpha = panel.attrs['alpharad']
    sec = P.atom('section')
    x1 = a * sec * Fraction(1, NSEC)
    x2 = a * (sec + 1) * Fraction(1, NSEC)
    return dict(a=a, b=P.atom('b_sec'), r=P.atom('r_sec'), rp=shims.sym_sin(alpha) * slope_sign, cosa=shims.sym_cos(alpha),
                xlim=(2 * x1 / a - 1, 2 * x2 / a - 1), ylim=ylim)


def check_section_geometry(led, it, label, panel):
    a_, bbot, rbot, alpha = panel.attrs['a'], panel.attrs['b'], panel.attrs['r'], panel.attrs['alpharad']
    sec = P.atom('section')
    xm = (a_ * sec * Fraction(1, NSEC) + a_ * (sec + 1) * Fraction(1, NSEC)) * Fraction(1, 2)
    want = {'r_sec': rbot - shims.sym_sin(alpha) * xm, 'b_sec': P.atom('r_sec') * bbot / rbot}
    for alias, w in want.items():
        defs = it.local_defs.get(alias, [])
        nm = '%s/section-geometry/%s' % (label, alias)
        if not defs:
            led.fail(nm, label, {'reason': 'local not assigned'}, signature=alias)
        elif all(K.compare(v, w)[0] for v, _, _ in defs):
            led.ok(nm, label)
        else:
            led.fail(nm, label, {'code': str(defs[0][0]), 'spec': str(w)}, signature=alias)


def run(led, model, fname, scalars, form, reads_extra=(), y1y2=False, replay=None, cone_alt=True, emits_dofs=None, counters=('c',), collect=None):
    """form(panel, scal, geo) -> (ops, W, dofs, symmetric?)  describing the bilinear form  int g_A^T W g_B"""
    modname, num = MODEL_FILES[model]
    label = 'compmech/panel/models/%s.pyx:%s' % (modname, fname)
    led.function(label)
    it = K.make_interp(counters=counters)
    if model == 'kpanel':
        it.generic_concrete.add('section')
        it.contracts['extern.sin'] = lambda itp, args, kw: shims.sym_sin(args[0])
        it.contracts['extern.cos'] = lambda itp, args, kw: shims.sym_cos(args[0])
        it.abstract_locals[(fname, 'r')] = 'r_sec'
        it.abstract_locals[(fname, 'b')] = 'b_sec'
        it.facts += [to_z3(P.atom('r_sec')) > 0, to_z3(P.atom('b_sec')) > 0]
    panel = K.sym_panel(it)
    it.facts.append(to_z3(panel.attrs['r']) > 0)
    f = K.kernel_func(it, MODELS + modname, fname)
    size, row0 = integer('size'), integer('row0')
    col0 = row0
    m, n = panel.attrs['m'], panel.attrs['n']
    scal = {s: real(s) for s in scalars}
    args = []
    y12 = None
    if y1y2:
        y12 = (real('y1'), real('y2'))
        args += list(y12)
    args += [scal[s] for s in scalars] + [panel, size, row0, col0]
    res = it.explore(lambda: it.call(f, args, {}))
    if model == 'kpanel':
        check_section_geometry(led, it, label, panel)
    fx = {d: S.flagset(d, 'x') for d in 'uvw'}
    fy = {d: S.flagset(d, 'y') for d in 'uvw'}

    def make_entry(slope_sign):
        geo = geometry(model, panel, y12, slope_sign)
        ops, W, dofs = form(panel, scal, geo)

        def entry(p, q, I, J, Kk, L):
            dA, dB = dofs[p], dofs[q]
            if dA not in ops or dB not in ops:
                return P.const(0)
            return S.bilinear((dA, ops[dA]), (dB, ops[dB]), W, P.atom(I), P.atom(J), P.atom(Kk), P.atom(L), fx, fy,
                              geo['a'], geo['b'], geo['ylim'], geo['xlim'])
        return entry
    reads = set(K.FLAG_NAMES) | {'a', 'b', 'm', 'n', '__class__'} | set(reads_extra)
    if model in ('cpanel', 'kpanel'):
        reads |= {'r'}
    if model == 'kpanel':
        reads |= {'alpharad'}
    alt = {SLOPE_SIG: make_entry(+1)} if (model == 'kpanel' and cone_alt) else None
    n_emit = kcheck.check_kernel(led, it, label, res, make_entry(-1), num, row0, col0, m, n, expect_reads=reads,
                                 capacity_factor=lambda cnt: P.const(cnt) * m * m * n * n, alt_specs=alt,
                                 extra_index_atoms=('section',) if model == 'kpanel' else (), replay=replay, collect=collect)
    if collect is not None:
        collect.update(panel=panel, scal=scal, y12=y12, spec=make_entry(-1), num=num)
    led.solver_time('z3-feasibility', it.solver_time)
    return n_emit
