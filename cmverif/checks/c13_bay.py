"""StiffPanelBay part of C13 (filled in below)"""


def body(led):
    pass
