"""StiffPanelBay part of C13: size and placement of the components (skin panels and 1-D stiffeners at 0, 2-D stiffeners
at running offsets after the skin block), sum of the component matrices, symmetrisation.

The stiffener objects are abstract here (their own calc_* methods are under contract in the stiffener checks): each
exposes flange/base sub-panels with symbolic sizes and a calc_k0/calc_kG0/calc_kM(size,row0,col0,...) method that records
where it was asked to put its block."""
import itertools

from ..poly import P, normal
from .. import pysym, shims, panelctx, pycheck
from ..pysym import Interp, real, integer, Opaque, Obj, SymRaise
from . import py_panel
from .py_panel import report

BF = 'compmech/stiffpanelbay/stiffpanelbay.py:StiffPanelBay.'


def stub_panel(name, size):
    o = Obj(None)
    o.name = name
    o.attrs['get_size'] = lambda: size
    return o


def make_stiffener(kind, idx, log):
    s = Obj(None)
    s.name = '%s#%d' % (kind, idx)
    s.attrs['_rebuild'] = lambda: None
    sizes = {}
    if kind == 'blade2d':
        sizes['flange'] = integer('sz_bf%d' % idx)
        s.attrs['flange'] = stub_panel(s.name + '.flange', sizes['flange'])
        s.attrs['base'] = None
    elif kind == 't2d':
        sizes['base'] = integer('sz_tb%d' % idx)
        sizes['flange'] = integer('sz_tf%d' % idx)
        s.attrs['base'] = stub_panel(s.name + '.base', sizes['base'])
        s.attrs['flange'] = stub_panel(s.name + '.flange', sizes['flange'])
    for which in ('k0', 'kG0', 'kM'):
        def calc(which=which, **kw):
            log.append((s.name, which, dict(kw)))
            s.attrs[which] = Opaque('stiffener-matrix', who=s.name, which=which,
                                    size=kw.get('size'), row0=kw.get('row0'), col0=kw.get('col0'))
            return s.attrs[which]
        s.attrs['calc_' + which] = calc
    s.sizes = sizes
    return s


def peq(a, b):
    a = a if isinstance(a, P) else P.const(a)
    b = b if isinstance(b, P) else P.const(b)
    return normal(a - b).is_zero()


def check_bay(led):
    led.function(BF + 'get_size')
    for which in ('k0', 'kG0', 'kM'):
        led.function(BF + 'calc_' + which)
    led.function(BF + '_rebuild')
    it, calls = py_panel.mk()
    bmod = it.module('compmech.stiffpanelbay.stiffpanelbay')
    for n1, n2, n3, npan in itertools.product((0, 1, 2), (0, 1, 2), (0, 1, 2), (1, 2)):
        if npan == 2 and (n1, n2, n3) not in ((0, 0, 0), (1, 1, 1), (2, 2, 2)):
            continue
        tag = 'panels=%d,blade1d=%d,blade2d=%d,tstiff2d=%d' % (npan, n1, n2, n3)
        for which in ('k0', 'kG0', 'kM'):
            log = []
            wants = []

            def run():
                del log[:]
                bay = it.call(bmod.g['StiffPanelBay'], [], {})
                a, b = real('a'), real('b')
                m, n = integer('m'), integer('n')
                bay.attrs.update(a=a, b=b, m=m, n=n, mu=real('mu'))
                panels = []
                del wants[:]
                ycuts = [P.const(0)] + [real('ycut%d' % i) for i in range(1, npan)] + [b]
                for i in range(npan):
                    # every skin panel has its own laminate, density and edge flags: what the kernel term of panel i sees must be panel i's
                    p, kw_, want_, g_ = py_panel.build(it, 'plate', 'uniform', 'none', dict(a=a, b=b, m=m, n=n, y1=ycuts[i], y2=ycuts[i + 1]), sfx='_s%d' % i)
                    p.name = 'skin%d' % i
                    want_.update(a=a, b=b, m=m, n=n)
                    wants.append((kw_, want_, g_))
                    panels.append(p)
                bay.attrs['panels'] = panels
                b1 = [make_stiffener('blade1d', i, log) for i in range(n1)]
                b2 = [make_stiffener('blade2d', i, log) for i in range(n2)]
                t2 = [make_stiffener('t2d', i, log) for i in range(n3)]
                bay.attrs['bladestiff1ds'] = b1
                bay.attrs['bladestiff2ds'] = b2
                bay.attrs['tstiff2ds'] = t2
                del calls[:]
                r = it.call(it.getattr(bay, 'calc_' + which), [], dict(silent=True))
                size = it.call(it.getattr(bay, 'get_size'), [], {})
                return bay, panels, b1, b2, t2, r, size, list(log), (m, n), list(wants), list(ycuts)
            for path, out in it.explore(run):
                func = BF + 'calc_' + which
                name = '%s[%s]' % (func, tag)
                if out[0] != 'return':
                    report(led, name + '/no-exception', func, ['raises %s%s' % (out[1].tname, tuple(str(x)[:80] for x in out[1].eargs))], signature='raise:' + out[1].tname)
                    continue
                bay, panels, b1, b2, t2, r, size, lg, (m, n), wts, ycuts = out[1]
                skin = 3 * m * n
                tot = skin
                starts = {}
                for s in b2:
                    starts[s.name] = tot
                    tot = tot + s.sizes['flange']
                for s in t2:
                    starts[s.name] = tot
                    tot = tot + s.sizes['base'] + s.sizes['flange']
                probs = []
                if not peq(size, tot):
                    probs.append('get_size() = %s, expected the sum of the component sizes %s' % (pycheck.describe(size), pycheck.describe(tot)))
                # stiffener blocks
                seen = {}
                for who, w, kw in lg:
                    if w != which:
                        probs.append('%s asked for %s while computing %s' % (who, w, which))
                        continue
                    seen[who] = kw
                for s in b1 + b2 + t2:
                    kw = seen.get(s.name)
                    if kw is None:
                        probs.append('%s does not contribute to %s' % (s.name, which))
                        continue
                    want0 = starts.get(s.name, P.const(0))
                    if not peq(kw.get('row0'), want0) or not peq(kw.get('col0'), want0):
                        probs.append('%s placed at row0=%s col0=%s, expected %s (skin block + sizes of the 2-D stiffeners before it)'
                                     % (s.name, pycheck.describe(kw.get('row0')), pycheck.describe(kw.get('col0')), pycheck.describe(want0)))
                    if not peq(kw.get('size'), tot):
                        probs.append('%s computed for global size %s, expected %s' % (s.name, pycheck.describe(kw.get('size')), pycheck.describe(tot)))
                    if kw.get('finalize') is not False:
                        probs.append('%s finalized before assembly' % s.name)
                # skin panels: kernel terms at offset 0 with the global size
                wrap, terms = pycheck.terms_of(r)
                if wrap[:1] != ['symmetrized']:
                    probs.append('assembled matrix not symmetrized')
                kern = [t for k_, t in terms if isinstance(t, Opaque) and t.kind == 'kernel']
                stiff = [t for k_, t in terms if isinstance(t, Opaque) and t.kind == 'stiffener-matrix']
                if len(kern) != len(panels):
                    probs.append('%d skin kernel terms, expected %d' % (len(kern), len(panels)))
                if len(kern) == len(panels):
                    fn = {'k0': 'fk0y1y2', 'kG0': 'fkG0y1y2', 'kM': 'fkMy1y2'}[which]
                    for i, (t, (kw_, want_, g_)) in enumerate(zip(kern, wts)):
                        args = dict(y1=ycuts[i], y2=ycuts[i + 1])
                        if which == 'kM':
                            args['d'] = kw_['offset']
                        d = pycheck.diff_kernel(t, fn, g_['model'], args, want_)
                        probs += ['skin panel %d: %s' % (i, x) for x in d if not x.startswith('unexpected argument')]
                for t in kern:
                    a_ = t.f['args']
                    if not (peq(a_.get('row0'), 0) and peq(a_.get('col0'), 0) and peq(a_.get('size'), tot)):
                        probs.append('skin term placed at row0=%s col0=%s size=%s, expected 0, 0, %s' % (pycheck.describe(a_.get('row0')), pycheck.describe(a_.get('col0')),
                                                                                                     pycheck.describe(a_.get('size')), pycheck.describe(tot)))
                if len(stiff) != len(b1 + b2 + t2):
                    probs.append('%d stiffener terms in the sum, expected %d' % (len(stiff), len(b1 + b2 + t2)))
                if any(k_ != 1 for k_, t in terms):
                    probs.append('a component is scaled')
                report(led, name, func, probs)
    led.solver_time('z3-feasibility', it.solver_time)
    led.bounded_item('StiffPanelBay: 0..2 stiffeners of each of the three kinds, 1..2 skin panels (sizes, cut positions, series orders symbolic)')


def body(led):
    check_bay(led)
