"""StiffPanelBay part of C13: size and placement of the components (skin panels and 1-D stiffeners at 0, 2-D stiffeners
at running offsets after the skin block), sum of the component matrices, symmetrisation.

The stiffener objects are abstract here (their own calc_* methods are under contract in the stiffener checks): each
exposes flange/base sub-panels with symbolic sizes and a calc_k0/calc_kG0/calc_kM(size,row0,col0,...) method that records
where it was asked to put its block."""
import itertools

from ..poly import P, normal
from .. import pysym, shims, panelctx, pycheck
from ..pysym import Interp, real, integer, Opaque, Obj, SymRaise
from . import py_panel
from .py_panel import report

BF = 'compmech/stiffpanelbay/stiffpanelbay.py:StiffPanelBay.'


def stub_panel(name, size):
    o = Obj(None)
    o.name = name
    o.attrs['get_size'] = lambda: size
    return o


def make_stiffener(kind, idx, log):
    s = Obj(None)
    s.name = '%s#%d' % (kind, idx)
    s.attrs['_rebuild'] = lambda: None
    sizes = {}
    if kind == 'blade2d':
        sizes['flange'] = integer('sz_bf%d' % idx)
        s.attrs['flange'] = stub_panel(s.name + '.flange', sizes['flange'])
        s.attrs['base'] = None
    elif kind == 't2d':
        sizes['base'] = integer('sz_tb%d' % idx)
        sizes['flange'] = integer('sz_tf%d' % idx)
        s.attrs['base'] = stub_panel(s.name + '.base', sizes['base'])
        s.attrs['flange'] = stub_panel(s.name + '.flange', sizes['flange'])
    for which in ('k0', 'kG0', 'kM'):
        def calc(which=which, **kw):
            log.append((s.name, which, dict(kw)))
            s.attrs[which] = Opaque('stiffener-matrix', who=s.name, which=which,
                                    size=kw.get('size'), row0=kw.get('row0'), col0=kw.get('col0'))
            return s.attrs[which]
        s.attrs['calc_' + which] = calc
    s.sizes = sizes
    return s


def peq(a, b):
    a = a if isinstance(a, P) else P.const(a)
    b = b if isinstance(b, P) else P.const(b)
    return normal(a - b).is_zero()


def check_bay(led):
    led.function(BF + 'get_size')
    for which in ('k0', 'kG0', 'kM'):
        led.function(BF + 'calc_' + which)
    led.function(BF + '_rebuild')
    it, calls = py_panel.mk()
    bmod = it.module('compmech.stiffpanelbay.stiffpanelbay')
    for n1, n2, n3, npan in itertools.product((0, 1, 2), (0, 1, 2), (0, 1, 2), (1, 2)):
        if npan == 2 and (n1, n2, n3) not in ((0, 0, 0), (1, 1, 1), (2, 2, 2)):
            continue
        tag = 'panels=%d,blade1d=%d,blade2d=%d,tstiff2d=%d' % (npan, n1, n2, n3)
        for which in ('k0', 'kG0', 'kM'):
            log = []
            wants = []

            def run():
                del log[:]
                bay = it.call(bmod.g['StiffPanelBay'], [], {})
                a, b = real('a'), real('b')
                m, n = integer('m'), integer('n')
                bay.attrs.update(a=a, b=b, m=m, n=n, mu=real('mu'))
                panels = []
                del wants[:]
                ycuts = [P.const(0)] + [real('ycut%d' % i) for i in range(1, npan)] + [b]
                for i in range(npan):
                    # every skin panel has its own laminate, density and edge flags: what the kernel term of panel i sees must be panel i's
                    p, kw_, want_, g_ = py_panel.build(it, 'plate', 'uniform', 'none', dict(a=a, b=b, m=m, n=n, y1=ycuts[i], y2=ycuts[i + 1]), sfx='_s%d' % i)
                    p.name = 'skin%d' % i
                    want_.update(a=a, b=b, m=m, n=n)
                    wants.append((kw_, want_, g_))
                    panels.append(p)
                bay.attrs['panels'] = panels
                b1 = [make_stiffener('blade1d', i, log) for i in range(n1)]
                b2 = [make_stiffener('blade2d', i, log) for i in range(n2)]
                t2 = [make_stiffener('t2d', i, log) for i in range(n3)]
                bay.attrs['bladestiff1ds'] = b1
                bay.attrs['bladestiff2ds'] = b2
                bay.attrs['tstiff2ds'] = t2
                del calls[:]
                r = it.call(it.getattr(bay, 'calc_' + which), [], dict(silent=True))
                size = it.call(it.getattr(bay, 'get_size'), [], {})
                return bay, panels, b1, b2, t2, r, size, list(log), (m, n), list(wants), list(ycuts)
            for path, out in it.explore(run):
                func = BF + 'calc_' + which
                name = '%s[%s]' % (func, tag)
                if out[0] != 'return':
                    report(led, name + '/no-exception', func, ['raises %s%s' % (out[1].tname, tuple(str(x)[:80] for x in out[1].eargs))], signature='raise:' + out[1].tname)
                    continue
                bay, panels, b1, b2, t2, r, size, lg, (m, n), wts, ycuts = out[1]
                skin = 3 * m * n
                tot = skin
                starts = {}
                for s in b2:
                    starts[s.name] = tot
                    tot = tot + s.sizes['flange']
                for s in t2:
                    starts[s.name] = tot
                    tot = tot + s.sizes['base'] + s.sizes['flange']
                probs = []
                if not peq(size, tot):
                    probs.append('get_size() = %s, expected the sum of the component sizes %s' % (pycheck.describe(size), pycheck.describe(tot)))
                # stiffener blocks
                seen = {}
                for who, w, kw in lg:
                    if w != which:
                        probs.append('%s asked for %s while computing %s' % (who, w, which))
                        continue
                    seen[who] = kw
                for s in b1 + b2 + t2:
                    kw = seen.get(s.name)
                    if kw is None:
                        probs.append('%s does not contribute to %s' % (s.name, which))
                        continue
                    want0 = starts.get(s.name, P.const(0))
                    if not peq(kw.get('row0'), want0) or not peq(kw.get('col0'), want0):
                        probs.append('%s placed at row0=%s col0=%s, expected %s (skin block + sizes of the 2-D stiffeners before it)'
                                     % (s.name, pycheck.describe(kw.get('row0')), pycheck.describe(kw.get('col0')), pycheck.describe(want0)))
                    if not peq(kw.get('size'), tot):
                        probs.append('%s computed for global size %s, expected %s' % (s.name, pycheck.describe(kw.get('size')), pycheck.describe(tot)))
                    if kw.get('finalize') is not False:
                        probs.append('%s finalized before assembly' % s.name)
                # skin panels: kernel terms at offset 0 with the global size
                wrap, terms = pycheck.terms_of(r)
                if wrap[:1] != ['symmetrized']:
                    probs.append('assembled matrix not symmetrized')
                kern = [t for k_, t in terms if isinstance(t, Opaque) and t.kind == 'kernel']
                stiff = [t for k_, t in terms if isinstance(t, Opaque) and t.kind == 'stiffener-matrix']
                if len(kern) != len(panels):
                    probs.append('%d skin kernel terms, expected %d' % (len(kern), len(panels)))
                if len(kern) == len(panels):
                    fn = {'k0': 'fk0y1y2', 'kG0': 'fkG0y1y2', 'kM': 'fkMy1y2'}[which]
                    for i, (t, (kw_, want_, g_)) in enumerate(zip(kern, wts)):
                        args = dict(y1=ycuts[i], y2=ycuts[i + 1])
                        if which == 'kM':
                            args['d'] = kw_['offset']
                        d = pycheck.diff_kernel(t, fn, g_['model'], args, want_)
                        probs += ['skin panel %d: %s' % (i, x) for x in d if not x.startswith('unexpected argument')]
                for t in kern:
                    a_ = t.f['args']
                    if not (peq(a_.get('row0'), 0) and peq(a_.get('col0'), 0) and peq(a_.get('size'), tot)):
                        probs.append('skin term placed at row0=%s col0=%s size=%s, expected 0, 0, %s' % (pycheck.describe(a_.get('row0')), pycheck.describe(a_.get('col0')),
                                                                                                     pycheck.describe(a_.get('size')), pycheck.describe(tot)))
                if len(stiff) != len(b1 + b2 + t2):
                    probs.append('%d stiffener terms in the sum, expected %d' % (len(stiff), len(b1 + b2 + t2)))
                if any(k_ != 1 for k_, t in terms):
                    probs.append('a component is scaled')
                report(led, name, func, probs)
    led.solver_time('z3-feasibility', it.solver_time)
    led.bounded_item('StiffPanelBay: 0..2 stiffeners of each of the three kinds, 1..2 skin panels (sizes, cut positions, series orders symbolic)')


def body(led):
    check_bay(led)
    check_constructors(led)


# ----------------------------------------------------------------------------------------------------------------------------
def check_constructors(led):
    """StiffPanelBay.add_panel / add_bladestiff1d / add_bladestiff2d / add_tstiff2d: the component that is created carries the arguments
    given (each optional argument falls back to the bay's own value only when it is not given; a single ply thickness / material is
    expanded to one entry per ply of ITS laminate), sits between the two skin panels adjacent to its position, and is registered in the
    lists the assembly methods run over.  Real constructors of Panel and of the stiffener classes; laminates through the C01 contract."""
    from .py_stiffeners import _with_plies, MAT
    from ..kharness import FLAG_NAMES
    from ..pysym import to_z3
    it, calls = py_panel.mk()
    _with_plies(it)
    bmod = it.module('compmech.stiffpanelbay.stiffpanelbay')
    it.np.isclose = lambda x, y, **k: pysym.compare('==', x if isinstance(x, P) else P.const(x), y if isinstance(y, P) else P.const(y))
    it.algebraic_minmax = True

    def new_bay():
        bay = it.call(bmod.g['StiffPanelBay'], [], {})
        bay.attrs.update(a=real('a'), b=real('b'), m=integer('m'), n=integer('n'), mu=real('mu_bay'), r=real('r_bay'), alphadeg=real('alphadeg_bay'),
                         model='kpanel_clt_donnell_bardell', stack=[real('th_bay')], plyt=real('t_bay'),
                         laminaprop=tuple(real(x + '_bay') for x in MAT))
        for f in FLAG_NAMES:
            bay.attrs[f] = real(f + '_bay')
        return bay
    it.facts += [to_z3(real('b')) > 0, to_z3(real('ycut')) > 0, to_z3(real('ycut')) < to_z3(real('b')), to_z3(real('a')) > 0]

    def same(g, w):
        if isinstance(w, (list, tuple)):
            return isinstance(g, (list, tuple)) and len(g) == len(w) and all(same(x, y) for x, y in zip(g, w))
        if isinstance(w, P) or isinstance(g, P):
            try:
                return peq(g, w)
            except Exception:
                return False
        return g == w or g is w

    # ---- add_panel
    func = BF + 'add_panel'
    led.function(func)
    given = dict(stack=[real('th_p0'), real('th_p1')], plyt=real('t_p'), plyts=[real('t_p0'), real('t_p1')], laminaprop=tuple(real(x + '_p') for x in MAT),
                 laminaprops=[tuple(real(x + '_p%d' % i) for x in MAT) for i in range(2)], mu=real('mu_p'), model='plate_clt_donnell_bardell_w')
    for case in ('defaults', 'everything given', 'extra attribute'):
        def run():
            bay = new_bay()
            kw = dict(y1=real('ycut'), y2=real('b'))
            if case == 'everything given':
                kw.update(given)
            if case == 'extra attribute':
                kw.update(Nxx_cte=real('Nxx_extra'))
            p = it.call(it.getattr(bay, 'add_panel'), [], kw)
            return bay, p
        for path, out in it.explore(run):
            name = '%s[%s]' % (func, case)
            if out[0] != 'return':
                report(led, name + '/no-exception', func, ['raises %s%s' % (out[1].tname, tuple(str(x)[:80] for x in out[1].eargs))], signature='raise:' + out[1].tname)
                continue
            bay, p = out[1]
            probs = []
            for k_ in ('a', 'b', 'm', 'n', 'r', 'alphadeg') + tuple(FLAG_NAMES):
                if not same(p.attrs.get(k_), bay.attrs.get(k_)):
                    probs.append('panel.%s = %s, the bay has %s' % (k_, pycheck.describe(p.attrs.get(k_)), pycheck.describe(bay.attrs.get(k_))))
            if not same(p.attrs.get('y1'), real('ycut')) or not same(p.attrs.get('y2'), real('b')):
                probs.append('panel.y1, y2 = %s, %s' % (pycheck.describe(p.attrs.get('y1')), pycheck.describe(p.attrs.get('y2'))))
            for k_ in ('stack', 'plyt', 'plyts', 'laminaprop', 'laminaprops', 'mu', 'model'):
                w = given[k_] if case == 'everything given' else bay.attrs.get(k_)
                if not same(p.attrs.get(k_), w):
                    probs.append('panel.%s = %s, expected %s (%s)' % (k_, pycheck.describe(p.attrs.get(k_)), pycheck.describe(w), 'the argument' if case == 'everything given' else 'the value of the bay'))
            if case == 'extra attribute' and not same(p.attrs.get('Nxx_cte'), real('Nxx_extra')):
                probs.append('the extra keyword is not set on the panel')
            if not (bay.attrs['panels'] and bay.attrs['panels'][-1] is p):
                probs.append('the panel is not appended to bay.panels')
            report(led, name, func, probs, signature='add_panel:' + case)

    # ---- stiffeners
    for kind, meth, lst in (('blade1d', 'add_bladestiff1d', 'bladestiff1ds'), ('blade2d', 'add_bladestiff2d', 'bladestiff2ds'), ('t2d', 'add_tstiff2d', 'tstiff2ds')):
        func = BF + meth
        led.function(func)
        for form, mu_given, pos in itertools.product(('single thickness and material', 'per-ply lists'), (False, True), ('interior', 'edge y=0', 'edge y=b')):
            if pos != 'interior' and (mu_given or form != 'per-ply lists'):
                continue
            ys_val = {'interior': real('ycut'), 'edge y=0': P.const(0), 'edge y=b': real('b')}[pos]
            bstack = [real('thb0'), real('thb1'), real('thb2')]
            fstack = [real('thf0'), real('thf1')]
            matb, matf = tuple(real(x + '_b') for x in MAT), tuple(real(x + '_f') for x in MAT)
            kw = dict(ys=ys_val, bb=real('bb'), bf=real('bf'), bstack=bstack, fstack=fstack)
            if form.startswith('single'):
                kw.update(bplyt=real('tb'), blaminaprop=matb, fplyt=real('tf'), flaminaprop=matf)
                want = dict(bplyts=[real('tb')] * 3, blaminaprops=[matb] * 3, fplyts=[real('tf')] * 2, flaminaprops=[matf] * 2)
            else:
                want = dict(bplyts=[real('tb%d' % i) for i in range(3)], blaminaprops=[tuple(real(x + '_b%d' % i) for x in MAT) for i in range(3)],
                            fplyts=[real('tf%d' % i) for i in range(2)], flaminaprops=[tuple(real(x + '_f%d' % i) for x in MAT) for i in range(2)])
                kw.update(want)
            if mu_given:
                kw['mu'] = real('mu_stiffener')
            if kind == 'blade2d':
                kw.update(mf=integer('mf'), nf=integer('nf'))
            if kind == 't2d':
                kw.update(mb=integer('mb'), nb=integer('nb'), mf=integer('mf'), nf=integer('nf'))

            def run():
                bay = new_bay()
                p1 = it.call(it.getattr(bay, 'add_panel'), [], dict(y1=P.const(0), y2=real('ycut')))
                p2 = it.call(it.getattr(bay, 'add_panel'), [], dict(y1=real('ycut'), y2=real('b')))
                s = it.call(it.getattr(bay, meth), [], dict(kw))
                return bay, p1, p2, s
            for path, out in it.explore(run):
                name = '%s[%s,mu %s%s]' % (func, form, 'given' if mu_given else 'from the bay', '' if pos == 'interior' else ',' + pos)
                if out[0] != 'return':
                    if out[1].tname == 'RuntimeError' and 'a/b > 10' in ''.join(str(x) for x in out[1].eargs):
                        continue          # documented refusal of slender T-stiffener components with low series orders
                    report(led, name + '/no-exception', func, ['raises %s%s' % (out[1].tname, tuple(str(x)[:80] for x in out[1].eargs))], signature='raise:' + out[1].tname)
                    continue
                bay, p1, p2, s = out[1]
                probs = []
                a_ = s.attrs
                if 'mu' in a_ and not same(a_.get('mu'), real('mu_stiffener') if mu_given else bay.attrs['mu']):
                    probs.append('stiffener.mu = %s' % pycheck.describe(a_.get('mu')))
                wp1, wp2 = {'interior': (p1, p2), 'edge y=0': (p1, p1), 'edge y=b': (p2, p2)}[pos]
                if a_.get('panel1') is not wp1 or a_.get('panel2') is not wp2:
                    probs.append('panel1 / panel2 are not the skin panels that end / start at the stiffener position (the edge panel on both sides for a stiffener on an edge)')
                if a_.get('bay') is not bay:
                    probs.append('stiffener.bay is not the bay')
                for k_, w in (('ys', ys_val), ('bb', real('bb')), ('bstack', bstack), ('bplyts', want['bplyts']), ('blaminaprops', want['blaminaprops'])):
                    if k_ in a_ and not same(a_[k_], w):
                        probs.append('stiffener.%s = %s, expected %s' % (k_, pycheck.describe(a_[k_]), pycheck.describe(w)))
                # the laminate definitions must arrive at the component panels / beam constants
                comp = {'base': a_.get('base'), 'flange': a_.get('flange')}
                for lab, stack_, plyts_, props_ in (('base', bstack, want['bplyts'], want['blaminaprops']), ('flange', fstack, want['fplyts'], want['flaminaprops'])):
                    c_ = comp[lab]
                    if c_ is None:
                        if not (kind == 'blade1d' and lab == 'flange'):
                            probs.append('no %s panel' % lab)
                        continue
                    geo_ = [('r', bay.attrs['r']), ('alphadeg', bay.attrs['alphadeg'])] if lab == 'base' else []     # the base follows the skin surface
                    for k_, w in [('stack', stack_), ('plyts', plyts_), ('laminaprops', props_), ('mu', real('mu_stiffener') if mu_given else bay.attrs['mu'])] + geo_:
                        if not same(c_.attrs.get(k_), w):
                            probs.append('%s.%s = %s, expected %s' % (lab, k_, pycheck.describe(c_.attrs.get(k_)), pycheck.describe(w)))
                if kind == 'blade1d':
                    for k_, w in (('fstack', fstack), ('fplyts', want['fplyts']), ('flaminaprops', want['flaminaprops']), ('bf', real('bf'))):
                        if not same(a_.get(k_), w):
                            probs.append('stiffener.%s = %s, expected %s' % (k_, pycheck.describe(a_.get(k_)), pycheck.describe(w)))
                if kind in ('blade2d', 't2d'):
                    fl = comp['flange']
                    if fl is not None and not (same(fl.attrs.get('m'), integer('mf')) and same(fl.attrs.get('n'), integer('nf')) and same(fl.attrs.get('b'), real('bf'))):
                        probs.append('flange orders / width are not mf, nf, bf')
                if kind == 't2d':
                    ba = comp['base']
                    if ba is not None and not (same(ba.attrs.get('m'), integer('mb')) and same(ba.attrs.get('n'), integer('nb')) and same(ba.attrs.get('b'), real('bb'))):
                        probs.append('base orders / width are not mb, nb, bb')
                if not (bay.attrs[lst] and bay.attrs[lst][-1] is s and bay.attrs['stiffeners'] and bay.attrs['stiffeners'][-1] is s):
                    probs.append('the stiffener is not registered in bay.%s and bay.stiffeners' % lst)
                others = [l_ for l_ in ('bladestiff1ds', 'bladestiff2ds', 'tstiff2ds') if l_ != lst and bay.attrs[l_]]
                if others:
                    probs.append('the stiffener is also registered in %s' % others)
                report(led, name, func, probs, signature='%s:%s' % (meth, ';'.join(probs)[:100]))
    led.solver_time('z3-feasibility', it.solver_time)
