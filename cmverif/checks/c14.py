"""C14 -- equivalent descriptions of one structure give identical matrices.

Relational obligations between the real kernel texts (values extracted by the same symbolic execution as in C02-C04) and between
spec instances:
  (a) cone at alpha=0 == cylinder: per-section value with sin=0, cos=1 equals the cylinder integrand on the section, and the
      sub-interval table contracts telescope to the full-interval ones (exhaustive lemma over the C10 spec polynomials);
  (b) cylinder - plate: every monomial of the difference carries a negative power of r (=> O(1/r));
  (c) w-only plate entry == (w,w) entry of the full plate model, for k0, kG0, kM;
  (d) numerical kernels at NLgeom=0: integrand == analytic integrand (homomorphism: each 1-D integral atom is replaced by the
      product of the two function values at the point); equality of the matrices then needs only Gauss exactness (C10);
  (e) x<->y exchange symmetry of the energy Hessian (spec instances; code == spec by C02-C04);
  (f) similarity laws: every monomial of a stiffness entry has weighted degree 1 in lengths and 1 in moduli, every monomial of
      a mass entry degree 3 in lengths and 1 in density.
Eigenvalue consequences rest on C05/C06 (and on the cited scaling argument), not re-proved here.
"""
import re
import sys
from fractions import Fraction

from ..core import run_check, Ledger
from ..poly import P, normal, rational_close, mono_text
from .. import kharness as K, spec_panel as S, bardell_spec as B, kernel
from ..pysym import real, integer
from . import kern_common as KC, c02, c03, c04


class Quiet(object):
    """ledger stand-in used to extract kernel values without re-counting the C02-C04 obligations"""
    def __getattr__(self, name):
        return lambda *a, **k: None


def values(model, fname, scalars, form, y=False):
    col = {}
    KC.run(Quiet(), model, fname, scalars, form, y1y2=y, collect=col)
    return col


def lemma_telescoping(led):
    func = 'lemma(C14a): sub-interval tables telescope to the full-interval tables'
    bad = []
    x1, x2, x3 = P.atom('xi1'), P.atom('xi2'), P.atom('xi3')
    for fam in ('ff', 'ffxi', 'ffxixi', 'fxifxi', 'fxifxixi', 'fxixifxixi'):
        for i in range(30):
            for j in range(30):
                s12 = B.spec_12(fam, i, j)
                full = B.spec_full(fam, i, j)
                if normal(s12.subs({'xi1': -1, 'xi2': 1}) - full).t:
                    bad.append((fam, i, j, 'full'))
                a = s12
                b = s12.subs({'xi1': P.atom('xi2'), 'xi2': P.atom('xi3')})
                c = s12.subs({'xi2': P.atom('xi3')})
                if normal(a + b - c).t:
                    bad.append((fam, i, j, 'additive'))
    if bad:
        led.fail(func, func, {'failing': bad[:5]})
    else:
        led.ok(func, func, backend='exact-rational(exhaustive 6x900)')


def cmp(led, name, func, lhs, rhs, sig=None):
    ok, badm, _ = rational_close(lhs if isinstance(lhs, P) else P.const(lhs), rhs if isinstance(rhs, P) else P.const(rhs))
    if ok:
        led.ok(name, func)
    else:
        led.fail(name, func, {'residual': [{'monomial': mono_text(m_)[:160], 'lhs': str(x), 'rhs': str(y)} for m_, x, y in badm[:3]]}, signature=sig or 'residual')
    return ok


def check_w_block(led):
    func = 'relation(C14c): plate_w == (w,w) block of plate'
    for fname, scal, form_of in (('fk0', [], c02.strain_form), ('fkG0', ['Nxx', 'Nyy', 'Nxy'], c03.prestress_form), ('fkM', ['d'], lambda m: c04.kinetic_form(m, +1))):
        full = values('plate', fname, scal, form_of('plate'))
        wonly = values('plate_w', fname, scal, form_of('plate_w'))
        if 'values' not in full or 'values' not in wonly:
            led.fail('%s/%s' % (func, fname), func, {'reason': 'kernel values could not be extracted'}, signature='extract')
            continue
        a_ = full['values'].get((2, 2), P.const(0))
        b_ = wonly['values'].get((0, 0), P.const(0))
        # loop variable names may differ between the two files: rename the w-only roles to the full-plate roles
        for old, new in zip(wonly['roles'], full['roles']):
            if old != new:
                b_ = kernel.rename_var(b_, old, '%' + new)
        for new in full['roles']:
            b_ = kernel.rename_var(b_, '%' + new, new)
        cmp(led, '%s/%s' % (func, fname), func, b_, a_, sig='wblock:' + fname)


def check_cyl_minus_plate(led):
    func = 'relation(C14b): cylinder - plate = O(1/r)'
    for fname, scal, form_of in (('fk0', [], c02.strain_form), ('fkG0', ['Nxx', 'Nyy', 'Nxy'], c03.prestress_form), ('fkM', ['d'], lambda m: c04.kinetic_form(m, +1))):
        pl = values('plate', fname, scal, form_of('plate'))
        cy = values('cpanel', fname, scal, form_of('cpanel'))
        if 'values' not in pl or 'values' not in cy:
            led.fail('%s/%s' % (func, fname), func, {'reason': 'kernel values could not be extracted'}, signature='extract')
            continue
        for p in range(3):
            for q in range(3):
                d = cy['values'].get((p, q), P.const(0))
                e = pl['values'].get((p, q), P.const(0))
                for old, new in zip(pl['roles'], cy['roles']):
                    if old != new:
                        e = kernel.rename_var(e, old, new)
                diff = normal(d - e)
                bad = [mono_text(m_)[:120] for m_ in diff.t if dict(m_).get('r', 0) >= 0]
                name = '%s/%s[%d,%d]' % (func, fname, p, q)
                if bad:
                    led.fail(name, func, {'monomials_without_negative_power_of_r': bad[:3]}, signature='O(1/r):%s%d%d' % (fname, p, q))
                else:
                    led.ok(name, func)


def check_cone_zero(led):
    func = 'relation(C14a): cone at alpha=0 == cylinder on each section'
    for fname, scal, form_of in (('fk0', [], c02.strain_form), ('fkG0', ['Nxx', 'Nyy', 'Nxy'], c03.prestress_form), ('fkM', ['d'], None)):
        if form_of is None:
            # the relation is between the two KERNELS: the cylinder description is the spec variant the cylinder kernel satisfies
            cyv = values('cpanel', 'fkM', ['d'], c04.kinetic_form('cpanel', +1))
            sgn = +1
            if 'values' in cyv and not rational_close(cyv['values'].get((0, 2), P.const(0)), cyv['spec'](0, 2, *cyv['roles']))[0]:
                sgn = -1
            form_of = lambda m, sgn=sgn: c04.kinetic_form(m, sgn)
        ko = values('kpanel', fname, scal, form_of('kpanel'))
        if 'values' not in ko:
            led.fail('%s/%s' % (func, fname), func, {'reason': 'kernel values could not be extracted'}, signature='extract')
            continue
        panel = ko['panel']
        a, b, r = panel.attrs['a'], panel.attrs['b'], panel.attrs['r']
        # cylinder spec restricted to the section (x-limits of the section), built from the cylinder operator
        I, J, Kk, L = ko['roles']
        geo = KC.geometry('kpanel', panel, ko['y12'])
        cyl_geo = dict(a=a, b=b, r=r, rp=None, cosa=None, xlim=geo['xlim'], ylim=None)
        ops, W, dofs = form_of('cpanel')(panel, ko['scal'], cyl_geo)
        fx = {d: S.flagset(d, 'x') for d in 'uvw'}
        fy = {d: S.flagset(d, 'y') for d in 'uvw'}
        alpha = panel.attrs['alpharad']
        sub = {'sin(%s)' % normal(alpha).text(): 0, 'cos(%s)' % normal(alpha).text(): 1, 'r_sec': r, 'b_sec': b}
        for p in range(3):
            for q in range(3):
                code = normal(ko['values'].get((p, q), P.const(0)).subs(sub))
                dA, dB = dofs[p], dofs[q]
                spec = S.bilinear((dA, ops[dA]), (dB, ops[dB]), W, P.atom(I), P.atom(J), P.atom(Kk), P.atom(L), fx, fy, a, b, None, geo['xlim']) \
                    if (dA in ops and dB in ops) else P.const(0)
                cmp(led, '%s/%s[%d,%d]' % (func, fname, p, q), func, code, spec, sig='cone0:%s%d%d' % (fname, p, q))


def check_exchange(led):
    """x<->y exchange of the plate energy Hessian (spec instances)"""
    func = 'lemma(C14e): axis exchange maps Hessian entries onto each other'
    a, b = real('a'), real('b')
    names = {}
    F = [[None] * 6 for _ in range(6)]
    Fx = [[None] * 6 for _ in range(6)]
    perm = {0: 1, 1: 0, 2: 2}
    for s in range(6):
        for t in range(6):
            blk = 'A' if (s < 3 and t < 3) else ('D' if (s >= 3 and t >= 3) else 'B')
            x, y = s % 3, t % 3
            F[s][t] = real('%s%d%d' % (blk, min(x, y) + 1, max(x, y) + 1))
            xs, ys_ = perm[x], perm[y]
            Fx[s][t] = real('%s%d%d' % (blk, min(xs, ys_) + 1, max(xs, ys_) + 1))
    fx = {d: S.flagset(d, 'x') for d in 'uvw'}
    fy = {d: S.flagset(d, 'y') for d in 'uvw'}
    swapd = {'u': 'v', 'v': 'u', 'w': 'w'}
    # exchanged panel: a<->b, the x-flags of u are the y-flags of v of the original, etc.
    fx2 = {d: fy[swapd[d]] for d in 'uvw'}
    fy2 = {d: fx[swapd[d]] for d in 'uvw'}
    ops1 = S.donnell_operators(a, b)
    ops2 = S.donnell_operators(b, a)
    W1, W2 = S.F_weights(F), S.F_weights(Fx)
    dofs = ('u', 'v', 'w')
    i, j, k, l = (P.atom(x) for x in 'ijkl')
    for p in range(3):
        for q in range(3):
            lhs = S.bilinear((dofs[p], ops1[dofs[p]]), (dofs[q], ops1[dofs[q]]), W1, i, j, k, l, fx, fy, a, b)
            p2, q2 = 'uvw'.index(swapd[dofs[p]]), 'uvw'.index(swapd[dofs[q]])
            rhs = S.bilinear((dofs[p2], ops2[dofs[p2]]), (dofs[q2], ops2[dofs[q2]]), W2, j, i, l, k, fx2, fy2, b, a)
            cmp(led, '%s/k0[%d,%d]' % (func, p, q), func, lhs, rhs, sig='exchange%d%d' % (p, q))


DEG_S = {'a': 1, 'b': 1, 'r': 1, 'r_sec': 1, 'b_sec': 1, 'y1': 1, 'y2': 1, 'd': 1}


def degrees(mono):
    ds, de, dq = 0, 0, 0
    for a_, e in mono:
        if a_ in DEG_S:
            ds += e * DEG_S[a_]
        elif re.match(r'^A[1-3][1-3]$', a_):
            ds += e
            de += e
        elif re.match(r'^B[1-3][1-3]$', a_):
            ds += 2 * e
            de += e
        elif re.match(r'^D[1-3][1-3]$', a_):
            ds += 3 * e
            de += e
        elif a_.startswith('SUM{') and 'tply' in a_:
            ds += e
        elif a_ == 'mu':
            dq += e
        elif a_ in ('Nxx', 'Nyy', 'Nxy'):
            de += e
            ds += e
    return ds, de, dq


def check_similarity(led):
    func = 'relation(C14f): similarity laws as homogeneity of the kernel entries'
    for model in ('plate', 'cpanel'):
        for fname, scal, form_of, want in (('fk0', [], c02.strain_form, (1, 1, 0)), ('fkG0', ['Nxx', 'Nyy', 'Nxy'], c03.prestress_form, (1, 1, 0)),
                                           ('fkM', ['d'], lambda m: c04.kinetic_form(m, +1), (3, 0, 1))):
            v = values(model, fname, scal, form_of(model))
            if 'values' not in v:
                led.fail('%s/%s.%s' % (func, model, fname), func, {'reason': 'kernel values could not be extracted'}, signature='extract')
                continue
            bad = []
            for (p, q), val in v['values'].items():
                for m_ in normal(val).t:
                    if degrees(m_) != want:
                        bad.append(((p, q), mono_text(m_)[:100], degrees(m_)))
            name = '%s/%s.%s homogeneous of degree (lengths,moduli,density)=%s' % (func, model, fname, want)
            if bad:
                led.fail(name, func, {'offending': bad[:3]}, signature='homog:%s.%s' % (model, fname))
            else:
                led.ok(name, func)


class _Premises(object):
    """ledger view that keeps only the obligations whose name contains one of the given fragments (premises shared with C01)"""
    def __init__(self, led, keep):
        self._led, self._keep = led, keep

    def __getattr__(self, name):
        f = getattr(self._led, name)
        if name in ('ok', 'fail', 'undecide'):
            def g(oname, *a, **kw):
                if any(k in oname for k in self._keep):
                    return f(oname, *a, **kw)
            return g
        return f


def check_exchange_premise(led):
    """the axis-exchange clause maps the laminate of one description onto the other by turning every ply by 90 degrees:
    Q(theta + 90) is the axis-exchanged Q(theta) -- proved on the real Lamina.rebuild (same obligations as in C01)"""
    from . import c01
    c01.part_lamina(_Premises(led, ('/rotate-90[', '/mirror-angle[')))
    # the similarity law (moduli x e, lengths x s) needs laminate matrices that are the exact thickness integrals -- homogeneous of degree
    # one in the moduli: the read_stack obligations of C01 (A, B, D, E equal to the integrals, for every unit system)
    c01.part_read_stack(_Premises(led, ('/A', '/B', '/D', '/E', '/no-exception')))


def body(led):
    led.assume('C14: eigenvalue statements follow from the matrix identities through the eigen-solver contracts (C05/C06) and the scaling argument (cited, not machine-checked)')
    led.assume('C14: "tends to the flat plate" is read as: the difference of every entry is a sum of terms with a negative power of r')
    lemma_telescoping(led)
    check_w_block(led)
    check_cyl_minus_plate(led)
    check_cone_zero(led)
    check_exchange(led)
    check_exchange_premise(led)
    check_similarity(led)
    from . import c14_num
    c14_num.body(led)
    # Python-layer premise of 'numerically integrated matrices at the undeformed state equal the analytic ones': both kinds of kernel
    # are handed the same laminate matrix, also when force_orthotropic_laminate edits it
    from . import py_panel
    py_panel.check_one_laminate(led)
    py_panel.check_calc_k0_numeric(led)       # ... and the same constant pre-load term on both routes


def main():
    return run_check('C14', body)


if __name__ == '__main__':
    sys.exit(main())
