"""C07 -- static analysis: the load vector is the virtual work of the point forces; K c = f is solved on the active amplitudes.

Functions under contract: Panel.add_force, Panel.calc_fext, PanelAssembly.calc_fext, StiffPanelBay.calc_fext (Python layer);
clt_bardell_field.pyx:fg/cfg (kernel); sparse.solve, analysis.static.static, Analysis.static(NLgeom=False) (abstract arrays,
spsolve / remove_null_cols contracts assumed); sparse.solve / remove_null_cols bounded run-time stand-in.
"""
import sys
import z3

from ..core import run_check, CheckerError
from ..poly import P, normal
from .. import pycheck
from .. import pysym, shims, absnp, eigctx, kharness as K, spec_panel as S, panelctx
from ..pysym import Interp, integer, real, to_z3, SymRaise, Obj
from ..absnp import AArr, T
from ..kernel import OutArray, InArray
from . import py_assembly, py_panel, c11_kernel
from .py_panel import report

FILE = 'compmech/panel/models/clt_bardell_field.pyx'


def check_cfg(led):
    func = FILE + ':cfg'
    led.function(func)
    led.function(FILE + ':fg')
    m, n = integer('m'), integer('n')
    a, b = real('a'), real('b')
    x, y = real('x'), real('y')
    it = K.make_interp(counters=())
    c11_kernel.install(it)
    it.facts += [to_z3(a) > 0, to_z3(b) > 0, to_z3(m) >= 1, to_z3(n) >= 1]
    f = K.kernel_func(it, c11_kernel.MOD, 'cfg')

    def thunk():
        g = OutArray('g', (3, 3 * m * n))
        it.call(f, [g, m, n, x, y, a, b] + c11_kernel.flags_args('uvw'), {})
        return g
    xi, eta = 2 * x / a - 1, 2 * y / b - 1
    for path, out in it.explore(thunk):
        if out[0] != 'return':
            led.fail(func + '/no-exception', func, {'raises': out[1].tname, 'args': [str(q)[:100] for q in out[1].eargs]}, signature='raise')
            continue
        g = out[1]
        seen = {}
        for (k, v, mode, conds, line, lv) in g.stores:
            if not (isinstance(k, tuple) and len(k) == 2 and isinstance(k[0], int)):
                led.fail(func + '/store-index', func, {'index': str(k)}, signature='index')
                continue
            d = k[0]
            roles = K.decode_index(k[1], P.const(0), 3, m, lv)
            if roles is None or roles[2] != d:
                led.fail('%s/row-%d-placement' % (func, d), func, {'column': str(k[1]), 'meaning': 'row d must be written at column 3*(j*m+i)+d'}, signature='placement%d' % d)
                continue
            I, J, _ = roles
            dn = 'uvw'[d]
            spec = c11_kernel.Fval(0, P.atom(I), S.flagset(dn, 'x'), xi) * c11_kernel.Fval(0, P.atom(J), S.flagset(dn, 'y'), eta)
            seen[d] = True
            c11_kernel.cmp(led, '%s/g[%d, 3(jm+i)+%d]' % (func, d, d), func, v, spec)
        for d in range(3):
            if d not in seen:
                led.fail('%s/g[%d,...]-written' % (func, d), func, {'reason': 'row never written'}, signature='missing%d' % d)
    led.assume('C07: with g[d, 3(jm+i)+d] = f_i g_j (cfg contract) and the series of cfuvw (C11), (F.g).c equals F.u(x_f, y_f): the load vector is the virtual work')


def check_bay_fext(led):
    func = 'compmech/stiffpanelbay/stiffpanelbay.py:StiffPanelBay.calc_fext'
    led.function(func)
    it, calls = py_panel.mk()
    bmod = it.module('compmech.stiffpanelbay.stiffpanelbay')
    for nf in (0, 1, 2):
        def run():
            bay = it.call(bmod.g['StiffPanelBay'], [], {})
            a, b = real('a'), real('b')
            m, n = integer('m'), integer('n')
            bay.attrs.update(a=a, b=b, m=m, n=n, mu=real('mu'), model='plate_clt_donnell_bardell')
            p = panelctx.new_panel(it, a=a, b=b, y1=P.const(0), y2=b, stack=[real('th')], plyt=real('t'), laminaprop=(real('E'), real('E'), real('nu')), m=m, n=n)
            bay.attrs['panels'] = [p]
            forces = [[real('%s%d' % (s, q)) for s in ('x', 'y', 'fx', 'fy', 'fz')] for q in range(nf)]
            bay.attrs['forces_skin'] = forces
            del calls[:]
            r = it.call(it.getattr(bay, 'calc_fext'), [], dict(silent=True))
            return bay, r, forces, (m, n)
        for path, out in it.explore(run):
            name = '%s[skin forces=%d]' % (func, nf)
            if out[0] != 'return':
                e = out[1]
                report(led, name + '/no-exception', func, ['raises %s%s' % (e.tname, tuple(str(q)[:80] for q in e.eargs))],
                       replay=replay_bay_fext, signature='raise:%s' % e.tname)
                continue
            bay, r, forces, (m, n) = out[1]
            probs = []
            if not isinstance(r, OutArray) or not normal(r.length - 3 * m * n).is_zero():
                probs.append('skin load vector has length %s' % getattr(r, 'length', None))
            elif len(r.stores) != len(forces):
                probs.append('%d contributions for %d forces' % (len(r.stores), len(forces)))
            else:
                # contribution q is  fx*g[0] + fy*g[1] + fz*g[2]  with g filled by fg at (x_q, y_q) for the bay's skin domain
                p0 = bay.attrs['panels'][0]
                for q, (st, force) in enumerate(zip(r.stores, forces)):
                    key, val = st[0], st[1]
                    if key != slice(None) or not hasattr(val, 'terms') or len(val.terms) != 3:
                        probs.append('force %d: contribution is not a combination of the three rows of the basis matrix' % q)
                        continue
                    for d, (coef, (row, fill)) in enumerate(val.terms):
                        if row != d or not normal((coef if isinstance(coef, P) else P.const(coef)) - force[2 + d]).is_zero():
                            probs.append('force %d: row %s weighted with %s, expected row %d with component %d of the force' % (q, row, coef, d, d))
                        dd = pycheck.diff_kernel(fill, 'fg', 'clt_bardell_field', dict(x=force[0], y=force[1]),
                                                 {k_: p0.attrs[k_] for k_ in ('a', 'b', 'm', 'n')})
                        probs += ['force %d: %s' % (q, x_) for x_ in dd]
            report(led, name, func, probs)


def _equal_on_path(it, path, a, b):
    """a == b, syntactically or as a consequence of the facts and the conditions of this path"""
    d = normal((a if isinstance(a, P) else P.const(a)) - (b if isinstance(b, P) else P.const(b)))
    if d.is_zero():
        return True
    sv = z3.Solver()
    sv.set('timeout', 10000)
    for f_ in it.facts:
        sv.add(f_)
    for c_ in path.conds:
        sv.add(pysym.cond_z3(c_) if isinstance(c_, pysym.Cond) else c_)
    sv.add(to_z3(d) != 0)
    return sv.check() == z3.unsat


def check_bay_fext_stiffeners(led):
    """StiffPanelBay.calc_fext with 2-D stiffeners: the load vector is the concatenation skin | flanges of the 2-D blade stiffeners |
    base, flange of the T stiffeners -- the ranges the matrices use -- and each part collects [fx, fy, fz] . g of its own component"""
    func = 'compmech/stiffpanelbay/stiffpanelbay.py:StiffPanelBay.calc_fext'
    from ..pysym import to_z3
    from ..kharness import FLAG_NAMES
    from . import py_stiffeners
    it, calls = py_panel.mk()
    py_stiffeners._with_plies(it)
    it.algebraic_minmax = True
    bmod = it.module('compmech.stiffpanelbay.stiffpanelbay')
    lam = dict(stack=[real('th')], plyt=real('t'), laminaprop=(real('E'), real('E'), real('nu')))
    flam = dict(fstack=[real('thf')], fplyt=real('tf'), flaminaprop=(real('Ef'), real('Ef'), real('nuf')))
    blam = dict(bstack=[real('thb')], bplyt=real('tb'), blaminaprop=(real('Eb'), real('Eb'), real('nub')))

    class Concat(object):
        def __init__(self, parts):
            self.parts = parts

    def concatenate(parts):
        out = []
        for x in parts:
            out += x.parts if isinstance(x, Concat) else [x]
        return Concat(out)
    for kinds in (('b2',), ('t2',), ('t2', 'b2'), ('b2', 't2', 'b2')):
        tag = 'stiffeners=%s' % '/'.join(kinds)

        def run():
            del calls[:]
            bay = it.call(bmod.g['StiffPanelBay'], [], {})
            a, b = real('a'), real('b')
            m, n = integer('m'), integer('n')
            bay.attrs.update(a=a, b=b, m=m, n=n, mu=real('mu'), r=None, model='plate_clt_donnell_bardell', **lam)
            for f in FLAG_NAMES:
                bay.attrs[f] = real(f + '_bay')
            cuts = [P.const(0)] + [real('ys%d' % q) for q in range(len(kinds))] + [b]
            it.facts[:] = [to_z3(a) > 0, to_z3(b) > 0, to_z3(a) <= 10 * to_z3(b)]
            for q in range(len(cuts) - 1):
                it.facts.append(to_z3(cuts[q]) < to_z3(cuts[q + 1]))
                it.call(it.getattr(bay, 'add_panel'), [], dict(y1=cuts[q], y2=cuts[q + 1]))
            it.np.isclose = lambda x, y, **k: pysym.compare('==', x if isinstance(x, P) else P.const(x), y if isinstance(y, P) else P.const(y))
            it.np.concatenate = concatenate
            comps = []
            for q, k in enumerate(kinds):
                ys = cuts[q + 1]
                if k == 'b2':
                    s_ = it.call(it.getattr(bay, 'add_bladestiff2d'), [], dict(ys=ys, bf=real('bf%d' % q), mf=integer('mf%d' % q), nf=integer('nf%d' % q), **flam))
                else:
                    s_ = it.call(it.getattr(bay, 'add_tstiff2d'), [], dict(ys=ys, bb=real('bb%d' % q), bf=real('bf%d' % q), mb=integer('mb%d' % q), nb=integer('nb%d' % q),
                                                                            mf=integer('mf%d' % q), nf=integer('nf%d' % q), **dict(flam, **blam)))
                for reg in (('flange',) if k == 'b2' else ('base', 'flange')):
                    force = [real('%s_%d%s' % (nm, q, reg[0])) for nm in ('x', 'y', 'fx', 'fy', 'fz')]
                    s_.attrs[reg].attrs['forces'] = [force]
                    comps.append((q, k, reg, s_.attrs[reg], force))
            bay.attrs['forces_skin'] = [[real(nm + '_s') for nm in ('x', 'y', 'fx', 'fy', 'fz')]]
            del calls[:]
            r = it.call(it.getattr(bay, 'calc_fext'), [], dict(silent=True))
            return bay, r, comps, (m, n)
        for path, out in it.explore(run):
            name = '%s[%s]' % (func, tag)
            if out[0] != 'return':
                e = out[1]
                report(led, name + '/no-exception', func, ['raises %s%s' % (e.tname, tuple(str(q)[:80] for q in e.eargs))], signature='raise:%s' % e.tname)
                continue
            bay, r, comps, (m, n) = out[1]
            probs = []
            # expected order of the parts: the order of the matrices
            order = [c_ for c_ in comps if c_[1] == 'b2'] + [c_ for c_ in comps if c_[1] == 't2']
            want_parts = [('skin', bay.attrs['panels'][0], bay.attrs['forces_skin'][0], 3 * m * n)]
            for (q, k, reg, comp, force) in order:
                mm, nn = (integer('mf%d' % q), integer('nf%d' % q)) if reg == 'flange' else (integer('mb%d' % q), integer('nb%d' % q))
                want_parts.append(('stiffener %d %s' % (q, reg), comp, force, 3 * mm * nn))
            parts = r.parts if isinstance(r, Concat) else [r]
            if len(parts) != len(want_parts):
                probs.append('%d parts, expected %d (skin, then the components of the 2-D stiffeners)' % (len(parts), len(want_parts)))
            else:
                for part, (label, comp, force, length) in zip(parts, want_parts):
                    if not isinstance(part, OutArray) or not _equal_on_path(it, path, part.length, length):
                        probs.append('%s: part of length %s, expected %s' % (label, getattr(part, 'length', None), length))
                        continue
                    if len(part.stores) != 1:
                        probs.append('%s: %d contributions, expected the one force of this component' % (label, len(part.stores)))
                        continue
                    key, val = part.stores[0][0], part.stores[0][1]
                    if key != slice(None) or not hasattr(val, 'terms') or len(val.terms) != 3:
                        probs.append('%s: contribution is not a combination of the three rows of the basis matrix' % label)
                        continue
                    for d, (coef, (row, fill)) in enumerate(val.terms):
                        if row != d or not normal((coef if isinstance(coef, P) else P.const(coef)) - force[2 + d]).is_zero():
                            probs.append('%s: row %s weighted with %s, expected component %d of its force' % (label, row, coef, d))
                        dd = pycheck.diff_kernel(fill, 'fg', 'clt_bardell_field', dict(x=force[0], y=force[1]),
                                                 {k_: comp.attrs[k_] for k_ in ('a', 'b', 'm', 'n')})
                        probs += ['%s: %s' % (label, x_) for x_ in dd[:2]]
            report(led, name, func, probs)
    led.solver_time('z3-feasibility', it.solver_time)


def replay_bay_fext():
    from ..pyreplay import run_real
    script = '''
from compmech.stiffpanelbay import StiffPanelBay
bay = StiffPanelBay()
bay.a = 1.; bay.b = 0.5; bay.m = 4; bay.n = 4; bay.stack = [0, 90]; bay.plyt = 1e-3; bay.laminaprop = (70e9, 70e9, 0.3); bay.mu = 2700.
bay.add_panel(y1=0, y2=bay.b)
bay.calc_k0(silent=True)
bay.forces_skin.append([0.5, 0.25, 0., 0., 10.])
f = bay.calc_fext(silent=True)
out = {"norm": float(abs(f).max())}
'''
    r = run_real(script, {})
    r['reproduced'] = bool(r.get('raised'))
    r['input'] = 'StiffPanelBay a=1,b=.5,m=n=4 with one skin force [0.5,0.25,0,0,10]'
    return r


def check_solve(led):
    """sparse.solve / analysis.static.static with abstract arrays: shapes for all sizes, and the structure of the result"""
    func = 'compmech/sparse.py:solve'
    led.function(func)
    led.function('compmech/analysis/static.py:static')
    it = Interp()
    shims.install(it)
    absnp.install(it)
    log = []
    eigctx.install(it, log)
    it.contracts['compmech.logger.msg'] = lambda itp, a, kw: None
    it.contracts['compmech.logger.log'] = lambda itp, a, kw: None

    def spsolve(itp, args, kw):
        A, bvec = args[0], args[1]
        if not itp.truth(absnp.dim_eq(A.shape[0], bvec.shape[0])) or not itp.truth(absnp.dim_eq(A.shape[0], A.shape[1])):
            raise SymRaise('ValueError', ('spsolve: matrix/vector size mismatch %s %s' % (T(A.shape), T(bvec.shape)),))
        log.append(dict(fn='spsolve', A=A.term, b=bvec.term))
        return AArr((A.shape[0],), ('spsolve', A.term, bvec.term), 'float')
    it.contracts['scipy.sparse.linalg.spsolve'] = spsolve
    # operators that change the matrix (their own contracts are proved in sparse_proof): whatever solve() does to K is visible in the term
    for nm_ in ('finalize_symmetric_matrix', 'make_symmetric', 'make_skew_symmetric'):
        it.contracts['compmech.sparse.' + nm_] = (lambda nm__: lambda itp, a, kw: AArr(a[0].shape, (nm__, a[0].term), 'float'))(nm_)
    # the real remove_null_cols is replaced by its contract (bounded stand-in covers the real one)
    n = integer('size')
    it.facts += [to_z3(n) >= 1]
    Kmat = AArr((n, n), 'K')
    fvec = AArr((n,), 'f')
    for entry, modname, fname in (('solve', 'compmech.sparse', 'solve'), ('static', 'compmech.analysis.static', 'static')):
        f = it.module(modname).g[fname]

        def run():
            del log[:]
            r = it.call(f, [Kmat, fvec], dict(silent=True))
            return r, list(log)
        for path, out in it.explore(run):
            name = '%s[%s]' % (func if entry == 'solve' else 'compmech/analysis/static.py:static', 'all sizes')
            fn_ = func if entry == 'solve' else 'compmech/analysis/static.py:static'
            if out[0] != 'return':
                e = out[1]
                led.fail(name + '/no-exception', fn_, {'raises': e.tname, 'message': [str(q)[:160] for q in e.eargs]}, signature='raise:' + e.tname)
                continue
            r, calls = out[1]
            x = r if entry == 'solve' else (r[1][0] if isinstance(r, tuple) and r[1] else None)
            probs = []
            sp = [c for c in calls if c['fn'] == 'spsolve']
            if len(sp) != 1:
                probs.append('%d spsolve calls' % len(sp))
            else:
                if sp[0]['A'] != ('restrict', 'K', 'K'):
                    probs.append('system matrix is %r, expected K restricted to its non-null columns' % (sp[0]['A'],))
                if sp[0]['b'] != ('index', 'f', (('take', ('used_cols', 'K')),)):
                    probs.append('right-hand side is %r, expected f restricted to the non-null columns of K' % (sp[0]['b'],))
                want = ('store', ('zeros',), (('take', ('used_cols', 'K')),), ('spsolve', sp[0]['A'], sp[0]['b']))
                if not isinstance(x, AArr) or x.term != want:
                    probs.append('solution is %r, expected zeros with the reduced solution scattered into the non-null columns of K' % (getattr(x, 'term', x),))
                elif not normal(x.shape[0] - n).is_zero():
                    probs.append('solution has length %s' % T(x.shape[0]))
            if entry == 'static' and isinstance(r, tuple):
                if not (len(r[0]) == 1 and isinstance(r[0][0], P) and r[0][0] == P.const(1)):
                    probs.append('increments = %r, expected [1.]' % (r[0],))
            led.ok(name + '/post', fn_) if not probs else led.fail(name + '/post', fn_, {'differences': probs}, signature=';'.join(probs)[:150])
    led.assume('C07: spsolve(A, b) returns the solution of A x = b for a non-singular A; remove_null_cols contract as in cmverif/eigctx.py (assumed)')
    led.assume('C07: linearity in the loads follows from the structure of the result (zeros + reduced solve of a load-independent matrix) and the linearity of calc_fext in the force components')


def body(led):
    led.trust('cmverif symbolic executor, abstract arrays; z3')
    py_assembly.check_fext(led)
    check_cfg(led)
    check_bay_fext(led)
    check_bay_fext_stiffeners(led)
    # the bay's load vector is written with the edge flags stored on its component panels, the displacement it reports with the bay's own:
    # the components must be created with the definition of the bay (constructor obligations of C13)
    from . import c13_bay
    c13_bay.check_constructors(led)
    check_solve(led)
    from . import py_static
    py_static.check_panel_static(led)
    from . import sparse_standin
    sparse_standin.check(led, ['solve'])
    from . import sparse_proof
    sparse_proof.remove_null_cols_or_standin(led)


def main():
    return run_check('C07', body)


if __name__ == '__main__':
    sys.exit(main())
