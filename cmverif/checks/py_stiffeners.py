"""Python-layer contracts of the 2-D stiffener classes (C12 / C13): TStiff2D and BladeStiff2D build base and flange panels and
call the connection kernels; the obligations are about WHERE (rows/columns) and WITH WHAT (interface lines, penalty constants,
edge flags, sizes) those kernels are called."""
import itertools
from fractions import Fraction

from ..poly import P, normal
from .. import pysym, shims, panelctx, pycheck
from ..pysym import Interp, real, integer, Opaque, SymRaise, Obj, to_z3
from ..kharness import FLAG_NAMES
from . import py_panel
from .py_panel import report

TF = 'compmech/stiffener/tstiff2d.py:TStiff2D.'
BF2 = 'compmech/stiffener/bladestiff2d.py:BladeStiff2D.'
MAT = ('E1', 'E2', 'nu12', 'G12', 'G13', 'G23')


def peq(a, b):
    if a is None or b is None:
        return a is b
    a = a if isinstance(a, P) else P.const(a)
    b = b if isinstance(b, P) else P.const(b)
    return normal(a - b).is_zero()


def make_bay(it):
    bay = Obj(None)
    bay.name = 'bay'
    bay.attrs.update(a=real('a'), b=real('b'), m=integer('m'), n=integer('n'), r=None, alphadeg=None, model='plate_clt_donnell_bardell', mu=real('mu_bay'))
    for f in FLAG_NAMES:
        bay.attrs[f] = real(f + '_bay')
    return bay


def skin(it, bay, name, y1, y2, lazy=False, plies=1):
    """lazy: the skin is defined by one ply thickness and one material (what StiffPanelBay.add_panel does by default); its per-ply lists
    exist only after its first _rebuild.  plies: the skin of total thickness tskin_<name> is made of that many equal plies (two skins of a
    bay may have different numbers of plies: a ply drop under the stiffener)"""
    assert not (lazy and plies != 1)
    lamkw = (dict(plyt=real('tskin_' + name), laminaprop=tuple(real(x + 's') for x in MAT)) if lazy else
             dict(plyts=[real('tskin_' + name) * Fraction(1, plies)] * plies, laminaprops=[tuple(real(x + 's') for x in MAT)] * plies))
    p = panelctx.new_panel(it, a=bay.attrs['a'], b=bay.attrs['b'], y1=y1, y2=y2, stack=[real('ths')] * plies, mu=real('mu_' + name), m=bay.attrs['m'], n=bay.attrs['n'],
                           model='plate_clt_donnell_bardell', **lamkw)
    if lazy:
        # as StiffPanelBay.add_panel leaves them (p.plyts = bay.plyts, p.laminaprops = bay.laminaprops: empty lists)
        p.attrs['plyts'] = []
        p.attrs['laminaprops'] = []
    p.name = name
    return p


def unfinalized(wrap):
    """the component matrices are requested with finalize=False (the bay completes the sum once): a component that completes its own
    matrix would have its mirrored part completed again"""
    return ['the component matrix is completed (%s) although finalize=False was requested' % wrap[0]] if wrap else []


def kernels_of(r):
    wrap, terms = pycheck.terms_of(r)
    return wrap, [t for k, t in terms if isinstance(t, Opaque) and t.kind == 'kernel'], [k for k, t in terms]


def arg_diffs(t, want):
    out = []
    for k, w in want.items():
        g = t.f['args'].get(k)
        if isinstance(w, str) or isinstance(g, str):
            if g != w:
                out.append('%s = %r, expected %r' % (k, g, w))
        elif not peq(g, w):
            out.append('%s = %s, expected %s' % (k, pycheck.describe(g), pycheck.describe(w)))
    return out


def view_diffs(t, expect, label=''):
    """differences between what a one-panel kernel term read from its panel and the expected attribute values; an expected
    attribute that the kernel did not read is reported (a silently skipped comparison proves nothing)"""
    out = []
    pv = t.f['panel']
    for key, e in expect.items():
        if key == 'mu' and key not in pv:
            continue                      # only the mass kernels read the density
        if key in FLAG_NAMES and key not in pv:
            continue                      # a kernel reads only the edge flags of the fields it integrates
        if key not in pv:
            out.append('%s%s: the kernel term does not record panel.%s' % (label, t.f['fn'], key))
        elif not peq(pv[key], e):
            out.append('%s%s: panel.%s = %s, expected %s' % (label, t.f['fn'], key, pycheck.describe(pv[key]), pycheck.describe(e)))
    return out


def flags_of(obj, suffix=''):
    return {f + suffix: obj.attrs[f] for f in FLAG_NAMES}


def whole_domain(t, a, b):
    """the component panel (own functions, own coordinates, dimensions a x b) is integrated over its whole domain"""
    out = []
    out += view_diffs(t, dict(a=a, b=b))
    if t.f['fn'].endswith('y1y2'):
        y1, y2 = t.f['args'].get('y1'), t.f['args'].get('y2')
        if not (peq(y1, 0) and peq(y2, b)):
            out.append('integrated over y in [%s, %s] of its own coordinate, its domain is [0, %s]' % (pycheck.describe(y1), pycheck.describe(y2), pycheck.describe(b)))
    return out


def check_tstiff2d(led):
    func = TF + 'calc_k0'
    led.function(func)
    led.function(TF + '__init__')
    led.function(TF + '_rebuild')
    it, calls = py_panel.mk()
    mod = it.module('compmech.stiffener.tstiff2d')
    # stiffener connection kernels: scalar-typed contracts
    smod = it.module('compmech.stiffener.models.tstiff2d_clt_donnell_bardell')
    for fn, f in list(smod.g.items()):
        if isinstance(f, pysym.Func) and fn.startswith('fkC'):
            it.contracts[f.qualname] = panelctx.kernel_contract(it, f, calls)
    it.algebraic_minmax = True
    for etas in ('default', 'symbolic'):
        holder = {}

        def run():
            del calls[:]
            bay = make_bay(it)
            ys = real('ys')
            p1 = skin(it, bay, 'skin1', P.const(0), ys)
            p2 = skin(it, bay, 'skin2', ys, bay.attrs['b'], plies=2)
            bb, bf = real('bb'), real('bf')
            it.facts[:] = [to_z3(bay.attrs['a']) > 0, to_z3(bay.attrs['b']) > 0, to_z3(bay.attrs['a']) <= 10 * to_z3(bay.attrs['b']), to_z3(bb) > 0, to_z3(bf) > 0]
            matb = tuple(real(x + 'b') for x in MAT)
            matf = tuple(real(x + 'f') for x in MAT)
            s = it.call(mod.g['TStiff2D'], [], dict(bay=bay, mu=real('mu'), panel1=p1, panel2=p2, ys=ys, bb=bb, bf=bf,
                                                    bstack=[real('thb')], bplyts=[real('tb')], blaminaprops=[matb],
                                                    fstack=[real('thf')], fplyts=[real('tf')], flaminaprops=[matf],
                                                    mb=integer('mb'), nb=integer('nb'), mf=integer('mf'), nf=integer('nf')))
            if etas == 'symbolic':
                s.attrs['eta_conn_base'] = real('eta_b')
                s.attrs['eta_conn_flange'] = real('eta_f')
            del calls[:]
            size, row0 = integer('size'), integer('row0')
            it.call(it.getattr(s, 'calc_k0'), [], dict(size=size, row0=row0, col0=row0, silent=True, finalize=False))
            holder.update(bay=bay, s=s, size=size, row0=row0, ys=ys, bb=bb, bf=bf)
            return s
        for path, out in it.explore(run):
            name = '%s[eta_conn=%s]' % (func, etas)
            if out[0] != 'return':
                report(led, name + '/no-exception', func, ['raises %s%s' % (out[1].tname, tuple(str(x)[:80] for x in out[1].eargs))], signature='raise:' + out[1].tname)
                continue
            s = out[1]
            bay, size, row0, ys, bb, bf = holder['bay'], holder['size'], holder['row0'], holder['ys'], holder['bb'], holder['bf']
            base, flange = s.attrs['base'], s.attrs['flange']
            nbase = 3 * integer('mb') * integer('nb')
            rowf = row0 + nbase
            wrap, kern, scales = kernels_of(s.attrs['k0'])
            byfn = {}
            for t in kern:
                byfn.setdefault(t.f['fn'], []).append(t)
            probs = []
            probs += unfinalized(wrap)
            # panels
            fk = [t for t in kern if t.f['fn'] in ('fk0', 'fk0y1y2')]
            if len(fk) != 2:
                probs.append('%d panel stiffness terms, expected base + flange' % len(fk))
            else:
                probs += ['base: ' + d for d in arg_diffs(fk[0], dict(size=size, row0=row0, col0=row0))]
                probs += ['flange: ' + d for d in arg_diffs(fk[1], dict(size=size, row0=rowf, col0=rowf))]
                probs += ['base: ' + d for d in whole_domain(fk[0], bay.attrs['a'], bb)]
                probs += ['flange: ' + d for d in whole_domain(fk[1], bay.attrs['a'], bf)]
            # skin-base penalty (three blocks)
            y1, y2 = ys - bb * Fraction(1, 2), ys + bb * Fraction(1, 2)
            tsk1, tsk2, tb = real('tskin_skin1'), real('tskin_skin2'), real('tb')
            dpb = (tsk1 * Fraction(1, 2) + tsk2 * Fraction(1, 2)) * Fraction(1, 2) + tb * Fraction(1, 2)
            for fn, place in (('fkCppy1y2', dict(row0=0, col0=0)), ('fkCpby1y2', dict(row0=0, col0=row0)), ('fkCbbpby1y2', dict(row0=row0, col0=row0))):
                ts = byfn.get(fn, [])
                if len(ts) != 1:
                    probs.append('%s called %d times' % (fn, len(ts)))
                    continue
                want = dict(y1=y1, y2=y2, a=bay.attrs['a'], b=bay.attrs['b'], size=size, **place)
                if fn != 'fkCbbpby1y2':
                    want['dpb'] = dpb
                    want.update({k: bay.attrs[k] for k in FLAG_NAMES})
                    want.update(m=bay.attrs['m'], n=bay.attrs['n'])
                if fn == 'fkCpby1y2':
                    want.update(m1=integer('mb'), n1=integer('nb'))
                    want.update({k + 'b': base.attrs[k] for k in FLAG_NAMES})
                if fn == 'fkCbbpby1y2':
                    want.update(m1=integer('mb'), n1=integer('nb'))
                    want.update({k + 'b': base.attrs[k] for k in FLAG_NAMES})
                probs += ['%s: %s' % (fn, d) for d in arg_diffs(ts[0], want)]
            kts = {pycheck.describe(byfn[fn][0].f['args'].get('kt')) for fn in ('fkCppy1y2', 'fkCpby1y2', 'fkCbbpby1y2') if fn in byfn}
            if len(kts) > 1:
                probs.append('the three skin-base blocks use different penalty constants: %s' % sorted(kts))
            # base-flange connection: interface lines in each panel's own coordinates
            eb = s.attrs['eta_conn_base']
            ef = s.attrs['eta_conn_flange']
            ycte1 = (eb + 1) * Fraction(1, 2) * bb
            ycte2 = (ef + 1) * Fraction(1, 2) * bf
            for fn, want in (('fkCBFycte11', dict(ycte1=ycte1, size=size, row0=row0, col0=row0)),
                             ('fkCBFycte12', dict(ycte1=ycte1, ycte2=ycte2, size=size, row0=row0, col0=rowf)),
                             ('fkCBFycte22', dict(ycte2=ycte2, size=size, row0=rowf, col0=rowf))):
                ts = byfn.get(fn, [])
                if len(ts) != 1:
                    probs.append('%s called %d times' % (fn, len(ts)))
                    continue
                probs += ['%s: %s (interface line on the %s in its own coordinate)' % (fn, d, 'flange' if 'ycte2' in d else 'base') if 'ycte' in d else '%s: %s' % (fn, d)
                          for d in arg_diffs(ts[0], want)]
                for key, obj in (('p1', base), ('p2', flange)):
                    if key not in (ts[0].f.get('objs') or ()):
                        continue
                    for f_ in ('a', 'b', 'm', 'n'):
                        try:
                            g_ = pycheck.view_get(ts[0], key, f_)
                        except KeyError:
                            continue              # this block does not read that attribute of that panel
                        if not peq(g_, obj.attrs[f_]):
                            probs.append('%s: %s.%s = %s, expected the %s of the %s' % (fn, key, f_, pycheck.describe(g_), f_, 'base' if key == 'p1' else 'flange'))
            kbf = {(pycheck.describe(byfn[fn][0].f['args'].get('kt')), pycheck.describe(byfn[fn][0].f['args'].get('kr'))) for fn in ('fkCBFycte11', 'fkCBFycte12', 'fkCBFycte22') if fn in byfn}
            if len(kbf) > 1:
                probs.append('the three base-flange blocks use different penalty constants')
            if any(k != 1 for k in scales):
                probs.append('a contribution is scaled')
            report(led, name, func, probs)
    led.solver_time('z3-feasibility', it.solver_time)


def check_kt_kr(led):
    """calc_kt_kr: symmetric in the two panels, homogeneous of degree 1 in the moduli (through the C01 contract: A, D linear in the moduli)"""
    func = 'compmech/panel/connections/penalty_constants.py:calc_kt_kr'
    led.function(func)
    it, calls = py_panel.mk()
    f = it.module('compmech.panel.connections.penalty_constants').g['calc_kt_kr']
    from ..poly import rational_close

    def two_panels():
        ps = []
        for sfx in ('_1', '_2'):
            p, kw, want, g = py_panel.build(it, 'plate', 'uniform', 'none', {}, sfx=sfx)
            ps.append(p)
        return ps
    for kind in ('xcte', 'ycte', 'bot-top', 'xcte-ycte', 'ycte-xcte'):
        def run():
            p1, p2 = two_panels()
            r12 = it.call(f, [p1, p2, kind], {})
            p1b, p2b = two_panels()
            r21 = it.call(f, [p2b, p1b, {'xcte-ycte': 'ycte-xcte', 'ycte-xcte': 'xcte-ycte'}.get(kind, kind)], {})
            return r12, r21, p1
        for path, out in it.explore(run):
            name = '%s[%s]' % (func, kind)
            if out[0] != 'return':
                report(led, name + '/no-exception', func, ['raises %s%s' % (out[1].tname, tuple(str(x)[:80] for x in out[1].eargs))], signature='raise')
                continue
            (kt12, kr12), (kt21, kr21), p1 = out[1]
            probs = []
            if kind == 'bot-top':
                # the face-to-face constant is divided by min(p1.a, p1.b): not symmetric in the panels unless they share that length
                pass
            else:
                if not rational_close(kt12, kt21)[0]:
                    probs.append('kt(p1,p2) != kt(p2,p1)')
                if kr12 is not None and not rational_close(kr12, kr21)[0]:
                    probs.append('kr(p1,p2) != kr(p2,p1)')
            # degree-1 homogeneity in the laminate stiffness atoms (A.., D.. are linear in the moduli by C01)
            for nm, val in (('kt', kt12), ('kr', kr12)):
                if val is None:
                    continue
                fun_atoms = [a for a in normal(val).atoms() if '<lam:' in a and '(' in a.split('<lam:')[0] and not a.startswith('inv[')]
                if fun_atoms:
                    probs.append('%s depends on the laminate stiffnesses through %s: not homogeneous of degree 1 (hence not linear in the moduli)' % (nm, fun_atoms[0][:60]))
                    continue
                lam_atoms = [a for a in normal(val).atoms() if '<lam:' in a]
                from ..poly import DENOMS
                sub = {a: P.atom(a) * P.atom('$s') for a in lam_atoms}
                scaled = normal(val.subs(sub)) if not any(a.startswith('inv[') for a in val.atoms()) else None
                if scaled is None:
                    # rational in the stiffnesses: check homogeneity after clearing the denominator: val = N/D with deg N = deg D + 1
                    ok = homogeneous_degree_one(val, lam_atoms)
                else:
                    ok = rational_close(scaled, val * P.atom('$s'))[0]
                if not ok:
                    probs.append('%s is not homogeneous of degree 1 in the laminate stiffnesses (hence not linear in the moduli)' % nm)
            report(led, name, func, probs)
    # the constants belong to the laminates of the CURRENT panel definitions: a panel that was evaluated before and whose laminate
    # definition was changed afterwards gives the constants of a fresh panel with the new definition
    CH = {'plyt': lambda p: p.attrs.__setitem__('plyt', real('plyt_changed')),
          'laminaprop': lambda p: p.attrs.__setitem__('laminaprop', tuple(real(x + '_changed') for x in MAT)),
          'stack': lambda p: p.attrs.__setitem__('stack', [real('th0_changed'), real('th1_changed')])}
    for kind, ch, which in itertools.product(('xcte', 'ycte', 'bot-top', 'xcte-ycte'), sorted(CH), (0, 1)):
        def run():
            ps = two_panels()
            it.call(it.getattr(ps[which], 'calc_k0'), [], dict(silent=True))
            r0 = it.call(f, [ps[0], ps[1], kind], {})
            CH[ch](ps[which])
            r1 = it.call(f, [ps[0], ps[1], kind], {})
            fresh = two_panels()
            CH[ch](fresh[which])
            rf = it.call(f, [fresh[0], fresh[1], kind], {})
            return r0, r1, rf
        for path, out in it.explore(run):
            name = '%s[%s]/follows-a-change-of-%s-of-panel-%d' % (func, kind, ch, which + 1)
            if out[0] != 'return':
                report(led, name + '/no-exception', func, ['raises %s%s' % (out[1].tname, tuple(str(x)[:80] for x in out[1].eargs))], signature='raise')
                continue
            r0, r1, rf = out[1]
            probs = []
            for nm, a_, b_ in (('kt', r1[0], rf[0]), ('kr', r1[1], rf[1])):
                if (a_ is None) != (b_ is None) or (a_ is not None and not rational_close(a_, b_)[0]):
                    probs.append('%s after the change is %s, a fresh panel with the new definition gives %s%s'
                                 % (nm, pycheck.describe(a_)[:120], pycheck.describe(b_)[:120],
                                    ' (it is still the value of the old definition)' if a_ is not None and rational_close(a_, r0[0 if nm == 'kt' else 1])[0] else ''))
            report(led, name, func, probs, replay=replay_kt_kr_stale if probs else None, signature='stale-laminate:%s' % ch)
    led.solver_time('z3-feasibility', it.solver_time)


def replay_kt_kr_stale():
    from ..pyreplay import run_real
    script = '''
import numpy as np
from compmech.panel import Panel
from compmech.panel.connections.penalty_constants import calc_kt_kr
lp = (142.5e9, 8.7e9, 0.28, 5.1e9, 5.1e9, 5.1e9)
def mk(scale):
    return Panel(a=1., b=0.5, stack=[0, 45, -45, 90], plyt=1.25e-4, laminaprop=(lp[0]*scale, lp[1]*scale, lp[2], lp[3]*scale, lp[4]*scale, lp[5]*scale), m=4, n=4)
p1, p2 = mk(1.), mk(1.)
p1.calc_k0(silent=True); p2.calc_k0(silent=True)
before = calc_kt_kr(p1, p2, 'ycte')
for p in (p1, p2):
    p.laminaprop = tuple(mk(3.).laminaprop)
after = calc_kt_kr(p1, p2, 'ycte')
fresh = calc_kt_kr(mk(3.), mk(3.), 'ycte')
out = {"before": [float(x) for x in before], "after_change": [float(x) for x in after], "fresh_with_new_definition": [float(x) for x in fresh]}
'''
    r = run_real(script, {})
    a, f_ = r.get('after_change'), r.get('fresh_with_new_definition')
    r['reproduced'] = bool(r.get('raised') or (a and f_ and any(abs(x - y) > 1e-9 * abs(y) for x, y in zip(a, f_))))
    r['input'] = 'two evaluated plates, moduli of both multiplied by 3 afterwards, calc_kt_kr(p1, p2, "ycte")'
    return r


def homogeneous_degree_one(val, lam_atoms):
    from ..poly import DENOMS, normal, rational_close
    s = P.atom('$s')
    # substitute every stiffness atom X -> s*X inside numerators and inside the registered denominators
    def scale(p):
        return normal(p.subs({a: P.atom(a) * s for a in lam_atoms}))
    out = P({})
    for m, c in normal(val).t.items():
        term = P.const(c)
        for a, e in m:
            if a.startswith('inv['):
                term = term * (P.const(1) / scale(DENOMS[a])) ** e
            elif a in lam_atoms:
                term = term * (P.atom(a) * s) ** e
            else:
                term = term * P.atom(a) ** e
        out = out + term
    return rational_close(out, val * s)[0]


# ---------------------------------------------------------------------------------------------------------------- BladeStiff1D
B1 = 'compmech/stiffener/bladestiff1d.py:BladeStiff1D.'


def _with_plies(it, nply_tag='f'):
    """extend the C01 contract of read_stack with what BladeStiff1D reads besides ABD: the plies (thickness t, in-plane
    stiffness QL in laminate axes: symmetric 3x3, positive definite) and calc_equivalent_modulus (no effect on what is read)"""
    import numpy as np
    base = it.contracts['compmech.composite.laminate.read_stack']
    facts = []

    def read_stack(itp, args, kw):
        lam = base(itp, args, kw)
        plyts = lam.attrs['spec'].f['plyts']
        plies = []
        for k, t in enumerate(plyts):
            ply = Obj(None)
            ply.name = 'ply%d' % k
            Q = np.empty((3, 3), dtype=object)
            for i in range(3):
                for j in range(3):
                    Q[i, j] = real('QL%d%d_%s%d' % (min(i, j) + 1, max(i, j) + 1, nply_tag, k))
            ply.attrs['t'] = t
            ply.attrs['QL'] = Q
            plies.append(ply)
        lam.attrs['plies'] = plies
        lam.attrs['calc_equivalent_modulus'] = lambda: None
        return lam
    it.contracts['compmech.composite.laminate.read_stack'] = read_stack


def check_bladestiff1d(led, which=('k0', 'kG0', 'kM')):
    """BladeStiff1D: what it passes to the beam kernels fk0f / fkG0f / fkMf, the placement of the base panel, and the positive
    semi-definiteness of the weight matrices of the two energy functionals the kernels are proved to implement (c13_stiffk)."""
    import z3
    from .. import vc
    for meth in ('__init__', '_rebuild') + tuple('calc_' + w for w in which):
        led.function(B1 + meth)
    led.bounded_item('BladeStiff1D: flange laminates of 1..3 plies, base of 1 ply (ply loop of _rebuild executed per count; everything else symbolic); '
                     'definiteness of the flange stiffness weights decided for 1 and 2 plies')
    for nply in (1, 2, 3):
        for with_base in (False, True):
            it, calls = py_panel.mk()
            _with_plies(it)
            mod = it.module('compmech.stiffener.bladestiff1d')
            smod = it.module('compmech.stiffener.models.bladestiff1d_clt_donnell_bardell')
            for fn, f in list(smod.g.items()):
                if isinstance(f, pysym.Func) and fn in ('fk0f', 'fkG0f', 'fkMf'):
                    it.contracts[f.qualname] = panelctx.kernel_contract(it, f, calls)
            it.algebraic_minmax = True
            holder = {}
            tag = 'flange plies=%d,%s' % (nply, 'with base' if with_base else 'no base')

            def run():
                del calls[:]
                bay = make_bay(it)
                ys = real('ys')
                p1 = skin(it, bay, 'skin1', P.const(0), ys)
                p2 = skin(it, bay, 'skin2', ys, bay.attrs['b'], plies=2)
                bb, bf = real('bb'), real('bf')
                it.facts[:] = [to_z3(bay.attrs['a']) > 0, to_z3(bay.attrs['b']) > 0, to_z3(bb) > 0, to_z3(bf) > 0]
                matb = tuple(real(x + 'b') for x in MAT)
                matf = tuple(real(x + 'f') for x in MAT)
                tf = [real('tf%d' % k) for k in range(nply)]
                s = it.call(mod.g['BladeStiff1D'], [], dict(bay=bay, mu=real('mu'), panel1=p1, panel2=p2, ys=ys, bb=bb, bf=bf,
                                                           bstack=[real('thb')] if with_base else None, bplyts=[real('tb')] if with_base else None,
                                                           blaminaprops=[matb] if with_base else None,
                                                           fstack=[real('thf%d' % k) for k in range(nply)], fplyts=tf, flaminaprops=[matf] * nply))
                s.attrs['Fx'] = real('Fx')
                size, row0 = integer('size'), integer('row0')
                out = {}
                for wh in which:
                    del calls[:]
                    it.call(it.getattr(s, 'calc_' + wh), [], dict(size=size, row0=row0, col0=row0, silent=True, finalize=False))
                    out[wh] = s.attrs[wh]
                holder.update(bay=bay, s=s, size=size, row0=row0, ys=ys, bb=bb, bf=bf, tf=tf)
                return s, out
            for path, out in it.explore(run):
                name = '%s[%s]' % (B1 + 'calc_*', tag)
                if out[0] != 'return':
                    report(led, name + '/no-exception', B1 + 'calc_k0', ['raises %s%s' % (out[1].tname, tuple(str(x)[:80] for x in out[1].eargs))], signature='raise:' + out[1].tname)
                    continue
                s, mats = out[1]
                bay, size, row0, ys, bb, bf, tf = (holder[k] for k in ('bay', 'size', 'row0', 'ys', 'bb', 'bf', 'tf'))
                tsk1, tsk2 = real('tskin_skin1'), real('tskin_skin2')
                h = (tsk1 * Fraction(1, 2) + tsk2 * Fraction(1, 2))
                hb = real('tb') if with_base else P.const(0)
                hf = sum(tf[1:], tf[0])
                dbf = bf * Fraction(1, 2) + hb + h * Fraction(1, 2)
                # beam constants as the flange laminate defines them
                E1 = P({})
                S1 = P({})
                y = tf[0] * Fraction(1, 2)
                for k in range(nply):
                    if k > 0:
                        y = y + tf[k - 1] * Fraction(1, 2) + tf[k] * Fraction(1, 2)
                    q = lambda i, j, k=k: real('QL%d%d_f%d' % (min(i, j), max(i, j), k))
                    E1 = E1 + tf[k] * (q(1, 1) - q(1, 2) * q(1, 2) / q(2, 2))
                    S1 = S1 - y * tf[k] * (q(1, 3) - q(1, 2) * q(2, 3) / q(2, 2))
                F1 = bf * bf * Fraction(1, 12) * E1
                Jxx = hf * bf * bf * bf * Fraction(1, 12) + bf * hf * hf * hf * Fraction(1, 12)
                flags = {f: bay.attrs[f] for f in FLAG_NAMES}
                common = dict(ys=ys, a=bay.attrs['a'], b=bay.attrs['b'], bf=bf, m=bay.attrs['m'], n=bay.attrs['n'], size=size, row0=row0, col0=row0)
                want = {
                    'k0': ('fk0f', dict(common, df=dbf, E1=E1, F1=F1, S1=S1, Jxx=Jxx, **{f: v for f, v in flags.items() if f[0] in 'uw'})),
                    'kG0': ('fkG0f', dict(common, Fx=real('Fx'), **{f: v for f, v in flags.items() if f[0] == 'w'})),
                    'kM': ('fkMf', dict(common, mu=real('mu'), h=h, hb=hb, hf=hf, df=dbf, **flags)),
                }
                for wh, (fn, args) in want.items():
                    if wh not in which:
                        continue
                    wrap, kern, scales = kernels_of(mats[wh])
                    probs = unfinalized(wrap)
                    byfn = {}
                    for t in kern:
                        byfn.setdefault(t.f['fn'], []).append(t)
                    ts = byfn.get(fn, [])
                    if len(ts) != 1:
                        probs.append('%s called %d times' % (fn, len(ts)))
                    else:
                        probs += ['%s: %s' % (fn, d) for d in rational_arg_diffs(ts[0], args)]
                    others = [k for k in byfn if k != fn]
                    exp_others = {'k0': ['fk0y1y2'], 'kM': ['fkMy1y2'], 'kG0': []}[wh] if with_base else []
                    if sorted(others) != sorted(exp_others):
                        probs.append('other contributions %s, expected %s' % (sorted(others), exp_others))
                    for o in others:
                        t = byfn[o][0]
                        y1, y2 = ys - bb * Fraction(1, 2), ys + bb * Fraction(1, 2)
                        probs += ['base %s: %s' % (o, d) for d in arg_diffs(t, dict(size=size, row0=row0, col0=row0, y1=y1, y2=y2))]
                        probs += view_diffs(t, dict(flags_of(bay), a=bay.attrs['a'], b=bay.attrs['b'], m=bay.attrs['m'], n=bay.attrs['n'], mu=real('mu')), 'base ')
                    if any(k != 1 for k in scales):
                        probs.append('a contribution is scaled')
                    report(led, '%s[%s]' % (B1 + 'calc_' + wh, tag), B1 + 'calc_' + wh, probs)
                if with_base:
                    # the base laminate sits below the skin: offset -(h/2 + hb/2)
                    base = s.attrs['base']
                    off = base.attrs.get('offset')
                    probs = []
                    if not peq(off, -(h * Fraction(1, 2) + hb * Fraction(1, 2))):
                        probs.append('base offset %s, expected -(h/2 + hb/2)' % pycheck.describe(off))
                    for f in FLAG_NAMES:
                        if not peq(base.attrs[f], bay.attrs[f]):
                            probs.append('base edge flag %s differs from the bay' % f)
                    report(led, '%s[%s]/base-panel' % (B1 + '_rebuild', tag), B1 + '_rebuild', probs)
                # ---- positive semi-definiteness of the weights (c13_stiffk proves kernel == Hessian of the functional)
                # mass: mu hf [[I0, I1], [I1, I2]] over the flange height [z1, z1 + bf], z1 = h/2 + hb, with the first moment bf*df that
                # calc_kM passes: I0 I2 - I1^2 == bf^4/12 (Cauchy-Schwarz with equality defect bf^4/12)
                z1 = h * Fraction(1, 2) + hb
                z2 = z1 + bf
                I0, I1, I2 = bf, bf * dbf, (z2 * z2 * z2 - z1 * z1 * z1) * Fraction(1, 3)
                nm = '%s[%s]/mass-weight-positive-semidefinite' % (B1 + 'calc_kM', tag)
                if normal(I0 * I2 - I1 * I1 - bf * bf * bf * bf * Fraction(1, 12)).is_zero():
                    led.ok(nm, B1 + 'calc_kM')
                else:
                    led.fail(nm, B1 + 'calc_kM', {'I0*I2 - I1^2': normal(I0 * I2 - I1 * I1).text()}, signature='mass-psd')
                if with_base or nply > 2 or 'k0' not in which:
                    continue
                # requires: every ply stiffness is positive definite, thicknesses positive
                facts = [to_z3(bf) > 0, to_z3(tsk1) > 0, to_z3(tsk2) > 0]
                for k in range(nply):
                    q = lambda i, j, k=k: to_z3(real('QL%d%d_f%d' % (min(i, j), max(i, j), k)))
                    facts += [to_z3(tf[k]) > 0, q(1, 1) > 0, q(2, 2) > 0, q(3, 3) > 0, q(1, 1) * q(2, 2) > q(1, 2) * q(1, 2),
                              # determinant of the 3x3 positive
                              q(1, 1) * (q(2, 2) * q(3, 3) - q(2, 3) * q(2, 3)) - q(1, 2) * (q(1, 2) * q(3, 3) - q(2, 3) * q(1, 3))
                              + q(1, 3) * (q(1, 2) * q(2, 3) - q(2, 2) * q(1, 3)) > 0]
                zE1, zS1, zJ, zF1 = (to_z3(normal(x)) for x in (E1, S1, Jxx, F1))
                name = '%s[%s]/stiffness-weight-positive-semidefinite' % (B1 + 'calc_k0', tag)
                for part, claim in (('E1>=0', zE1 >= 0), ('F1>=0', zF1 >= 0), ('Jxx>=0', zJ >= 0), ('E1*Jxx>=S1^2', zE1 * zJ >= zS1 * zS1)):
                    sv = z3.Solver()
                    sv.set('timeout', 20000)
                    sv.add(*facts)
                    sv.add(z3.Not(claim))
                    import time
                    t0 = time.time()
                    r = sv.check()
                    led.solver_time('z3', time.time() - t0)
                    nm = '%s/%s' % (name, part)
                    if r == z3.unsat:
                        led.ok(nm, B1 + 'calc_k0', backend='z3')
                    elif r == z3.sat:
                        mdl = sv.model()
                        led.fail(nm, B1 + 'calc_k0', {'model': {str(d): str(mdl[d]) for d in mdl.decls()},
                                                      'meaning': 'the flange stiffness functional bf/2 Int[E1 e^2 - 2 S1 e t + Jxx t^2 + F1 k^2] is indefinite: '
                                                                 'Jxx is a purely geometric torsion constant (no modulus) while S1 carries the ply stiffness'},
                                 backend='z3', signature='psd:' + part, replay=replay_blade1d_psd())
                    else:
                        led.undecide(nm, B1 + 'calc_k0', 'z3 unknown')
            led.solver_time('z3-feasibility', it.solver_time)


def rational_arg_diffs(t, want):
    from ..poly import rational_close
    out = []
    for k, w in want.items():
        g = t.f['args'].get(k)
        if g is None:
            out.append('%s not passed' % k)
            continue
        g = g if isinstance(g, P) else P.const(g)
        w = w if isinstance(w, P) else P.const(w)
        if not rational_close(g, w)[0]:
            out.append('%s = %s, expected %s' % (k, pycheck.describe(g), pycheck.describe(w)))
    return out


_B1R = {}


def replay_blade1d_psd():
    if 'r' in _B1R:
        return _B1R['r']
    from ..pyreplay import run_real
    script = '''
import numpy as np
from compmech.stiffpanelbay import StiffPanelBay
spb = StiffPanelBay()
spb.a = 2.; spb.b = 1.; spb.m = 6; spb.n = 6; spb.model = 'plate_clt_donnell_bardell'
spb.stack = [0, 90, 90, 0]; spb.plyt = 1.25e-4; spb.mu = 1.3e3
spb.laminaprop = (142.5e9, 8.7e9, 0.28, 5.1e9, 5.1e9, 5.1e9)
spb.add_panel(y1=0, y2=spb.b/2.); spb.add_panel(y1=spb.b/2., y2=spb.b)
s = spb.add_bladestiff1d(ys=spb.b/2., Fx=0., bf=0.05, fstack=payload['fstack'], fplyt=spb.plyt, flaminaprop=spb.laminaprop)
size = spb.get_size()
s.calc_k0(size=size, row0=0, col0=0, silent=True)
K = np.asarray(s.k0.todense()); w = np.linalg.eigvalsh((K + K.T)/2)
out = dict(min_eig=float(w.min()), max_eig=float(w.max()), E1=float(s.E1), S1=float(s.S1), Jxx=float(s.Jxx), E1Jxx_minus_S1sq=float(s.E1*s.Jxx - s.S1**2))
'''
    pay = {'fstack': [45, 45, 45, 45]}
    r = run_real(script, pay)
    r['input'] = 'bay 2 x 1, skin [0,90,90,0], one 1-D blade stiffener with flange [45]*4, bf = 0.05: smallest eigenvalue of the stiffener k0'
    r['reproduced'] = bool(r.get('min_eig', 0) < -1e-9 * abs(r.get('max_eig', 1)) and r.get('E1Jxx_minus_S1sq', 0) < 0)
    r['real_function'] = 'BladeStiff1D.calc_k0'
    _B1R['r'] = r
    return r


# ---------------------------------------------------------------------------------------------------------------- BladeStiff2D
def check_bladestiff2d(led, only=None, base_definition=True):
    """BladeStiff2D: base on the skin's own amplitudes (block at 0), flange plate at (row0, col0), the three penalty blocks
    skin-skin at (0, 0), skin-flange at (0, col0), flange-flange at (row0, col0), all with one pair of penalty constants."""
    for meth in ('__init__', '_rebuild', 'calc_k0', 'calc_kG0', 'calc_kM'):
        led.function(BF2 + meth)
    for with_base, lazy in ((False, False), (True, False), (True, True)):
        it, calls = py_panel.mk()
        _with_plies(it)
        mod = it.module('compmech.stiffener.bladestiff2d')
        smod = it.module('compmech.stiffener.models.bladestiff2d_clt_donnell_bardell')
        for fn, f in list(smod.g.items()):
            if isinstance(f, pysym.Func) and fn.startswith('fkC'):
                it.contracts[f.qualname] = panelctx.kernel_contract(it, f, calls)
        it.algebraic_minmax = True
        holder = {}
        tag = ('with base' if with_base else 'no base') + (', skins defined by one ply thickness' if lazy else '')

        def run():
            del calls[:]
            bay = make_bay(it)
            ys = real('ys')
            p1 = skin(it, bay, 'skin1', P.const(0), ys, lazy)
            p2 = skin(it, bay, 'skin2', ys, bay.attrs['b'], lazy, plies=1 if lazy else 2)
            bb, bf = real('bb'), real('bf')
            it.facts[:] = [to_z3(bay.attrs['a']) > 0, to_z3(bay.attrs['b']) > 0, to_z3(bay.attrs['a']) <= 10 * to_z3(bay.attrs['b']), to_z3(bb) > 0, to_z3(bf) > 0]
            matb = tuple(real(x + 'b') for x in MAT)
            matf = tuple(real(x + 'f') for x in MAT)
            s = it.call(mod.g['BladeStiff2D'], [], dict(bay=bay, mu=real('mu'), panel1=p1, panel2=p2, ys=ys, bb=bb, bf=bf,
                                                       bstack=[real('thb')] if with_base else None, bplyts=[real('tb')] if with_base else None,
                                                       blaminaprops=[matb] if with_base else None,
                                                       fstack=[real('thf')], fplyts=[real('tf')], flaminaprops=[matf],
                                                       mf=integer('mf'), nf=integer('nf')))
            size, row0 = integer('size'), integer('row0')
            out = {}
            if lazy:
                # StiffPanelBay._rebuild rebuilds the skin panels before the stiffeners in every calc_* method
                it.call(it.getattr(p1, '_rebuild'), [], {})
                it.call(it.getattr(p2, '_rebuild'), [], {})
            for which in ('k0', 'kG0', 'kM'):
                del calls[:]
                it.call(it.getattr(s, 'calc_' + which), [], dict(size=size, row0=row0, col0=row0, silent=True, finalize=False))
                out[which] = s.attrs[which]
            kfun = it.module('compmech.panel.connections.penalty_constants').g['calc_kt_kr']
            want_ktkr = it.call(kfun, [s.attrs['base'] if with_base else p1, s.attrs['flange'], 'ycte'], {})
            holder.update(bay=bay, size=size, row0=row0, ys=ys, bb=bb, bf=bf, ktkr=want_ktkr)
            return s, out
        for path, out in it.explore(run):
            name = '%s[%s]' % (BF2 + 'calc_*', tag)
            if out[0] != 'return':
                report(led, name + '/no-exception', BF2 + 'calc_k0', ['raises %s%s' % (out[1].tname, tuple(str(x)[:80] for x in out[1].eargs))], signature='raise:' + out[1].tname)
                continue
            s, mats = out[1]
            bay, size, row0, ys, bb, bf, (kt, kr) = (holder[k] for k in ('bay', 'size', 'row0', 'ys', 'bb', 'bf', 'ktkr'))
            base, flange = s.attrs['base'], s.attrs['flange']
            y1, y2 = ys - bb * Fraction(1, 2), ys + bb * Fraction(1, 2)
            fl = {k + 'f': flange.attrs[k] for k in FLAG_NAMES}
            bayfl = {k: bay.attrs[k] for k in FLAG_NAMES}
            geo = dict(a=bay.attrs['a'], b=bay.attrs['b'], m=bay.attrs['m'], n=bay.attrs['n'])
            for which in ('k0', 'kG0', 'kM'):
                if only and which not in only:
                    continue
                wrap, kern, scales = kernels_of(mats[which])
                probs = unfinalized(wrap)
                byfn = {}
                for t in kern:
                    byfn.setdefault(t.f['fn'], []).append(t)
                pk = {'k0': 'fk0', 'kG0': 'fkG0', 'kM': 'fkM'}[which]
                exp = [pk] + ([pk + 'y1y2'] if (with_base and which != 'kG0') else []) + (['fkCss', 'fkCsf', 'fkCff'] if which == 'k0' else [])
                if sorted(byfn) != sorted(exp):
                    probs.append('contributions %s, expected %s' % (sorted(byfn), sorted(exp)))
                for fn, ts in byfn.items():
                    if len(ts) != 1:
                        probs.append('%s called %d times' % (fn, len(ts)))
                        continue
                    t = ts[0]
                    if fn == pk:
                        probs += ['flange %s: %s' % (fn, d) for d in arg_diffs(t, dict(size=size, row0=row0, col0=row0))]
                        probs += view_diffs(t, dict(a=bay.attrs['a'], b=bf, m=integer('mf'), n=integer('nf'), mu=real('mu')), 'flange ')
                    elif fn == pk + 'y1y2':
                        probs += ['base %s: %s' % (fn, d) for d in arg_diffs(t, dict(size=size, row0=0, col0=0, y1=y1, y2=y2))]
                        probs += view_diffs(t, dict(flags_of(bay), a=bay.attrs['a'], b=bay.attrs['b'], m=bay.attrs['m'], n=bay.attrs['n'], mu=real('mu')), 'base ')
                    elif fn == 'fkCss':
                        probs += ['fkCss: ' + d for d in arg_diffs(t, dict(geo, ys=ys, size=size, row0=0, col0=0, **bayfl))]
                    elif fn == 'fkCsf':
                        probs += ['fkCsf: ' + d for d in arg_diffs(t, dict(geo, ys=ys, bf=bf, m1=integer('mf'), n1=integer('nf'), size=size, row0=0, col0=row0, **dict(bayfl, **fl)))]
                    elif fn == 'fkCff':
                        probs += ['fkCff: ' + d for d in arg_diffs(t, dict(a=bay.attrs['a'], bf=bf, m1=integer('mf'), n1=integer('nf'), size=size, row0=row0, col0=row0, **fl))]
                    if fn.startswith('fkC'):
                        from ..poly import rational_close
                        for nm, w in (('kt', kt), ('kr', kr)):
                            g = t.f['args'].get(nm)
                            if g is None or not rational_close(g if isinstance(g, P) else P.const(g), w)[0]:
                                probs.append('%s: %s is not calc_kt_kr(%s, flange, ycte)' % (fn, nm, 'base' if with_base else 'panel1'))
                if any(k != 1 for k in scales):
                    probs.append('a contribution is scaled')
                report(led, '%s[%s]' % (BF2 + 'calc_' + which, tag), BF2 + 'calc_' + which, probs)
            probs = []
            if with_base and base_definition:
                tsk1, tsk2, tb = real('tskin_skin1'), real('tskin_skin2'), real('tb')
                h = tsk1 * Fraction(1, 2) + tsk2 * Fraction(1, 2)
                if not peq(base.attrs.get('offset'), -(h * Fraction(1, 2) + tb * Fraction(1, 2))):
                    probs.append('base offset %s, expected -(h/2 + hb/2)' % pycheck.describe(base.attrs.get('offset')))
                for f in FLAG_NAMES:
                    if not peq(base.attrs[f], bay.attrs[f]):
                        probs.append('base edge flag %s differs from the bay' % f)
            # the flange is attached along its edge eta = -1 (the kernels evaluate its functions there): its displacement must be free there
            for f in ('u1ty', 'v1ty', 'w1ty', 'w1ry'):
                if not peq(flange.attrs[f], 1):
                    probs.append('flange flag %s = %s: the attached edge must be free for the penalty to act' % (f, pycheck.describe(flange.attrs[f])))
            report(led, '%s[%s]/panels' % (BF2 + '__init__', tag), BF2 + '__init__', probs, replay=replay_blade2d_offset if (probs and with_base) else None,
                   signature='blade2d-panels:' + ';'.join(probs)[:100])
        led.solver_time('z3-feasibility', it.solver_time)


def replay_blade2d_offset():
    """real bay: skin panels added with the bay's single ply thickness, 2-D blade stiffener with a base; offset of the base laminate after
    calc_k0, against the same bay with the per-ply lists given explicitly"""
    from ..pyreplay import run_real
    script = '''
import numpy as np
from compmech.stiffpanelbay import StiffPanelBay
lp = (142.5e9, 8.7e9, 0.28, 5.1e9, 5.1e9, 5.1e9)
def bay(explicit):
    spb = StiffPanelBay()
    spb.a = 2.; spb.b = 1.; spb.m = 4; spb.n = 4; spb.model = 'plate_clt_donnell_bardell'
    spb.stack = [0, 90, 90, 0]; spb.plyt = 1.25e-4; spb.mu = 1.3e3; spb.laminaprop = lp
    kw = dict(plyts=[1.25e-4]*4) if explicit else {}
    spb.add_panel(y1=0, y2=0.5, **kw); spb.add_panel(y1=0.5, y2=1., **kw)
    s = spb.add_bladestiff2d(ys=0.5, bb=0.1, bstack=[0]*4, bplyt=1.25e-4, blaminaprop=lp, bf=0.05, fstack=[0]*8, fplyt=spb.plyt, flaminaprop=lp, mf=3, nf=3)
    k0 = np.asarray(spb.calc_k0(silent=True).todense())
    return float(s.base.offset), k0
o1, k1 = bay(False); o2, k2 = bay(True)
out = {"base_offset_plyt_only": o1, "base_offset_explicit_plyts": o2, "expected": -(5e-4/2 + 5e-4/2), "k0_rel_difference": float(abs(k1 - k2).max()/abs(k2).max())}
'''
    r = run_real(script, {})
    r['reproduced'] = bool(r.get('raised') or abs(r.get('base_offset_plyt_only', 0) - r.get('expected', 0)) > 1e-12)
    r['input'] = 'bay 2 x 1, skins [0,90,90,0] added with plyt=1.25e-4 only, blade stiffener with a 4-ply base at ys=0.5'
    return r


def check_tstiff2d_kG0_kM(led, only=None):
    """TStiff2D.calc_kG0 / calc_kM: base block at (row0, col0), flange block right after the base, global size, nothing else"""
    for which in ('kG0', 'kM'):
        if only and which not in only:
            continue
        func = TF + 'calc_' + which
        led.function(func)
        it, calls = py_panel.mk()
        mod = it.module('compmech.stiffener.tstiff2d')
        it.algebraic_minmax = True
        holder = {}

        def run():
            del calls[:]
            bay = make_bay(it)
            ys = real('ys')
            p1 = skin(it, bay, 'skin1', P.const(0), ys)
            p2 = skin(it, bay, 'skin2', ys, bay.attrs['b'], plies=2)
            bb, bf = real('bb'), real('bf')
            it.facts[:] = [to_z3(bay.attrs['a']) > 0, to_z3(bay.attrs['b']) > 0, to_z3(bay.attrs['a']) <= 10 * to_z3(bay.attrs['b']), to_z3(bb) > 0, to_z3(bf) > 0]
            matb = tuple(real(x + 'b') for x in MAT)
            matf = tuple(real(x + 'f') for x in MAT)
            s = it.call(mod.g['TStiff2D'], [], dict(bay=bay, mu=real('mu'), panel1=p1, panel2=p2, ys=ys, bb=bb, bf=bf,
                                                    bstack=[real('thb')], bplyts=[real('tb')], blaminaprops=[matb],
                                                    fstack=[real('thf')], fplyts=[real('tf')], flaminaprops=[matf],
                                                    mb=integer('mb'), nb=integer('nb'), mf=integer('mf'), nf=integer('nf')))
            del calls[:]
            size, row0 = integer('size'), integer('row0')
            it.call(it.getattr(s, 'calc_' + which), [], dict(size=size, row0=row0, col0=row0, silent=True, finalize=False))
            holder.update(bay=bay, size=size, row0=row0, bb=bb, bf=bf)
            return s
        for path, out in it.explore(run):
            if out[0] != 'return':
                report(led, func + '/no-exception', func, ['raises %s%s' % (out[1].tname, tuple(str(x)[:80] for x in out[1].eargs))], signature='raise:' + out[1].tname)
                continue
            s = out[1]
            bay, size, row0, bb, bf = (holder[k] for k in ('bay', 'size', 'row0', 'bb', 'bf'))
            rowf = row0 + 3 * integer('mb') * integer('nb')
            wrap, kern, scales = kernels_of(s.attrs[which])
            fn = {'kG0': 'fkG0', 'kM': 'fkM'}[which]
            probs = []
            probs += unfinalized(wrap)
            if [t.f['fn'].replace('y1y2', '') for t in kern] != [fn, fn]:
                probs.append('contributions %s, expected the base and the flange %s' % ([t.f['fn'] for t in kern], fn))
            else:
                probs += ['base: ' + d for d in whole_domain(kern[0], bay.attrs['a'], bb)]
                probs += ['flange: ' + d for d in whole_domain(kern[1], bay.attrs['a'], bf)]
                for t, lab, r0, dims in ((kern[0], 'base', row0, (bay.attrs['a'], bb, integer('mb'), integer('nb'))), (kern[1], 'flange', rowf, (bay.attrs['a'], bf, integer('mf'), integer('nf')))):
                    probs += ['%s: %s' % (lab, d) for d in arg_diffs(t, dict(size=size, row0=r0, col0=r0))]
                    probs += view_diffs(t, dict(zip(('a', 'b', 'm', 'n', 'mu'), dims + (real('mu'),))), lab + ' ')
            if any(k != 1 for k in scales):
                probs.append('a contribution is scaled')
            report(led, func, func, probs)
        led.solver_time('z3-feasibility', it.solver_time)
