"""Python-layer contracts of the 2-D stiffener classes (C12 / C13): TStiff2D and BladeStiff2D build base and flange panels and
call the connection kernels; the obligations are about WHERE (rows/columns) and WITH WHAT (interface lines, penalty constants,
edge flags, sizes) those kernels are called."""
from fractions import Fraction

from ..poly import P, normal
from .. import pysym, shims, panelctx, pycheck
from ..pysym import Interp, real, integer, Opaque, SymRaise, Obj, to_z3
from ..kharness import FLAG_NAMES
from . import py_panel
from .py_panel import report

TF = 'compmech/stiffener/tstiff2d.py:TStiff2D.'
BF2 = 'compmech/stiffener/bladestiff2d.py:BladeStiff2D.'
MAT = ('E1', 'E2', 'nu12', 'G12', 'G13', 'G23')


def peq(a, b):
    if a is None or b is None:
        return a is b
    a = a if isinstance(a, P) else P.const(a)
    b = b if isinstance(b, P) else P.const(b)
    return normal(a - b).is_zero()


def make_bay(it):
    bay = Obj(None)
    bay.name = 'bay'
    bay.attrs.update(a=real('a'), b=real('b'), m=integer('m'), n=integer('n'), r=None, alphadeg=None, model='plate_clt_donnell_bardell')
    for f in FLAG_NAMES:
        bay.attrs[f] = real(f + '_bay')
    return bay


def skin(it, bay, name, y1, y2):
    p = panelctx.new_panel(it, a=bay.attrs['a'], b=bay.attrs['b'], y1=y1, y2=y2, stack=[real('ths')], plyts=[real('tskin')],
                           laminaprops=[tuple(real(x + 's') for x in MAT)], mu=real('mu'), m=bay.attrs['m'], n=bay.attrs['n'],
                           model='plate_clt_donnell_bardell')
    p.name = name
    return p


def kernels_of(r):
    wrap, terms = pycheck.terms_of(r)
    return wrap, [t for k, t in terms if isinstance(t, Opaque) and t.kind == 'kernel'], [k for k, t in terms]


def arg_diffs(t, want):
    out = []
    for k, w in want.items():
        g = t.f['args'].get(k)
        if isinstance(w, str) or isinstance(g, str):
            if g != w:
                out.append('%s = %r, expected %r' % (k, g, w))
        elif not peq(g, w):
            out.append('%s = %s, expected %s' % (k, pycheck.describe(g), pycheck.describe(w)))
    return out


def flags_of(obj, suffix=''):
    return {f + suffix: obj.attrs[f] for f in FLAG_NAMES}


def check_tstiff2d(led):
    func = TF + 'calc_k0'
    led.function(func)
    led.function(TF + '__init__')
    led.function(TF + '_rebuild')
    it, calls = py_panel.mk()
    mod = it.module('compmech.stiffener.tstiff2d')
    # stiffener connection kernels: scalar-typed contracts
    smod = it.module('compmech.stiffener.models.tstiff2d_clt_donnell_bardell')
    for fn, f in list(smod.g.items()):
        if isinstance(f, pysym.Func) and fn.startswith('fkC'):
            it.contracts[f.qualname] = panelctx.kernel_contract(it, f, calls)
    it.algebraic_minmax = True
    for etas in ('default', 'symbolic'):
        holder = {}

        def run():
            del calls[:]
            bay = make_bay(it)
            ys = real('ys')
            p1 = skin(it, bay, 'skin1', P.const(0), ys)
            p2 = skin(it, bay, 'skin2', ys, bay.attrs['b'])
            bb, bf = real('bb'), real('bf')
            it.facts[:] = [to_z3(bay.attrs['a']) > 0, to_z3(bay.attrs['b']) > 0, to_z3(bay.attrs['a']) <= 10 * to_z3(bay.attrs['b']), to_z3(bb) > 0, to_z3(bf) > 0]
            matb = tuple(real(x + 'b') for x in MAT)
            matf = tuple(real(x + 'f') for x in MAT)
            s = it.call(mod.g['TStiff2D'], [], dict(bay=bay, mu=real('mu'), panel1=p1, panel2=p2, ys=ys, bb=bb, bf=bf,
                                                    bstack=[real('thb')], bplyts=[real('tb')], blaminaprops=[matb],
                                                    fstack=[real('thf')], fplyts=[real('tf')], flaminaprops=[matf],
                                                    mb=integer('mb'), nb=integer('nb'), mf=integer('mf'), nf=integer('nf')))
            if etas == 'symbolic':
                s.attrs['eta_conn_base'] = real('eta_b')
                s.attrs['eta_conn_flange'] = real('eta_f')
            del calls[:]
            size, row0 = integer('size'), integer('row0')
            it.call(it.getattr(s, 'calc_k0'), [], dict(size=size, row0=row0, col0=row0, silent=True, finalize=False))
            holder.update(bay=bay, s=s, size=size, row0=row0, ys=ys, bb=bb, bf=bf)
            return s
        for path, out in it.explore(run):
            name = '%s[eta_conn=%s]' % (func, etas)
            if out[0] != 'return':
                report(led, name + '/no-exception', func, ['raises %s%s' % (out[1].tname, tuple(str(x)[:80] for x in out[1].eargs))], signature='raise:' + out[1].tname)
                continue
            s = out[1]
            bay, size, row0, ys, bb, bf = holder['bay'], holder['size'], holder['row0'], holder['ys'], holder['bb'], holder['bf']
            base, flange = s.attrs['base'], s.attrs['flange']
            nbase = 3 * integer('mb') * integer('nb')
            rowf = row0 + nbase
            wrap, kern, scales = kernels_of(s.attrs['k0'])
            byfn = {}
            for t in kern:
                byfn.setdefault(t.f['fn'], []).append(t)
            probs = []
            # panels
            fk = byfn.get('fk0y1y2', []) + byfn.get('fk0', [])
            if len(fk) != 2:
                probs.append('%d panel stiffness terms, expected base + flange' % len(fk))
            else:
                probs += ['base: ' + d for d in arg_diffs(fk[0], dict(size=size, row0=row0, col0=row0))]
                probs += ['flange: ' + d for d in arg_diffs(fk[1], dict(size=size, row0=rowf, col0=rowf))]
            # skin-base penalty (three blocks)
            y1, y2 = ys - bb * Fraction(1, 2), ys + bb * Fraction(1, 2)
            tsk, tb = real('tskin'), real('tb')
            dpb = (tsk * Fraction(1, 2) + tsk * Fraction(1, 2)) * Fraction(1, 2) + tb * Fraction(1, 2)
            for fn, place in (('fkCppy1y2', dict(row0=0, col0=0)), ('fkCpby1y2', dict(row0=0, col0=row0)), ('fkCbbpby1y2', dict(row0=row0, col0=row0))):
                ts = byfn.get(fn, [])
                if len(ts) != 1:
                    probs.append('%s called %d times' % (fn, len(ts)))
                    continue
                want = dict(y1=y1, y2=y2, a=bay.attrs['a'], b=bay.attrs['b'], size=size, **place)
                if fn != 'fkCbbpby1y2':
                    want['dpb'] = dpb
                    want.update({k: bay.attrs[k] for k in FLAG_NAMES})
                    want.update(m=bay.attrs['m'], n=bay.attrs['n'])
                if fn == 'fkCpby1y2':
                    want.update(m1=integer('mb'), n1=integer('nb'))
                    want.update({k + 'b': base.attrs[k] for k in FLAG_NAMES})
                if fn == 'fkCbbpby1y2':
                    want.update(m1=integer('mb'), n1=integer('nb'))
                    want.update({k + 'b': base.attrs[k] for k in FLAG_NAMES})
                probs += ['%s: %s' % (fn, d) for d in arg_diffs(ts[0], want)]
            kts = {pycheck.describe(byfn[fn][0].f['args'].get('kt')) for fn in ('fkCppy1y2', 'fkCpby1y2', 'fkCbbpby1y2') if fn in byfn}
            if len(kts) > 1:
                probs.append('the three skin-base blocks use different penalty constants: %s' % sorted(kts))
            # base-flange connection: interface lines in each panel's own coordinates
            eb = s.attrs['eta_conn_base']
            ef = s.attrs['eta_conn_flange']
            ycte1 = (eb + 1) * Fraction(1, 2) * bb
            ycte2 = (ef + 1) * Fraction(1, 2) * bf
            for fn, want in (('fkCBFycte11', dict(ycte1=ycte1, size=size, row0=row0, col0=row0)),
                             ('fkCBFycte12', dict(ycte1=ycte1, ycte2=ycte2, size=size, row0=row0, col0=rowf)),
                             ('fkCBFycte22', dict(ycte2=ycte2, size=size, row0=rowf, col0=rowf))):
                ts = byfn.get(fn, [])
                if len(ts) != 1:
                    probs.append('%s called %d times' % (fn, len(ts)))
                    continue
                probs += ['%s: %s (interface line on the %s in its own coordinate)' % (fn, d, 'flange' if 'ycte2' in d else 'base') if 'ycte' in d else '%s: %s' % (fn, d)
                          for d in arg_diffs(ts[0], want)]
                pv = ts[0].f['panel']
                for key, obj in (('p1', base), ('p2', flange)):
                    for f_ in ('a', 'b', 'm', 'n'):
                        k2 = '%s.%s' % (key, f_)
                        if k2 in pv and not peq(pv[k2], obj.attrs[f_]):
                            probs.append('%s: %s = %s, expected the %s of the %s' % (fn, k2, pycheck.describe(pv[k2]), f_, 'base' if key == 'p1' else 'flange'))
            kbf = {(pycheck.describe(byfn[fn][0].f['args'].get('kt')), pycheck.describe(byfn[fn][0].f['args'].get('kr'))) for fn in ('fkCBFycte11', 'fkCBFycte12', 'fkCBFycte22') if fn in byfn}
            if len(kbf) > 1:
                probs.append('the three base-flange blocks use different penalty constants')
            if any(k != 1 for k in scales):
                probs.append('a contribution is scaled')
            report(led, name, func, probs)
    led.solver_time('z3-feasibility', it.solver_time)


def check_kt_kr(led):
    """calc_kt_kr: symmetric in the two panels, homogeneous of degree 1 in the moduli (through the C01 contract: A, D linear in the moduli)"""
    func = 'compmech/panel/connections/penalty_constants.py:calc_kt_kr'
    led.function(func)
    it, calls = py_panel.mk()
    f = it.module('compmech.panel.connections.penalty_constants').g['calc_kt_kr']
    from ..poly import rational_close

    def two_panels():
        ps = []
        for sfx in ('_1', '_2'):
            p, kw, want, g = py_panel.build(it, 'plate', 'uniform', 'none', {}, sfx=sfx)
            ps.append(p)
        return ps
    for kind in ('xcte', 'ycte', 'bot-top', 'xcte-ycte', 'ycte-xcte'):
        def run():
            p1, p2 = two_panels()
            r12 = it.call(f, [p1, p2, kind], {})
            p1b, p2b = two_panels()
            r21 = it.call(f, [p2b, p1b, {'xcte-ycte': 'ycte-xcte', 'ycte-xcte': 'xcte-ycte'}.get(kind, kind)], {})
            return r12, r21, p1
        for path, out in it.explore(run):
            name = '%s[%s]' % (func, kind)
            if out[0] != 'return':
                report(led, name + '/no-exception', func, ['raises %s%s' % (out[1].tname, tuple(str(x)[:80] for x in out[1].eargs))], signature='raise')
                continue
            (kt12, kr12), (kt21, kr21), p1 = out[1]
            probs = []
            if kind == 'bot-top':
                # the face-to-face constant is divided by min(p1.a, p1.b): not symmetric in the panels unless they share that length
                pass
            else:
                if not rational_close(kt12, kt21)[0]:
                    probs.append('kt(p1,p2) != kt(p2,p1)')
                if kr12 is not None and not rational_close(kr12, kr21)[0]:
                    probs.append('kr(p1,p2) != kr(p2,p1)')
            # degree-1 homogeneity in the laminate stiffness atoms (A.., D.. are linear in the moduli by C01)
            for nm, val in (('kt', kt12), ('kr', kr12)):
                if val is None:
                    continue
                lam_atoms = [a for a in normal(val).atoms() if '<lam:' in a]
                from ..poly import DENOMS
                sub = {a: P.atom(a) * P.atom('$s') for a in lam_atoms}
                scaled = normal(val.subs(sub)) if not any(a.startswith('inv[') for a in val.atoms()) else None
                if scaled is None:
                    # rational in the stiffnesses: check homogeneity after clearing the denominator: val = N/D with deg N = deg D + 1
                    ok = homogeneous_degree_one(val, lam_atoms)
                else:
                    ok = rational_close(scaled, val * P.atom('$s'))[0]
                if not ok:
                    probs.append('%s is not homogeneous of degree 1 in the laminate stiffnesses (hence not linear in the moduli)' % nm)
            report(led, name, func, probs)
    led.solver_time('z3-feasibility', it.solver_time)


def homogeneous_degree_one(val, lam_atoms):
    from ..poly import DENOMS, normal, rational_close
    s = P.atom('$s')
    # substitute every stiffness atom X -> s*X inside numerators and inside the registered denominators
    def scale(p):
        return normal(p.subs({a: P.atom(a) * s for a in lam_atoms}))
    out = P({})
    for m, c in normal(val).t.items():
        term = P.const(c)
        for a, e in m:
            if a.startswith('inv['):
                term = term * (P.const(1) / scale(DENOMS[a])) ** e
            elif a in lam_atoms:
                term = term * (P.atom(a) * s) ** e
            else:
                term = term * P.atom(a) ** e
        out = out + term
    return rational_close(out, val * s)[0]
