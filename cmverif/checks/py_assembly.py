"""Python-layer contracts of PanelAssembly (C13, and the assembly parts of C07, C08, C12)."""
import itertools
from fractions import Fraction

from ..poly import P, normal
from .. import pysym, shims, panelctx, pycheck, vc
from ..pysym import Interp, real, integer, Opaque, SymRaise, to_z3, Cond, Obj
from ..kernel import OutArray, RowComb
from . import py_panel
from .py_panel import build, report, GEOMS

AF = 'compmech/panel/assembly/assembly.py:PanelAssembly.'


PRELOAD = dict(Nxx_cte=P.const(-3), Nyy_cte=P.const(2), Nxy_cte=P.const(1))


def make_assembly(it, geoms, conn_spec=None, forces=0, preload_panel=None):
    panels, meta = [], []
    for k, geom in enumerate(geoms):
        p, kw, want, g = build(it, geom, 'uniform', 'none', dict(PRELOAD) if k == preload_panel else {}, sfx='_%d' % (k + 1))
        panels.append(p)
        meta.append((kw, want, g))
    conn = None
    if conn_spec:
        conn = []
        for (i, j, func) in conn_spec:
            d = dict(p1=panels[i], p2=panels[j], func=func)
            if 'ycte' in func:
                d.update(ycte1=real('ycte1_%d%d' % (i, j)), ycte2=real('ycte2_%d%d' % (i, j)))
            if 'xcte' in func:
                d.update(xcte1=real('xcte1_%d%d' % (i, j)), xcte2=real('xcte2_%d%d' % (i, j)))
            conn.append(d)
    amod = it.module('compmech.panel.assembly.assembly')
    asm = it.call(amod.g['PanelAssembly'], [panels], {'conn': conn})
    asm.name = 'assembly'
    return asm, panels, meta, conn


def offsets(meta):
    offs, tot = [], P.const(0)
    for kw, want, g in meta:
        offs.append(tot)
        tot = tot + 3 * kw['m'] * kw['n']
    return offs, tot


def peq(a, b):
    a = a if isinstance(a, P) else P.const(a)
    b = b if isinstance(b, P) else P.const(b)
    return normal(a - b).is_zero()


def check_layout(led):
    """__init__ / get_size: consecutive disjoint ranges, size == sum of component sizes"""
    for N in (1, 2, 3):
        it, calls = py_panel.mk()
        geoms = ['plate', 'cpanel', 'plate'][:N]

        def run():
            asm, panels, meta, conn = make_assembly(it, geoms)
            size = it.call(it.getattr(asm, 'get_size'), [], {})
            return asm, panels, meta, size
        for path, out in it.explore(run):
            func = AF + '__init__'
            if out[0] != 'return':
                report(led, '%s[N=%d]/no-exception' % (func, N), func, ['raises %s' % out[1].tname])
                continue
            asm, panels, meta, size = out[1]
            offs, tot = offsets(meta)
            probs = []
            for k, p in enumerate(panels):
                for attr, want in (('row_start', offs[k]), ('col_start', offs[k]),
                                   ('row_end', offs[k] + 3 * meta[k][0]['m'] * meta[k][0]['n']),
                                   ('col_end', offs[k] + 3 * meta[k][0]['m'] * meta[k][0]['n'])):
                    if not peq(p.attrs.get(attr), want):
                        probs.append('panel %d: %s = %s, expected %s' % (k + 1, attr, pycheck.describe(p.attrs.get(attr)), pycheck.describe(want)))
            report(led, '%s[N=%d]/ranges-consecutive-and-disjoint' % (func, N), func, probs)
            report(led, '%sget_size[N=%d]/size==sum-of-component-sizes' % (AF, N), AF + 'get_size',
                   [] if peq(size, tot) else ['size = %s, expected %s' % (pycheck.describe(size), pycheck.describe(tot))])
    # panels that already belonged to an assembly: a second assembly lays them out by ITS list (positions are not inherited)
    it, calls = py_panel.mk()

    def run2():
        asm, panels, meta, conn = make_assembly(it, ['plate', 'cpanel', 'plate'])
        amod = it.module('compmech.panel.assembly.assembly')
        order = [2, 0]
        asm2 = it.call(amod.g['PanelAssembly'], [[panels[k] for k in order]], {})
        size = it.call(it.getattr(asm2, 'get_size'), [], {})
        return panels, meta, order, size
    for path, out in it.explore(run2):
        func = AF + '__init__'
        name = '%s[panels taken from an earlier assembly]/ranges-follow-the-new-list' % func
        if out[0] != 'return':
            report(led, name + '/no-exception', func, ['raises %s' % out[1].tname])
            continue
        panels, meta, order, size = out[1]
        probs = []
        tot = P.const(0)
        for k in order:
            n_ = 3 * meta[k][0]['m'] * meta[k][0]['n']
            for attr, want in (('row_start', tot), ('col_start', tot), ('row_end', tot + n_), ('col_end', tot + n_)):
                if not peq(panels[k].attrs.get(attr), want):
                    probs.append('panel %d: %s = %s, expected %s' % (k + 1, attr, pycheck.describe(panels[k].attrs.get(attr)), pycheck.describe(want)))
            tot = tot + n_
        if not peq(size, tot):
            probs.append('size = %s, expected %s' % (pycheck.describe(size), pycheck.describe(tot)))
        report(led, name, func, probs, signature='relayout')
    led.function(AF + '__init__')
    led.function(AF + 'get_size')
    led.bounded_item('PanelAssembly: number of panels N in {1,2,3} (series orders, geometry, laminates, flags symbolic)')


def expected_term(kind, k, meta, offs, tot):
    kw, want, g = meta[k]
    args = dict(size=tot, row0=offs[k], col0=offs[k])
    return args, want, g['model']


def check_matrix(led, method, kernel_names, extra_kwargs=None, with_conn=False, state=False, preload_panel=None):
    func = AF + method
    led.function(func)
    for N in (1, 2, 3):
        for fin in (True, False):
            if method in ('calc_fint', 'calc_fext') and not fin:
                continue
            it, calls = py_panel.mk()
            geoms = ['plate', 'cpanel', 'plate'][:N]
            conn_spec = [(0, 1, 'SSycte')] if (with_conn and N >= 2) else ([] if with_conn else None)
            tag = 'N=%d,finalize=%s%s' % (N, fin, '' if preload_panel is None else ',panel %d pre-loaded' % (preload_panel + 1))
            if extra_kwargs:
                tag += ',' + ','.join('%s given' % k_ for k_ in sorted(extra_kwargs))

            def run():
                asm, panels, meta, conn = make_assembly(it, geoms, conn_spec, preload_panel=preload_panel)
                for p in panels:
                    it.call(it.getattr(p, 'calc_k0'), [], dict(silent=True))      # panels already used once (typical history)
                del calls[:]
                kw = dict(silent=True)
                if method not in ('calc_fint', 'calc_fext'):
                    kw['finalize'] = fin
                if state:
                    from ..kernel import InArray, user_array
                    kw['c'] = user_array('c', shape=(offsets(meta)[1],))
                if extra_kwargs:
                    kw.update(extra_kwargs)
                if with_conn and conn_spec == []:
                    asm.attrs['conn'] = []
                r = it.call(it.getattr(asm, method), [], kw)
                return asm, panels, meta, r
            res = it.explore(run)
            for path, out in res:
                name = '%s[%s]' % (func, tag)
                if out[0] != 'return':
                    report(led, name + '/no-exception', func, ['raises %s%s' % (out[1].tname, tuple(str(a)[:80] for a in out[1].eargs))],
                           signature='raise:' + out[1].tname)
                    continue
                asm, panels, meta, r = out[1]
                offs, tot = offsets(meta)
                probs = []
                # the result may be  symmetrized(sum of panel terms) + k0_conn
                top = pysym._flat_terms(r) if isinstance(r, Opaque) else [r]
                panel_terms, conn_terms = [], []
                sym_seen = False
                for t in top:
                    if isinstance(t, Opaque) and t.kind == 'symmetrized':
                        if not isinstance(t.f['of'], Opaque):
                            continue            # finalize_symmetric_matrix(0.): empty connection matrix
                        inner = pysym._flat_terms(t.f['of'])
                        kinds = {x.f.get('fn', '') for x in inner if isinstance(x, Opaque) and x.kind == 'kernel'}
                        if any(k.startswith('fkC') for k in kinds):
                            conn_terms += inner
                        else:
                            panel_terms += inner
                            sym_seen = True
                    elif isinstance(t, Opaque) and t.kind == 'kernel':
                        (conn_terms if t.f['fn'].startswith('fkC') else panel_terms).append(t)
                    elif isinstance(t, Opaque) and t.kind == 'matmul':
                        conn_terms.append(t)
                    else:
                        probs.append('unexpected term %s' % pycheck.describe(t))
                # ---- the connection part: exactly the (completed) connection matrix of the assembly, once; for the internal force that
                # matrix times the caller's state
                if with_conn:
                    want_conn = ['fkC%s%s' % (conn_spec[0][2], blk) for blk in ('11', '12', '22')] if conn_spec else []
                    if method == 'calc_fint':
                        mm = [t for t in conn_terms if isinstance(t, Opaque) and t.kind == 'matmul']
                        other = [t for t in conn_terms if not (isinstance(t, Opaque) and t.kind == 'matmul')]
                        if other:
                            probs.append('connection kernels added to the force vector without the state')
                        if conn_spec and len(mm) != 1:
                            probs.append('%d terms (connection matrix) x (state), expected one' % len(mm))
                        for t in mm:
                            a_, b_ = t.f['a'], t.f['b']
                            if getattr(b_, 'name', None) != 'c':
                                probs.append('the connection matrix multiplies %s, expected the caller state' % pycheck.describe(b_))
                            w_, ts_ = pycheck.terms_of(a_)
                            names_ = sorted(x.f['fn'] for k_, x in ts_ if isinstance(x, Opaque) and x.kind == 'kernel')
                            if names_ != sorted(want_conn):
                                probs.append('connection matrix made of %s, expected %s' % (names_, sorted(want_conn)))
                            if want_conn and w_[:1] != ['symmetrized']:
                                probs.append('the connection matrix that multiplies the state is not completed (kernels emit the upper triangle only): '
                                             'the force misses the transposed coupling block')
                    elif method != 'calc_fext':
                        names_ = sorted(x.f['fn'] for x in conn_terms if isinstance(x, Opaque) and x.kind == 'kernel')
                        if names_ != sorted(want_conn):
                            probs.append('connection contribution %s, expected %s once' % (names_, sorted(want_conn)))
                        if any(isinstance(t, Opaque) and t.kind == 'kernel' and t.f['fn'].startswith('fkC') for t in top):
                            probs.append('a connection block is added without being completed to the symmetric matrix')
                if method not in ('calc_fint', 'calc_fext'):
                    if fin and not sym_seen:
                        probs.append('panel contributions are not symmetrized (finalize=True)')
                    if not fin and sym_seen:
                        probs.append('panel contributions symmetrized although finalize=False')
                exp = []
                for k in range(N):
                    kw, want, g = meta[k]
                    for kn in kernel_names:
                        args = dict(size=tot, row0=offs[k], col0=offs[k])
                        if kn in ('fkG0',):
                            args.update(Nxx=P.const(0), Nyy=P.const(0), Nxy=P.const(0))
                        if kn == 'fkM':
                            args.update(d=kw['offset'])
                        if kn in ('fkL_num', 'fkG_num'):
                            args = dict(size=tot, row0=offs[k], col0=offs[k], c=None, Fnxny=None, nx=kw['m'], ny=kw['n'], NLgeom=None)
                        if kn == 'calc_fint':
                            args = dict(size=tot, col0=offs[k], c=None, Fnxny=None, nx=kw['m'], ny=kw['n'])
                        exp.append((k, kn, args, want, g))
                        if k == preload_panel and kn in ('fk0', 'fkL_num'):
                            # the pre-loaded panel adds the initial-stress matrix of its constant pre-load at the same place
                            exp.append((k, 'fkG0', dict(size=tot, row0=offs[k], col0=offs[k], Nxx=PRELOAD['Nxx_cte'], Nyy=PRELOAD['Nyy_cte'], Nxy=PRELOAD['Nxy_cte']), want, g))
                got = [t for t in panel_terms if isinstance(t, Opaque) and t.kind == 'kernel']
                if len(got) != len(exp):
                    probs.append('%d panel kernel terms, expected %d (one %s per panel)' % (len(got), len(exp), '+'.join(kernel_names)))
                else:
                    for t, (k, kn, args, want, g) in zip(got, exp):
                        model = g['model'] if kn not in ('fkL_num', 'fkG_num', 'calc_fint') else g['model'] + '_num'
                        if kn == 'fkG0' and t.f['fn'] == 'fkG0':
                            model = g['model']
                        cmpargs = {a: v for a, v in args.items() if v is not None}
                        d = pycheck.diff_kernel(t, kn, model, cmpargs, want)
                        d = [x for x in d if not x.startswith('unexpected argument')]
                        probs += ['panel %d: %s' % (k + 1, x) for x in d]
                        if method == 'calc_kT' and kn in ('fkL_num', 'fkG_num') and t.f['fn'] == kn:
                            # the tangent: both parts are evaluated AT the caller's state with the non-linear terms on
                            a_ = t.f['args']
                            if panelctx.vkey(a_.get('NLgeom')) != panelctx.vkey(1):
                                probs.append('panel %d: %s called with NLgeom=%s, expected 1' % (k + 1, kn, pycheck.describe(a_.get('NLgeom'))))
                            if state and getattr(a_.get('cs'), 'name', None) != 'c':
                                probs.append('panel %d: %s does not receive the caller state' % (k + 1, kn))
                report(led, name, func, probs)
            led.solver_time('z3-feasibility', it.solver_time)


def check_add_force(led):
    """Panel.add_force registers exactly the force it is given, every time (point forces superpose: the same force added twice is a
    load of twice the magnitude), in the list that matches ``cte`` and nowhere else"""
    func = 'compmech/panel/_panel.py:Panel.add_force'
    led.function(func)
    it, calls = py_panel.mk()
    for cte in (True, False):
        def run():
            p, kw, want, g = build(it, 'plate', 'uniform', 'none', {})
            f = [real(s_) for s_ in ('xf', 'yf', 'fxf', 'fyf', 'fzf')]
            other = [real(s_ + '_other') for s_ in ('xf', 'yf', 'fxf', 'fyf', 'fzf')]
            it.call(it.getattr(p, 'add_force'), list(f), {'cte': cte})
            it.call(it.getattr(p, 'add_force'), list(other), {'cte': cte})
            it.call(it.getattr(p, 'add_force'), list(f), {'cte': cte})
            return p, f, other
        for path, out in it.explore(run):
            name = '%s[cte=%s]/every-call-appends-its-force' % (func, cte)
            if out[0] != 'return':
                report(led, name + '/no-exception', func, ['raises %s' % out[1].tname], signature='raise')
                continue
            p, f, other = out[1]
            mine, theirs = ('forces', 'forces_inc') if cte else ('forces_inc', 'forces')
            got = [list(x) for x in p.attrs.get(mine, [])]
            probs = []
            if len(got) != 3 or not all(peq(a_, b_) for a_, b_ in zip(sum(got, []), f + other + f)):
                probs.append('%s holds %d entries after three calls (the same force twice, another one in between): %s' % (mine, len(got), [[pycheck.describe(x) for x in e] for e in got]))
            if p.attrs.get(theirs):
                probs.append('%s was changed' % theirs)
            report(led, name, func, probs, signature='add_force')
    led.solver_time('z3-feasibility', it.solver_time)


def check_fext(led):
    """PanelAssembly.calc_fext / Panel.calc_fext: each force contributes F . g(x_f, y_f) of its own panel at that panel's range,
    incrementable forces scaled by the load factor (C07)"""
    func = AF + 'calc_fext'
    pfunc = 'compmech/panel/_panel.py:Panel.calc_fext'
    led.function(func)
    led.function(pfunc)
    led.function('compmech/panel/_panel.py:Panel.add_force')
    check_add_force(led)
    for N in (1, 2):
        for nf, nfi in ((0, 0), (1, 0), (0, 1), (2, 1)):
            it, calls = py_panel.mk()
            geoms = ['plate', 'cpanel'][:N]
            tag = 'N=%d,forces=%d,incremental=%d' % (N, nf, nfi)
            inc = real('inc')

            def run():
                asm, panels, meta, conn = make_assembly(it, geoms)
                fl = {}
                for k, p in enumerate(panels):
                    it.call(it.getattr(p, 'calc_k0'), [], dict(silent=True))
                    fl[k] = ([], [])
                    for q in range(nf):
                        f = [real('%s%d_p%d' % (s, q, k + 1)) for s in ('x', 'y', 'fx', 'fy', 'fz')]
                        it.call(it.getattr(p, 'add_force'), f, {})
                        fl[k][0].append(f)
                    for q in range(nfi):
                        f = [real('%si%d_p%d' % (s, q, k + 1)) for s in ('x', 'y', 'fx', 'fy', 'fz')]
                        it.call(it.getattr(p, 'add_force'), f, {'cte': False})
                        fl[k][1].append(f)
                del calls[:]
                r = it.call(it.getattr(asm, 'calc_fext'), [], dict(inc=inc, silent=True))
                return asm, panels, meta, r, fl
            for path, out in it.explore(run):
                name = '%s[%s]' % (func, tag)
                if out[0] != 'return':
                    report(led, name + '/no-exception', func, ['raises %s%s' % (out[1].tname, tuple(str(a)[:80] for a in out[1].eargs))], signature='raise:' + out[1].tname)
                    continue
                asm, panels, meta, r, fl = out[1]
                offs, tot = offsets(meta)
                probs = []
                # r is a linear combination of load vectors; flatten it into contributions (slice, coefficient * F.g)
                contribs = []
                for coef, v in collect_vectors(r):
                    if not isinstance(v, OutArray):
                        probs.append('load vector term is %r' % (v,))
                        continue
                    if not peq(v.length, tot):
                        probs.append('a load vector has length %s, expected the assembly size %s' % (pycheck.describe(v.length), pycheck.describe(tot)))
                    for st in v.stores:
                        key, val, mode = st[0], st[1], st[2]
                        if mode != '+=' or not isinstance(key, slice) or not isinstance(val, RowComb):
                            probs.append('contribution is not [fx,fy,fz].g accumulated into a slice')
                            continue
                        contribs.append((key.start if key.start is not None else 0, key.stop, [(c_ * coef, rf) for c_, rf in val.terms]))
                expected = []
                for k in range(N):
                    kw, want, g = meta[k]
                    for f, scale in [(f, P.const(1)) for f in fl[k][0]] + [(f, inc) for f in fl[k][1]]:
                        expected.append((k, f, scale))
                if len(contribs) != len(expected):
                    probs.append('%d force contributions, expected %d' % (len(contribs), len(expected)))
                else:
                    for (lo, hi, terms), (k, f, scale) in zip(contribs, expected):
                        kw, want, g = meta[k]
                        x, y, fx, fy, fz = f
                        if not peq(lo, offs[k]) or not peq(hi, offs[k] + 3 * kw['m'] * kw['n']):
                            probs.append('panel %d: contribution placed at [%s:%s], expected [%s:%s]' % (k + 1, pycheck.describe(lo), pycheck.describe(hi),
                                                                                                          pycheck.describe(offs[k]), pycheck.describe(offs[k] + 3 * kw['m'] * kw['n'])))
                        if len(terms) != 3:
                            probs.append('panel %d: contribution is not [fx,fy,fz].g' % (k + 1))
                            continue
                        for d_, (coef, (row, fill)) in enumerate(terms):
                            wantc = (fx, fy, fz)[d_] * scale
                            if row != d_ or not peq(coef, wantc):
                                probs.append('panel %d: row %d of g is weighted by %s, expected %s (force component%s)' % (k + 1, row, pycheck.describe(coef), pycheck.describe(wantc),
                                                                                                                        ' times the load factor' if scale is inc else ''))
                            dd = pycheck.diff_kernel(fill, 'fg', 'clt_bardell_field', dict(x=x, y=y), want)
                            probs += ['panel %d: g = %s' % (k + 1, z) for z in dd]
                report(led, name, func, probs)
            led.solver_time('z3-feasibility', it.solver_time)
    led.bounded_item('calc_fext: number of panels in {1,2}, number of constant / incrementable forces per panel in {0,1,2} (positions, components, load factor symbolic)')


class LinVec(object):
    """linear combination of load vectors: sum_k coef_k * vector_k"""
    def __init__(self, items):
        self.items = items          # list of (coef, OutArray)

    @staticmethod
    def lift(o):
        if isinstance(o, LinVec):
            return o
        if isinstance(o, OutArray):
            return LinVec([(P.const(1), o)])
        if isinstance(o, (int, P)) and not isinstance(o, bool) and (o == 0 or (isinstance(o, P) and o.is_zero())):
            return LinVec([])
        return None

    def __add__(self, o):
        o = LinVec.lift(o)
        if o is None:
            return NotImplemented
        return LinVec(self.items + o.items)
    __radd__ = __add__

    def __mul__(self, k):
        if isinstance(k, (int, P)) and not isinstance(k, bool):
            return LinVec([(c * k, a) for c, a in self.items])
        return NotImplemented
    __rmul__ = __mul__


def collect_vectors(r):
    lv = LinVec.lift(r)
    return lv.items if lv is not None else []


OutArray.__add__ = lambda self, o: LinVec.lift(self) + o
OutArray.__radd__ = lambda self, o: LinVec.lift(self) + o
OutArray.__mul__ = lambda self, k: LinVec.lift(self) * k
OutArray.__rmul__ = lambda self, k: LinVec.lift(self) * k
