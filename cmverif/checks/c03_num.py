"""C03, state-based route: fkG_num (NLgeom=0) uses at every integration point the resultants N = A*eps + B*kappa of the
(linear) strains of the state, for the uniform 6x6 laminate and for a per-point table alike."""
from fractions import Fraction

from ..poly import P, normal
from .. import kharness as K, spec_panel as S
from ..pysym import integer
from . import c08
from .c11_kernel import Fval


def body(led):
    for model in ('plate', 'cpanel'):
        for kind in ('uniform', 'table'):
            func = 'compmech/panel/models/%s.pyx:fkG_num' % c08.MODS[model]
            led.function(func)
            it, res, panel, (size, row0, col0, nx, ny) = c08.run(model, 'fkG_num', 0, kind)
            for path, out in res:
                if out[0] == 'raise':
                    led.fail('%s/no-exception[%s,NLgeom=0]' % (func, kind), func, {'raises': out[1].tname}, signature='raise')
            _, em = c08.merged_emissions(res)
            if not em:
                led.fail('%s/emits[%s,NLgeom=0]' % (func, kind), func, {'reason': 'no emission'}, signature='empty')
                continue
            path, groups = em[0]
            m, n = panel.attrs['m'], panel.attrs['n']
            a, b, r = panel.attrs['a'], panel.attrs['b'], panel.attrs['r']
            sx, sy = 2 / a, 2 / b
            ptx, pty = P.atom('ptx'), P.atom('pty')
            xi, eta = P.atom('gauss_x<1*nx>[1*ptx]'), P.atom('gauss_x<1*ny>[1*pty]')
            weight = P.atom('gauss_w<1*nx>[1*ptx]') * P.atom('gauss_w<1*ny>[1*pty]')
            F = c08.F_of(kind, panel, ptx, pty)

            def st(dof, ox, oy):
                return c08.state_sum(dof, ox, oy, xi, eta, m, n, col0) * (sx ** ox) * (sy ** oy)
            eps = [st(0, 1, 0), st(1, 0, 1) + (st(2, 0, 0) / r if model == 'cpanel' else 0), st(0, 0, 1) + st(1, 1, 0),
                   -st(2, 2, 0), -st(2, 0, 2), -2 * st(2, 1, 1)]
            N = [sum((F[s_][t_] * eps[t_] for t_ in range(6)), P.const(0)) for s_ in range(3)]
            seen = {}
            roles = None
            for g in groups:
                lv = [v for v in g['loopvars'] if v not in ('ptx', 'pty')]
                dr = K.decode_index(g['row'], row0, 3, m, lv)
                dc = K.decode_index(g['col'], col0, 3, m, lv)
                if dr is None or dc is None:
                    led.fail('%s/placement[%s,NLgeom=0]' % (func, kind), func, {'row': str(g['row'])}, signature='placement')
                    continue
                roles = (dr[0], dr[1], dc[0], dc[1])
                seen[(dr[2], dc[2])] = seen.get((dr[2], dc[2]), P.const(0)) + g['val']
            if roles is None:
                continue
            I, J, Kk, L = roles

            def sh(ox, oy, who):
                return Fval(ox, P.atom(who[0]), S.flagset('w', 'x'), xi) * Fval(oy, P.atom(who[1]), S.flagset('w', 'y'), eta) * (sx ** ox) * (sy ** oy)
            A_, B_ = (I, J), (Kk, L)
            spec = weight * a * b * Fraction(1, 4) * (N[0] * sh(1, 0, A_) * sh(1, 0, B_) + N[2] * (sh(1, 0, A_) * sh(0, 1, B_) + sh(0, 1, A_) * sh(1, 0, B_))
                                                    + N[1] * sh(0, 1, A_) * sh(0, 1, B_))
            for p in range(3):
                for q in range(3):
                    c08.cmp(led, '%s/entry[%d,%d]==N(state)-weighted-slope-Hessian[%s,NLgeom=0]' % (func, p, q, kind), func,
                            seen.get((p, q), P.const(0)), spec if (p, q) == (2, 2) else P.const(0), sig='kGnum%d%d' % (p, q))
