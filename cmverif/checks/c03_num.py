"""fkG_num integrand-level contract (filled in with the numerical kernels, DESIGN step 4)"""


def body(led):
    pass
