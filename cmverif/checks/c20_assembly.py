"""C20 for panel assemblies and stiffened bays: every evaluation method can be requested first on a freshly defined object and
returns the same result whatever was requested before (histories of length two over the listed methods, everything else
symbolic).  The real methods are executed symbolically; kernels act through their contracts, so two results are equal iff they
are the same composition of the same kernel calls."""
import itertools

from ..poly import P, normal
from .. import pysym, panelctx, pycheck
from ..pysym import real, integer, Opaque, SymRaise, to_z3
from ..kharness import FLAG_NAMES
from . import py_panel
from .py_assembly import make_assembly
from .c20 import result_key

AF = 'compmech/panel/assembly/assembly.py:PanelAssembly.'
BF = 'compmech/stiffpanelbay/stiffpanelbay.py:StiffPanelBay.'

ASM_OPS = {
    'calc_k0': lambda it, o: it.call(it.getattr(o, 'calc_k0'), [], dict(silent=True)),
    'calc_kG0': lambda it, o: it.call(it.getattr(o, 'calc_kG0'), [], dict(silent=True)),
    'calc_kM': lambda it, o: it.call(it.getattr(o, 'calc_kM'), [], dict(silent=True)),
    'get_k0_conn': lambda it, o: it.call(it.getattr(o, 'get_k0_conn'), [], {}),
    'get_k0_conn(finalize=False)': lambda it, o: it.call(it.getattr(o, 'get_k0_conn'), [], dict(finalize=False)),
    'get_k0_conn(conn=other)': lambda it, o: it.call(it.getattr(o, 'get_k0_conn'), [], dict(conn=other_conn(o))),
}


def other_conn(o):
    p1, p2 = o.attrs['panels'][:2]
    return [dict(p1=p1, p2=p2, func='SSxcte', xcte1=real('xcte1_other'), xcte2=real('xcte2_other'))]


# changes of the definition between two requests: the second request must give what a fresh object with the new definition gives
ASM_CHANGES = {
    'plyt-of-panel-1': lambda o: o.attrs['panels'][0].attrs.__setitem__('plyt', real('plyt_changed')),
    'laminaprop-of-panel-2': lambda o: o.attrs['panels'][1].attrs.__setitem__('laminaprop', tuple(real(x + '_changed') for x in py_panel.MAT)),
    'ycte1-of-the-connection': lambda o: o.attrs['conn'][0].__setitem__('ycte1', real('ycte1_changed')),
}

BAY_OPS = {
    'calc_k0': lambda it, o: it.call(it.getattr(o, 'calc_k0'), [], dict(silent=True)),
    'calc_kG0': lambda it, o: it.call(it.getattr(o, 'calc_kG0'), [], dict(silent=True)),
    'calc_kM': lambda it, o: it.call(it.getattr(o, 'calc_kM'), [], dict(silent=True)),
    'calc_kA': lambda it, o: it.call(it.getattr(o, 'calc_kA'), [], dict(silent=True)),
    'get_size': lambda it, o: it.call(it.getattr(o, 'get_size'), [], {}),
}


def new_assembly(it):
    asm, panels, meta, conn = make_assembly(it, ['plate', 'plate'], [(0, 1, 'SSycte')])
    for p in panels:
        p.attrs.update(Nxx=real('Nxx'), Nyy=real('Nyy'), Nxy=real('Nxy'))
    return asm


def new_bay(it):
    bmod = it.module('compmech.stiffpanelbay.stiffpanelbay')
    bay = it.call(bmod.g['StiffPanelBay'], [], {})
    a, b = real('a'), real('b')
    m, n = integer('m'), integer('n')
    bay.attrs.update(a=a, b=b, m=m, n=n, mu=real('mu'), r=None, model='plate_clt_donnell_bardell', beta=real('beta'), gamma=real('gamma'),
                     stack=[real('th')], plyt=real('t'), laminaprop=(real('E'), real('E'), real('nu')))
    for f in FLAG_NAMES:
        bay.attrs[f] = real(f + '_bay')
    ycut = real('ycut')
    it.call(it.getattr(bay, 'add_panel'), [], dict(y1=P.const(0), y2=ycut))
    it.call(it.getattr(bay, 'add_panel'), [], dict(y1=ycut, y2=b))
    it.call(it.getattr(bay, 'add_bladestiff2d'), [], dict(ys=ycut, bf=real('bf'), fstack=[real('thf')], fplyt=real('tf'),
                                                          flaminaprop=(real('Ef'), real('Ef'), real('nuf')), mf=integer('mf'), nf=integer('nf')))
    # ... and a 1-D blade stiffener (beam constants E1, S1, F1, Jxx derived from its two-ply flange laminate on every rebuild)
    it.call(it.getattr(bay, 'add_bladestiff1d'), [], dict(ys=ycut, bf=real('bf1'), fstack=[real('thf1'), real('thf2')], fplyt=real('tf1'),
                                                          flaminaprop=(real('Ef'), real('Ef'), real('nuf'))))
    return bay


BAY_CHANGES = {
    'plyt-of-skin-panel-1': lambda o: o.attrs['panels'][0].attrs.__setitem__('plyt', real('plyt_changed')),
    'plyt-of-the-stiffener-flange': lambda o: o.attrs['bladestiff2ds'][0].attrs['flange'].attrs.__setitem__('plyt', real('fplyt_changed')),
    'mu-of-the-bay': lambda o: o.attrs.__setitem__('mu', real('mu_changed')),
}


def run_seq(it, new, ops, seq, change_before_last=None, change_fresh=None):
    def thunk():
        o = new(it)
        if change_fresh:
            change_fresh(o)
        r = None
        for k, op in enumerate(seq):
            if change_before_last and k == len(seq) - 1:
                change_before_last(o)
            try:
                r = ops[op](it, o)
            except SymRaise as e:
                e.where = (k, op)
                raise
        return r
    outs = []
    for path, out in it.explore(thunk):
        if out[0] == 'return':
            outs.append(('ok', result_key(out[1])))
        else:
            outs.append(('raise', out[1].tname, getattr(out[1], 'where', None), tuple(str(a)[:80] for a in out[1].eargs)))
    return sorted(set(outs), key=repr)


def replay_order(kind, a, b):
    from ..pyreplay import run_real
    script = '''
import numpy as np
from compmech.panel import Panel
from compmech.panel.assembly import PanelAssembly
from compmech.stiffpanelbay import StiffPanelBay
lp = (142.5e9, 8.7e9, 0.28, 5.1e9, 5.1e9, 5.1e9)
def new():
    if payload['kind'] == 'assembly':
        kw = dict(a=1., b=0.5, stack=[0, 90, 90, 0], plyt=1.25e-4, laminaprop=lp, mu=1.3e3, m=4, n=4)
        p1, p2 = Panel(**kw), Panel(**kw)
        p1.Nxx = p2.Nxx = -1.
        return PanelAssembly([p1, p2], [dict(p1=p1, p2=p2, func='SSycte', ycte1=0.5, ycte2=0.)])
    spb = StiffPanelBay()
    spb.a = 2.; spb.b = 1.; spb.m = 5; spb.n = 5; spb.model = 'plate_clt_donnell_bardell'
    spb.stack = [0, 90, 90, 0]; spb.plyt = 1.25e-4; spb.mu = 1.3e3; spb.laminaprop = lp; spb.beta = 1000.
    spb.add_panel(y1=0, y2=0.3); spb.add_panel(y1=0.3, y2=spb.b)
    spb.add_bladestiff2d(ys=0.3, bf=0.05, fstack=[0]*8, fplyt=spb.plyt, flaminaprop=lp, mf=4, nf=4)
    return spb
def req(o, op):
    if op == 'get_k0_conn(conn=other)':
        r = o.get_k0_conn(conn=[dict(p1=o.panels[0], p2=o.panels[1], func='SSxcte', xcte1=1., xcte2=0.)])
    elif op.startswith('get_k0_conn'):
        r = o.get_k0_conn(finalize=('False' not in op))
    elif op == 'get_size':
        return np.array([o.get_size()])
    else:
        r = getattr(o, op)(silent=True)
    return np.asarray(r.todense())
try:
    alone = req(new(), payload['b'])
    o = new(); req(o, payload['a']); after = req(o, payload['b'])
    out = {'max_abs_alone': float(abs(alone).max()), 'max_abs_difference': float(abs(alone - after).max()) if alone.shape == after.shape else 'shapes differ'}
except Exception as e:
    out = {'raised': type(e).__name__ + ': ' + str(e)[:150]}
'''
    pay = dict(kind=kind, a=a, b=b)
    r = run_real(script, pay)
    d = r.get('max_abs_difference')
    rep = ('raised' in r and r['raised'].split(':')[0] in ('AttributeError', 'TypeError', 'ValueError', 'AssertionError')) or d == 'shapes differ' or (isinstance(d, float) and d > 1e-9 * max(r.get('max_abs_alone', 0), 1e-300))
    return {'reproduced': bool(rep), 'input': pay, 'result': r, 'real_function': ('PanelAssembly.' if kind == 'assembly' else 'StiffPanelBay.') + b}


def check_kind(led, kind, label, new, ops):
    it, calls = py_panel.mk()
    if kind == 'bay':
        from .py_stiffeners import _with_plies
        _with_plies(it)
        for modn in ('bladestiff2d_clt_donnell_bardell',):
            smod = it.module('compmech.stiffener.models.' + modn)
            for fn, f in list(smod.g.items()):
                if isinstance(f, pysym.Func) and fn.startswith('fkC'):
                    it.contracts[f.qualname] = panelctx.kernel_contract(it, f, calls)
        smod1 = it.module('compmech.stiffener.models.bladestiff1d_clt_donnell_bardell')
        for fn, f in list(smod1.g.items()):
            if isinstance(f, pysym.Func) and fn in ('fk0f', 'fkG0f', 'fkMf'):
                it.contracts[f.qualname] = panelctx.kernel_contract(it, f, calls)
        it.algebraic_minmax = True
        it.facts += [to_z3(real('a')) > 0, to_z3(real('b')) > 0, to_z3(real('ycut')) > 0, to_z3(real('ycut')) < to_z3(real('b'))]
        # the cut lies strictly inside the bay: numpy.isclose(ys, 0) / isclose(ys, b) taken as equality
        it.np.isclose = lambda x, y, **k: pysym.compare('==', x if isinstance(x, P) else P.const(x), y if isinstance(y, P) else P.const(y))
    it.algebraic_minmax = True
    names = list(ops)
    for nm in names:
        led.function(label + nm.split('(')[0])
    alone = {}
    for op in names:
        alone[op] = run_seq(it, new, ops, [op])
        name = '%s%s/can-be-requested-first-on-a-fresh-object' % (label, op)
        bad = [o for o in alone[op] if o[0] != 'ok']
        if bad:
            led.fail(name, label + op.split('(')[0], {'outcome': [str(x)[:300] for x in bad]}, signature='fresh:' + op, replay=replay_order(kind, op, op))
        else:
            led.ok(name, label + op.split('(')[0])
    for a, b in itertools.product(names, names):
        got = run_seq(it, new, ops, [a, b])
        name = '%s%s/same-result-after-%s' % (label, b, a)
        if got == alone[b]:
            led.ok(name, label + b.split('(')[0])
        else:
            led.fail(name, label + b.split('(')[0], {'after %s' % a: [str(x)[:400] for x in got], 'alone': [str(x)[:400] for x in alone[b]]},
                     signature='order:%s,%s' % (a, b), replay=replay_order(kind, a, b))
    if True:
        changes, cops = (ASM_CHANGES, ('calc_k0', 'get_k0_conn', 'calc_kM')) if kind == 'assembly' else (BAY_CHANGES, ('calc_k0', 'calc_kM'))
        for (cn, ch), op in itertools.product(sorted(changes.items()), cops):
            got = run_seq(it, new, ops, [op, op], change_before_last=ch)
            want = run_seq(it, new, ops, [op], change_fresh=ch)
            name = '%s%s/follows-a-change-of-%s' % (label, op, cn)
            if got == want:
                led.ok(name, label + op)
            else:
                led.fail(name, label + op, {'second request after the change': [str(x)[:400] for x in got], 'fresh object with the new definition': [str(x)[:400] for x in want]},
                         signature='stale:%s:%s' % (op, cn), replay=replay_change(op, cn) if kind == 'assembly' else None)
    led.solver_time('z3-feasibility', it.solver_time)


def replay_change(op, change):
    from ..pyreplay import run_real
    script = '''
import numpy as np
from compmech.panel import Panel
from compmech.panel.assembly import PanelAssembly
lp = (142.5e9, 8.7e9, 0.28, 5.1e9, 5.1e9, 5.1e9)
def new():
    kw = dict(a=1., b=0.5, stack=[0, 90, 90, 0], plyt=1.25e-4, laminaprop=lp, mu=1.3e3, m=4, n=4)
    p1, p2 = Panel(**kw), Panel(**kw)
    return PanelAssembly([p1, p2], [dict(p1=p1, p2=p2, func='SSycte', ycte1=0.5, ycte2=0.)])
def change(o):
    c = payload['change']
    if c == 'plyt-of-panel-1':
        o.panels[0].plyt = 2.5e-4
    elif c == 'laminaprop-of-panel-2':
        o.panels[1].laminaprop = tuple(x*(1. if i == 2 else 2.) for i, x in enumerate(lp))
    else:
        o.conn[0]['ycte1'] = 0.25
def req(o):
    op = payload['op']
    r = o.get_k0_conn() if op == 'get_k0_conn' else getattr(o, op)(silent=True)
    return np.asarray(r.todense())
o = new(); req(o); change(o); second = req(o)
f = new(); change(f); fresh = req(f)
out = {'max_abs_fresh': float(abs(fresh).max()), 'max_abs_difference': float(abs(fresh - second).max())}
'''
    pay = dict(op=op, change=change)
    r = run_real(script, pay)
    d = r.get('max_abs_difference')
    return {'reproduced': bool(r.get('raised') or (isinstance(d, float) and d > 1e-9 * max(r.get('max_abs_fresh', 0), 1e-300))), 'input': pay, 'result': r,
            'real_function': 'PanelAssembly.' + op}


def check(led):
    check_kind(led, 'assembly', AF, new_assembly, ASM_OPS)
    check_kind(led, 'bay', BF, new_bay, BAY_OPS)
    led.bounded_item('C20 assemblies / bays: histories of length two over %d assembly and %d bay methods; two panels, one connection / two skin panels, one 2-D and one 1-D blade stiffener'
                     % (len(ASM_OPS), len(BAY_OPS)))
