"""C12 -- penalty connection matrices.

Python layer under contract here: calc_kt_kr (symmetry, degree-1 homogeneity), TStiff2D.calc_k0 and BladeStiff2D.calc_k0 (placement, interface lines,
penalty constants, edge flags of both sides), PanelAssembly.get_k0_conn (dispatch, placement, survival under symmetrisation).  Connection kernels (15 functions, real .pyx text): c12_kernels.
"""
import sys
from ..core import run_check
from . import py_stiffeners


def body(led):
    led.assume('C12: laminate A, D blocks linear in the moduli (C01); table functions integral_ff* through their C10 contracts; '
               'calc_f / calc_fxi return the Bardell function / its derivative at the given point (C10)')
    led.trust('cmverif symbolic executor, normaliser')
    py_stiffeners.check_kt_kr(led)
    py_stiffeners.check_tstiff2d(led)
    # the blade stiffener joins its flange to the skin with the same penalty blocks (fkCss / fkCsf / fkCff of its own model module)
    py_stiffeners.check_bladestiff2d(led, only=('k0',), base_definition=False)
    from . import c12_conn
    c12_conn.body(led)
    # the connection matrix reaches the assembly stiffness, tangent and internal force on every route (finalize True / False)
    from . import py_assembly as A
    A.check_matrix(led, 'calc_k0', ['fk0'], with_conn=True)
    A.check_matrix(led, 'calc_kT', ['fkL_num', 'fkG_num'], with_conn=True, state=True)
    A.check_matrix(led, 'calc_fint', ['calc_fint'], with_conn=True, state=True)
    from . import c12_kernels
    c12_kernels.body(led)
    if getattr(led, 'tier', 'quick') == 'thorough':
        from . import binary_xcheck
        binary_xcheck.check_connections(led)


def main():
    return run_check('C12', body)


if __name__ == '__main__':
    sys.exit(main())
