"""C17 -- complete-shell non-linear tangent is the Jacobian of the internal force (integrand level).

Functions under contract (real ``.pyx`` text):
  conecyl/{clpt,fsdt}/*_nonlinear.pyx : cffint, cfk0L, cfkG, cfkLL (integrand functions at a generic integration point)
                                        calc_k0L, calc_kG, calc_kLL (rows / columns of the counters)
  conecyl/clpt/clpt_commons_bc*.pyx    : cfstrain_donnell / cfstrain_sanders (non-linear strains), cfN, cfwx, cfwt, cfv
  conecyl/conecyl.py                   : ConeCyl._calc_NL_matrices, ConeCyl.calc_fint (composition; see c17_py)
  integrate/integratev.pyx             : integratev (every point is visited exactly once for every thread count; see c17_py)

With  U = 1/2 eps(c)^T F eps(c) r  at an arbitrary point (x, t), eps = E0(c) + EL(w,x(c), w,t(c) [, v(c)], imperfection slopes):
   cffint[A]                                 ==  alpha * ( dU/dc_A  -  e_A^T F E0 r )                      (all amplitudes A)
   (k0L + k0L^T + sym(kLL) + sym(kG))[A, B]  ==  alpha * ( d2U/dc_A dc_B  -  e_A^T F e_B r )               (row <= col)
so that  k0 + k0L + k0L^T + kLL + kG  is the Jacobian of  k0 c + fint_NL  and symmetric, for every integration rule (the points
and weights are symbolic and shared by the two integrals) and every state.  E0 = sum_A c_A e_A with e_A the linear strain
vector of the model's own strain function; the quadratic part EL is proved to be what the model's cfstrain_* implements.
"""
import os
import sys
import time

import z3

from ..core import run_check, CheckerError
from ..poly import P, normal
from .. import shellk as SK, shellnl as NL, trig, kharness as K, pysym, parallel
from ..pysym import real, integer, to_z3
from .c16 import model_db, modpath, label, families, case_name, PRESCRIBED

NL_MODELS = ['clpt_donnell_bc1', 'clpt_donnell_bc2', 'clpt_donnell_bc3', 'clpt_donnell_bc4',
             'clpt_sanders_bc1', 'clpt_sanders_bc2', 'clpt_sanders_bc3', 'clpt_sanders_bc4']


def model_job(led, model):
    db = model_db()
    nlmod = modpath(db[model]['non-linear'])
    commons = modpath(db[model]['commons'])
    kin = 'sanders' if 'sanders' in model else 'donnell'
    it = NL.make_interp()
    Fm = SK.sym_F(6)
    F = [Fm[i, j] for i in range(6) for j in range(6)]
    sina, cosa = real('sina'), real('cosa')
    func = 'cfstrain_' + kin
    tab, info = SK.strain_table(it, commons, func)
    ftab, finfo = SK.field_table(it, commons)
    consts = info['consts']
    spec = NL.Spec(it, tab, ftab, consts, F, kin, sina, cosa)
    c = spec.c
    facts = [to_z3(real('L')) > 0, to_z3(real('r2')) > 0, to_z3(P.atom('r')) > 0, to_z3(cosa) > 0,
             to_z3(spec.m1) >= 1, to_z3(spec.m2) >= 1, to_z3(spec.n2) >= 1]
    it.facts += facts
    NL.install_slopes(it, nlmod, commons)
    NL.install_stress(it, nlmod, 6)
    # ---- internal force -------------------------------------------------------------------------------------------
    lab = label(nlmod, 'cffint')
    led.function(lab)
    out = NL.PointOut('fint', P.atom('size'))
    res = NL.run_point_function(it, nlmod, 'cffint', F, c, out)
    alpha = P.atom('alpha')
    seen = set()
    for (k, v, mode, conds, line, lv) in out.stores:
        d = SK.decode_dof(k, consts['num0'], consts['num1'], consts['num2'], spec.m1, spec.m2)
        if d is None:
            led.fail('%s/placement@%d' % (lab, line), lab, {'index': str(k)}, signature='placement')
            continue
        fam, vars_, p = d
        seen.add((fam, p))
        name = '%s/equals-dU-dc-minus-linear-part[(%d,%d)]' % (lab, fam, p)
        want = spec.expand(spec.fint_nl((fam, p))) * alpha
        code = trig.tnormal(v)
        ok, bad = K.compare(code, want)
        if ok:
            led.ok(name, lab)
        else:
            led.fail(name, lab, {'difference': bad, 'meaning': 'the entry is not alpha*(dU/dc_A - e_A^T F E0 r) at the point'}, signature='fint:%d,%d' % (fam, p))
        # undeformed shell: no amplitude -> zero; perfect shell: at least quadratic in the amplitudes
        zero = {a: 0 for a in code.atoms() if a.startswith('SUM{') or a.startswith('c<')}
        at0 = trig.tnormal(code.subs(zero)) if zero else code
        nm0 = '%s/zero-for-zero-amplitudes[(%d,%d)]' % (lab, fam, p)
        (led.ok(nm0, lab) if at0.is_zero() else led.fail(nm0, lab, {'value at c = 0': str(at0)[:300]}, signature='fint0:%d,%d' % (fam, p)))
        perfect = trig.tnormal(code.subs({'w0x': 0, 'w0t': 0}))
        low = [m for m in perfect.t if sum(e for a, e in m if a.startswith('SUM{') or a.startswith('c<')) < 2]
        nm2 = '%s/at-least-quadratic-for-the-perfect-shell[(%d,%d)]' % (lab, fam, p)
        (led.ok(nm2, lab) if not low else led.fail(nm2, lab, {'terms of degree < 2': [K.mono_text(m) for m in low[:4]]}, signature='fint2:%d,%d' % (fam, p)))
    missing = [(f, p) for f in families(consts) for p in range(consts['num%d' % f]) if (f, p) not in seen]
    nmc = '%s/every-amplitude-written' % lab
    (led.ok(nmc, lab) if not missing else led.fail(nmc, lab, {'amplitudes without an entry': missing}, signature='fint-missing'))
    # ---- tangent ---------------------------------------------------------------------------------------------------
    sets = {}
    for integ, wrap in (('cfk0L', 'calc_k0L'), ('cfkG', 'calc_kG'), ('cfkLL', 'calc_kLL')):
        labm = label(nlmod, integ)
        led.function(labm)
        led.function(label(nlmod, wrap))
        ok, ski, skw = NL.aligned(it, nlmod, integ, wrap)
        nm = '%s/counter-runs-through-the-same-loops-and-guards-as-%s' % (labm, wrap)
        if not ok:
            led.fail(nm, labm, {'integrand skeleton': str(ski)[:600], 'wrapper skeleton': str(skw)[:600]}, signature='align:' + integ)
            return
        led.ok(nm, labm)
        em, _ = NL.collect_matrix(it, nlmod, integ, wrap, F, c, consts)
        sets[integ] = [SK.canon_emission(h) for h in SK.decode_emissions(it, em, consts, spec.m1, spec.m2)]
    stress = {}
    eps_total = None
    labt = label(nlmod, 'calc_kG') + '+calc_k0L+calc_kLL'
    M = SK.Matcher(it, consts, spec.m1, spec.m2, spec.n2, extra_facts=facts)
    # N_k = sum_b F[k,b] (E0_b + EL_b)
    eL = spec.nonlinear_strain(P.atom('WX'), P.atom('WT'), P.atom('V'))
    for k in range(6):
        tot = P({})
        for b in range(6):
            if isinstance(Fm[k, b], P):
                tot = tot + Fm[k, b] * (P.atom('E0_%d' % b) + eL[b])
        stress['N_%d' % k] = tot
    k0LT = NL.transpose_emissions(sets['cfk0L'])
    for famA in families(consts):
        for famB in families(consts):
            if famB < famA:
                continue
            sel = {'k0L': [h for h in sets['cfk0L'] if h['A'][0] == famA and h['B'][0] == famB],
                   'k0LT': [h for h in k0LT if h['A'][0] == famA and h['B'][0] == famB],
                   'kG': [h for h in sets['cfkG'] if h['A'][0] == famA and h['B'][0] == famB],
                   'kLL': [h for h in sets['cfkLL'] if h['A'][0] == famA and h['B'][0] == famB]}
            splits = []
            if famA == famB == 1:
                splits = [pysym.Cond('cmp', '==', P.atom('k1') - P.atom('i1'))]
            elif famA == famB == 2:
                splits = [pysym.Cond('cmp', '==', P.atom('l2') - P.atom('j2')), pysym.Cond('cmp', '==', P.atom('k2') - P.atom('i2'))]
            for case, chosen in M.cases(famA, famB, sel, extra_splits=splits):
                for p, q in M.pairs(case, famA, famB):
                    if (famA == 0 and p in PRESCRIBED) or (famB == 0 and q in PRESCRIBED):
                        continue
                    name = '%s/tangent-equals-d2U[(%d,%d)x(%d,%d)|%s]' % (labt, famA, p, famB, q, case_name(case))
                    code = P({})
                    for nm_ in ('k0L', 'k0LT', 'kG', 'kLL'):
                        code = code + SK.entry_sum(chosen[nm_], p, q, case)
                    code = trig.tnormal(code.subs(stress))
                    want = spec.tangent_nl((famA, p), (famB, q))
                    if case.subs:
                        want = trig.tsubs(want, case.subs)
                    want = trig.tnormal(want * alpha)
                    ok, bad = K.compare(code, want)
                    if ok:
                        led.ok(name, labt)
                    else:
                        led.fail(name, labt, {'difference': bad, 'meaning': 'k0L + k0L^T + kLL + kG at this pair is not alpha*(d2U/dc_A dc_B - e_A^T F e_B r)'},
                                 signature='kT:%d,%d,%d,%d' % (famA, p, famB, q))
    led.solver_time('z3-index-cases', M.solver_time)
    led.solver_time('z3-feasibility', it.solver_time)


def body(led):
    led.assume("A3/A6 as in C16 (trigonometric identities, derivative rules); integrals are compared through their integrands at an arbitrary "
               "point with symbolic weight: both sides use the same points and weights, whatever the rule")
    led.assume("the imperfection enters through its slopes w0x, w0t at the point (arbitrary reals); castro = 0 (the imperfection alone is strain free)")
    models = NL_MODELS
    only = os.environ.get('C17_MODELS')
    if only:
        models = [m for m in models if m in only.split(',')]
    parallel.run(led, model_job, models)
    ok, _ = K.compare(real('WX') * real('WX'), real('WX') * real('WX') * 0.5)
    led.canary('WX^2 == WX^2/2', not ok)


def main():
    return run_check('C17', body)


if __name__ == '__main__':
    sys.exit(main())
