"""C17 -- complete-shell non-linear tangent is the Jacobian of the internal force (integrand level).

Functions under contract (real ``.pyx`` text):
  conecyl/{clpt,fsdt}/*_nonlinear.pyx : cffint, cfk0L, cfkG, cfkLL (integrand functions at a generic integration point)
                                        calc_k0L, calc_kG, calc_kLL (rows / columns of the counters)
  conecyl/clpt/clpt_commons_bc*.pyx    : cfstrain_donnell / cfstrain_sanders (non-linear strains), cfN, cfwx, cfwt, cfv
  conecyl/conecyl.py                   : ConeCyl._calc_NL_matrices, ConeCyl.calc_fint (composition; see c17_py)
  integrate/integratev.pyx             : integratev (every point is visited exactly once for every thread count; see c17_py)

With  U = 1/2 eps(c)^T F eps(c) r  at an arbitrary point (x, t), eps = E0(c) + EL(w,x(c), w,t(c) [, v(c)], imperfection slopes):
   cffint[A]                                 ==  alpha * ( dU/dc_A  -  e_A^T F E0 r )                      (all amplitudes A)
   (k0L + k0L^T + sym(kLL) + sym(kG))[A, B]  ==  alpha * ( d2U/dc_A dc_B  -  e_A^T F e_B r )               (row <= col)
so that  k0 + k0L + k0L^T + kLL + kG  is the Jacobian of  k0 c + fint_NL  and symmetric, for every integration rule (the points
and weights are symbolic and shared by the two integrals) and every state.  E0 = sum_A c_A e_A with e_A the linear strain
vector of the model's own strain function; the quadratic part EL is proved to be what the model's cfstrain_* implements.
"""
import os
import sys
import time

import z3

from ..core import run_check, CheckerError
from ..poly import P, normal
from .. import shellk as SK, shellnl as NL, trig, kharness as K, pysym, parallel
from ..pysym import real, integer, to_z3
from .c16 import model_db, modpath, label, families, case_name, PRESCRIBED

NL_MODELS = ['clpt_donnell_bc1', 'clpt_donnell_bc2', 'clpt_donnell_bc3', 'clpt_donnell_bc4',
             'clpt_sanders_bc1', 'clpt_sanders_bc2', 'clpt_sanders_bc3', 'clpt_sanders_bc4',
             'iso_clpt_donnell_bc2', 'iso_clpt_donnell_bc3', 'fsdt_donnell_bc1', 'fsdt_donnell_bcn']


def model_job(led, model):
    from .c16 import iso_F
    db = model_db()
    is_iso = model.startswith('iso_')
    is_fsdt = 'fsdt' in model
    gen = model[4:] if is_iso else model
    nlmod = modpath(db[model]['non-linear'])
    gen_nlmod = modpath(db[gen]['non-linear'])       # source of cffint and (for the iso_ models) of kG, as in ConeCyl
    commons = modpath(db[model]['commons'])
    kin = 'sanders' if 'sanders' in model else 'donnell'
    it = NL.make_interp()
    ne = 8 if is_fsdt else 6
    Fm = SK.sym_F(ne)
    F = [Fm[i, j] for i in range(ne) for j in range(ne)]
    sina, cosa = real('sina'), real('cosa')
    ftab, finfo = SK.field_table(it, commons)
    if is_fsdt:
        # strain vectors: first-order-shear Donnell operator on the model's own cfuvw field (cfstrain_donnell of the fsdt
        # commons files is laid out for another ordering of the axisymmetric amplitudes, see DESIGN 10.6)
        consts = finfo['consts']
        tab = {}
        for key, (lv, fld) in ftab.items():
            tab[key] = (lv, SK.strain_from_field({k: v for k, v in fld.items()}, 'fsdt_donnell', sina, cosa))
    else:
        func = 'cfstrain_' + kin
        tab, info = SK.strain_table(it, commons, func)
        consts = info['consts']
    spec = NL.Spec(it, tab, ftab, consts, F, kin, sina, cosa)
    c = spec.c
    facts = [to_z3(real('L')) > 0, to_z3(real('r2')) > 0, to_z3(P.atom('r')) > 0, to_z3(cosa) > 0,
             to_z3(spec.m1) >= 1, to_z3(spec.m2) >= 1, to_z3(spec.n2) >= 1,
             to_z3(real('E11')) > 0, to_z3(real('h')) > 0, to_z3(real('nu')) > -1, to_z3(real('nu')) * 2 < 1]
    it.facts += facts
    iso_sub = None
    if is_iso:
        iso_sub = {k: (v if isinstance(v, P) else P.const(v)) for k, v in iso_F(real('E11'), real('nu'), real('h')).items()}
    for mname in {nlmod, gen_nlmod}:
        NL.install_slopes(it, mname, commons)
        NL.install_stress(it, mname, ne)
    nlmod_fint = gen_nlmod
    check_state_functions(led, it, spec, model, commons, kin, ne, Fm)
    # ---- internal force -------------------------------------------------------------------------------------------
    lab = label(nlmod_fint, 'cffint')
    led.function(lab)
    out = NL.PointOut('fint', P.atom('size'))
    res = NL.run_point_function(it, nlmod_fint, 'cffint', F, c, out)
    alpha = P.atom('alpha')
    seen = set()
    for (k, v, mode, conds, line, lv) in out.stores:
        d = SK.decode_dof(k, consts['num0'], consts['num1'], consts['num2'], spec.m1, spec.m2)
        if d is None:
            led.fail('%s/placement@%d' % (lab, line), lab, {'index': str(k)}, signature='placement')
            continue
        fam, vars_, p = d
        seen.add((fam, p))
        name = '%s/equals-dU-dc-minus-linear-part[(%d,%d)]' % (lab, fam, p)
        want = spec.expand(spec.fint_nl((fam, p))) * alpha
        code = trig.tnormal(v)
        if is_iso:
            # ConeCyl.calc_fint calls the general model's function with the isotropic F of _rebuild
            want, code = trig.tsubs(want, iso_sub), trig.tsubs(code, iso_sub)
        ok, bad = K.compare(code, want)
        if ok:
            led.ok(name, lab)
        else:
            led.fail(name, lab, {'difference': bad, 'meaning': 'the entry is not alpha*(dU/dc_A - e_A^T F E0 r) at the point'}, signature='fint:%d,%d' % (fam, p))
        # undeformed shell: no amplitude -> zero; perfect shell: at least quadratic in the amplitudes
        zero = {a: 0 for a in code.atoms() if a.startswith('SUM{') or a.startswith('c<')}
        at0 = trig.tnormal(code.subs(zero)) if zero else code
        nm0 = '%s/zero-for-zero-amplitudes[(%d,%d)]' % (lab, fam, p)
        (led.ok(nm0, lab) if at0.is_zero() else led.fail(nm0, lab, {'value at c = 0': str(at0)[:300]}, signature='fint0:%d,%d' % (fam, p)))
        perfect = trig.tnormal(code.subs({'w0x': 0, 'w0t': 0}))
        low = [m for m in perfect.t if sum(e for a, e in m if a.startswith('SUM{') or a.startswith('c<')) < 2]
        nm2 = '%s/at-least-quadratic-for-the-perfect-shell[(%d,%d)]' % (lab, fam, p)
        (led.ok(nm2, lab) if not low else led.fail(nm2, lab, {'terms of degree < 2': [K.mono_text(m) for m in low[:4]]}, signature='fint2:%d,%d' % (fam, p)))
    missing = [(f, p) for f in families(consts) for p in range(consts['num%d' % f]) if (f, p) not in seen]
    nmc = '%s/every-amplitude-written' % lab
    (led.ok(nmc, lab) if not missing else led.fail(nmc, lab, {'amplitudes without an entry': missing}, signature='fint-missing'))
    # ---- tangent ---------------------------------------------------------------------------------------------------
    sets = {}
    for integ, wrap in (('cfk0L', 'calc_k0L'), ('cfkG', 'calc_kG'), ('cfkLL', 'calc_kLL')):
        src = gen_nlmod if (is_iso and integ == 'cfkG') else nlmod
        NL.ISO_ARGS = (real('E11'), real('nu'), real('h')) if (is_iso and src == nlmod) else None
        labm = label(src, integ)
        led.function(labm)
        led.function(label(src, wrap))
        ok, ski, skw = NL.aligned(it, src, integ, wrap)
        nm = '%s/counter-runs-through-the-same-loops-and-guards-as-%s' % (labm, wrap)
        if not ok:
            led.fail(nm, labm, {'integrand skeleton': str(ski)[:600], 'wrapper skeleton': str(skw)[:600]}, signature='align:' + integ)
            return
        led.ok(nm, labm)
        em, _ = NL.collect_matrix(it, src, integ, wrap, F, c, consts, iso=(NL.ISO_ARGS if NL.ISO_ARGS else None))
        sets[integ] = [SK.canon_emission(h) for h in SK.decode_emissions(it, em, consts, spec.m1, spec.m2)]
    stress = {}
    eps_total = None
    labt = label(nlmod, 'calc_kG') + '+calc_k0L+calc_kLL'
    M = SK.Matcher(it, consts, spec.m1, spec.m2, spec.n2, extra_facts=facts)
    # N_k = sum_b F[k,b] (E0_b + EL_b)
    eL = spec.nonlinear_strain(P.atom('WX'), P.atom('WT'), P.atom('V'))
    for k in range(ne):
        tot = P({})
        for b in range(ne):
            if isinstance(Fm[k, b], P):
                tot = tot + Fm[k, b] * (P.atom('E0_%d' % b) + eL[b])
        stress['N_%d' % k] = tot
    k0LT = NL.transpose_emissions(sets['cfk0L'])
    for famA in families(consts):
        for famB in families(consts):
            if famB < famA:
                continue
            sel = {'k0L': [h for h in sets['cfk0L'] if h['A'][0] == famA and h['B'][0] == famB],
                   'k0LT': [h for h in k0LT if h['A'][0] == famA and h['B'][0] == famB],
                   'kG': [h for h in sets['cfkG'] if h['A'][0] == famA and h['B'][0] == famB],
                   'kLL': [h for h in sets['cfkLL'] if h['A'][0] == famA and h['B'][0] == famB]}
            splits = []
            if famA == famB == 1:
                splits = [pysym.Cond('cmp', '==', P.atom('k1') - P.atom('i1'))]
            elif famA == famB == 2:
                splits = [pysym.Cond('cmp', '==', P.atom('l2') - P.atom('j2')), pysym.Cond('cmp', '==', P.atom('k2') - P.atom('i2'))]
            for case, chosen in M.cases(famA, famB, sel, extra_splits=splits):
                for p, q in M.pairs(case, famA, famB):
                    if (famA == 0 and p in PRESCRIBED) or (famB == 0 and q in PRESCRIBED):
                        continue
                    name = '%s/tangent-equals-d2U[(%d,%d)x(%d,%d)|%s]' % (labt, famA, p, famB, q, case_name(case))
                    code = P({})
                    for nm_ in ('k0L', 'k0LT', 'kG', 'kLL'):
                        code = code + SK.entry_sum(chosen[nm_], p, q, case)
                    code = trig.tnormal(code.subs(stress))
                    want = spec.tangent_nl((famA, p), (famB, q))
                    if case.subs:
                        want = trig.tsubs(want, case.subs)
                    want = trig.tnormal(want * alpha)
                    if is_iso:
                        want, code = trig.tsubs(want, iso_sub), trig.tsubs(code, iso_sub)
                    ok, bad = K.compare(code, want)
                    if ok:
                        led.ok(name, labt)
                    else:
                        led.fail(name, labt, {'difference': bad, 'meaning': 'k0L + k0L^T + kLL + kG at this pair is not alpha*(d2U/dc_A dc_B - e_A^T F e_B r)'},
                                 signature='kT:%d,%d,%d,%d' % (famA, p, famB, q))
    led.solver_time('z3-index-cases', M.solver_time)
    led.solver_time('z3-feasibility', it.solver_time)
    attach_replay(led, model)
    if getattr(led, 'tier', 'quick') == 'thorough':
        numeric_crosscheck(led, model)


def numeric_crosscheck(led, model):
    """thorough tier: calc_kT against central differences of calc_fint on the installed binary (bounded: one shell, orders 2,2,2,
    two integration rules, 1 and 3 threads); only when the binary was built from the current .pyx text"""
    from .. import pyreplay, shell_oracle as O
    from .c16 import model_db as _db
    d_ = _db()[model]
    gen = _db()[model[4:]] if model.startswith('iso_') else d_
    sub = 'fsdt' if 'fsdt' in model else 'clpt'
    files = ['compmech/conecyl/%s/%s.pyx' % (sub, x) for x in (d_['non-linear'], d_['commons'], d_['linear'], gen['non-linear'])]
    if not pyreplay.binary_matches_source(files):
        led.bounded_item('%s: numeric cross-check skipped, the installed extension was not built from the current .pyx text' % model)
        return
    proof_failed = any(name == 'fail' for name, a, kw in getattr(led, 'calls', []))
    lab = 'compmech/conecyl (installed binary):%s' % model
    led.bounded_item('numeric cross-check of the installed binary (thorough tier): kT vs central differences of fint, r2=250, H=500, alpha=15 deg, '
                     '[30,-30,45], orders (2,2,2), random state of amplitude 2, trapz2d/1 thread and simps2d/3 threads')
    for method, cores in (('trapz2d', 1), ('simps2d', 3)):
        pay = dict(m1=2, m2=2, n2=2, r2=250., H=500., alphadeg=15., amp=2.0, laminaprop=[123.55e3, 8.708e3, 0.319, 5.695e3, 5.695e3, 5.695e3],
                   stack=[30, -30, 45], plyt=0.125, model=model, method=method, cores=cores)
        if model.startswith('iso_'):
            pay['iso'] = [71e3, 0.33, 2.]
        r = pyreplay.run_real(O.TANGENT, pay, timeout=1500)
        name = '%s/numeric-cross-check/kT-equals-dfint-dc[%s,%d threads]' % (lab, method, cores)
        if r.get('raised') or r.get('replay_error'):
            led.error('%s could not run: %s' % (name, r.get('raised') or r.get('replay_error')))
            continue
        bad = bool(r.get('n_entries_off')) or (r.get('asymmetry_of_kT') or 0) > 1e-9 * max(r.get('scale') or 1., 1.) or (r.get('fint_at_zero_max') or 0) > 1e-9
        if not bad:
            led.ok(name, lab, backend='numeric(bounded)')
        elif proof_failed:
            led.ok(name + '/agrees-with-the-refuted-proof-obligations', lab, backend='numeric(bounded)')
        else:
            led.error('%s: the binary violates the clause numerically (%s) although every proof obligation was discharged' % (name, str(r)[:300]))


def check_state_functions(led, it, spec, model, commons, kin, ne, Fm):
    """the contracts assumed for cfwx / cfwt / cfv / cfN inside the integrand functions, proved on the commons text:
    slopes are the canonical state sums of the cfuvw field, cfstrain_* is E0 + EL of the specification, cfN = F * cfstrain"""
    consts = spec.consts
    x, t = real('x'), real('t')
    m1, m2, n2 = spec.m1, spec.m2, spec.n2
    r2, L = real('r2'), real('L')
    m, _ = SK.load(it, commons)
    saved = dict(it.contracts)
    # cfwx, cfwt (and cfv): real bodies, compared with the state sums
    wanted = {'cfwx': 'WX', 'cfwt': 'WT'}
    if kin == 'sanders':
        wanted['cfv'] = 'V'
    for fn, state in wanted.items():
        lab = label(commons, fn)
        led.function(lab)
        f = K.kernel_func(it, commons, fn)
        sig = [nm for _, nm in m.pyx.sigs[fn]]
        out = SK.Buf(fn)
        args = []
        for nm in sig:
            args.append({'c': spec.c, 'm1': m1, 'm2': m2, 'n2': n2, 'xs': [x], 'ts': [t], 'size': 1, 'r2': r2, 'L': L}.get(nm, out))
        res = it.explore(lambda: it.call(f, args, {}))
        name = '%s/equals-the-state-sum-%s-of-the-cfuvw-field' % (lab, state)
        if len(res) != 1 or res[0][1][0] != 'return' or 0 not in out.vals:
            led.fail(name, lab, {'reason': 'no single returning path / nothing stored'}, signature='state:' + fn)
            continue
        got = out.vals[0] if isinstance(out.vals[0], P) else P.const(out.vals[0])
        ok, bad = K.compare(trig.tnormal(got), trig.tnormal(spec.states[state]))
        (led.ok(name, lab) if ok else led.fail(name, lab, {'difference': bad}, signature='state:' + fn))
    # cfstrain_*: full (non-linear) strains against E0 + EL
    func = 'cfstrain_' + kin
    if func in m.g:
        lab = label(commons, func)
        led.function(lab)
        NL.install_slopes(it, commons, commons)
        f = K.kernel_func(it, commons, func)
        es = SK.Buf('es')
        it.abstract_locals[(func, 'r')] = 'r'
        args = [spec.c, real('sina'), real('cosa'), real('tLA'), [x], [t], 1, r2, L, m1, m2, n2, None, 0, 0, 0, es]
        res = it.explore(lambda: it.call(f, args, {}))
        it.abstract_locals.pop((func, 'r'), None)
        eL = spec.nonlinear_strain(P.atom('WX'), P.atom('WT'), P.atom('V'))
        for k in range(6):      # the components that enter the membrane resultants used by cfkG (N = A eps + B kappa)
            name = '%s/component-%d-equals-E0+EL' % (lab, k)
            if len(res) != 1 or res[0][1][0] != 'return' or k not in es.vals:
                led.fail(name, lab, {'reason': 'strain function did not return / component not stored',
                                     'raised': [getattr(o[1], 'tname', None) for _, o in res]}, signature='strain:%d' % k)
                continue
            got = es.vals[k] if isinstance(es.vals[k], P) else P.const(es.vals[k])
            got = trig.tnormal(got.subs({'WX': spec.states['WX'], 'WT': spec.states['WT'], 'V': spec.states.get('V', P({}))}))
            want = spec.expand(P.atom('E0_%d' % k) + eL[k])
            ok, bad = K.compare(got, want)
            (led.ok(name, lab) if ok else led.fail(name, lab, {'difference': bad,
                    'meaning': 'the strain function used for the stress resultants (cfN) is not E0 + EL of the field that the matrices are built for'},
                    signature='strain:%d' % k))
    # cfN = F * strains
    if 'cfN' in m.g:
        lab = label(commons, 'cfN')
        led.function(lab)
        def strain_contract(itp, a, kw):
            for k in range(ne):
                a[-1].sym_store(itp, P.const(k), P.atom('EPS_%d' % k), None)
            return None
        for nm in ('cfstrain_donnell', 'cfstrain_sanders'):
            it.contracts[commons + '.' + nm] = strain_contract
            if nm not in m.g:
                continue
        it.builtins['PTR'] = lambda arr, *idx: arr
        f = K.kernel_func(it, commons, 'cfN')
        Ns = SK.Buf('Ns')
        Fl = [Fm[i, j] for i in range(ne) for j in range(ne)]
        kinflag = 1 if kin == 'sanders' else 0
        sig = [nm for _, nm in m.pyx.sigs['cfN']]
        vals = {'c': spec.c, 'sina': real('sina'), 'cosa': real('cosa'), 'tLA': real('tLA'), 'xs': [x], 'ts': [t], 'size': 1, 'r2': r2, 'L': L, 'F': Fl,
                'm1': m1, 'm2': m2, 'n2': n2, 'c0': None, 'm0': 0, 'n0': 0, 'funcnum': 0, 'Ns': Ns, 'NL_kinematics': kinflag}
        real_strain = {nm: m.g.get(nm) for nm in ('cfstrain_donnell', 'cfstrain_sanders')}
        for nm in real_strain:
            if real_strain[nm] is not None:
                m.g[nm] = pysym.ExternalFunc(commons + '.' + nm)
        try:
            res = it.explore(lambda: it.call(f, [vals[nm] for nm in sig], {}))
        finally:
            for nm, fo in real_strain.items():
                if fo is not None:
                    m.g[nm] = fo
        for k in range(3):      # the integrand functions read the membrane resultants Ns[0..2] only
            name = '%s/resultant-%d-equals-F-times-strain' % (lab, k)
            want = P({})
            for b in range(ne):
                if isinstance(Fm[k, b], P):
                    want = want + Fm[k, b] * P.atom('EPS_%d' % b)
            got = Ns.vals.get(k)
            if len(res) != 1 or res[0][1][0] != 'return' or got is None:
                led.fail(name, lab, {'reason': 'cfN did not return / resultant not stored'}, signature='cfN:%d' % k)
                continue
            ok, bad = K.compare(got if isinstance(got, P) else P.const(got), want)
            (led.ok(name, lab) if ok else led.fail(name, lab, {'difference': bad}, signature='cfN:%d' % k))
    it.contracts.clear()
    it.contracts.update(saved)


def attach_replay(led, model):
    """numeric replay on the installed package: kT against the central difference of calc_fint at a random state"""
    fails = [kw for name, a, kw in getattr(led, 'calls', []) if name == 'fail' and kw.get('replay') is None]
    if not fails:
        return
    from .. import pyreplay, shell_oracle as O
    pay = dict(m1=2, m2=2, n2=2, r2=250., H=500., alphadeg=15., amp=2.0, laminaprop=[123.55e3, 8.708e3, 0.319, 5.695e3, 5.695e3, 5.695e3],
               stack=[30, -30, 45], plyt=0.125, model=model)
    if model.startswith('iso_'):
        pay['iso'] = [71e3, 0.33, 2.]
    try:
        r = pyreplay.run_real(O.TANGENT, pay, timeout=1500)
        from .c16 import model_db as _db
        d_ = _db()[model]
        sub = 'fsdt' if 'fsdt' in model else 'clpt'
        current = pyreplay.binary_matches_source(['compmech/conecyl/%s/%s.pyx' % (sub, d_[k]) for k in ('non-linear', 'commons', 'linear')])
        rep = {'reproduced': bool(current and (bool(r.get('n_entries_off')) or (r.get('fint_at_zero_max') or 0) > 1e-9)), 'input': pay, 'result': r,
               'binary_built_from_these_sources': current,
               'on': 'installed compiled package (not rebuilt from the .pyx under check)',
               'real_function': 'ConeCyl.calc_kT vs central difference of ConeCyl.calc_fint'}
    except Exception as e:
        rep = {'reproduced': False, 'replay_error': repr(e)}
    for kw in fails:
        kw['replay'] = rep


def body(led):
    led.assume("A3/A6 as in C16 (trigonometric identities, derivative rules); integrals are compared through their integrands at an arbitrary "
               "point with symbolic weight: both sides use the same points and weights, whatever the rule")
    led.assume("the imperfection enters through its slopes w0x, w0t at the point (arbitrary reals); castro = 0 (the imperfection alone is strain free)")
    models = NL_MODELS
    only = os.environ.get('C17_MODELS')
    if only:
        models = [m for m in models if m in only.split(',')]
    parallel.run(led, model_job, models)
    from . import c17_py
    c17_py.check(led)
    # premise for the iso_ models: their internal force and kG integrate self.F, their k0L / kLL kernels (E11, nu, h): F must be the isotropic matrix
    from . import c16_py
    for m_ in ('iso_clpt_donnell_bc2', 'iso_clpt_donnell_bc3'):
        c16_py.check_one(led, m_, False, None, False)
    # premise: the tangent handed back by calc_kT is the kuu block cut out by ConeCyl.exclude_dofs_matrix (replaced by its contract in
    # c17_py): that contract -- kuu == K[free, free] for every admissible set of prescribed amplitudes -- is proved / run here as well
    from . import c18_partition
    c18_partition.check_exclude_proof(led)
    c18_partition.check_exclude(led)
    ok, _ = K.compare(real('WX') * real('WX'), real('WX') * real('WX') * 0.5)
    led.canary('WX^2 == WX^2/2', not ok)


def main():
    return run_check('C17', body)


if __name__ == '__main__':
    sys.exit(main())
