"""C13 -- assembled matrices are sums of component matrices placed at the components' amplitude ranges.

Functions under contract (Python layer, symbolic execution): PanelAssembly.__init__, get_size, calc_k0, calc_kG0, calc_kM,
calc_kT, calc_fint, calc_fext; Panel.calc_* below them down to the kernel contracts.  StiffPanelBay: see c13_bay.  Stiffener kernels (nine functions of stiffener/models/*.pyx): c13_stiffk; BladeStiff1D / BladeStiff2D
classes: py_stiffeners (TStiff2D is under contract in C12).
"""
import sys
from ..core import run_check
from . import py_assembly as A


def body(led):
    led.assume('C13: kernels through their contracts (C02-C04, C12); scipy sparse + is entry-wise (A4)')
    led.trust('cmverif symbolic executor, normaliser; z3')
    A.check_layout(led)
    A.check_matrix(led, 'calc_k0', ['fk0'], with_conn=True)
    A.check_matrix(led, 'calc_kG0', ['fkG0'])
    A.check_matrix(led, 'calc_k0', ['fk0'], with_conn=True, preload_panel=0)          # a constant pre-load on one panel only
    A.check_matrix(led, 'calc_kT', ['fkL_num', 'fkG_num'], with_conn=True, state=True, preload_panel=1)
    A.check_matrix(led, 'calc_kM', ['fkM'])
    A.check_matrix(led, 'calc_kT', ['fkL_num', 'fkG_num'], with_conn=True, state=True)
    A.check_matrix(led, 'calc_k0', ['fkL_num'], with_conn=True, state=True)         # kL(c): the constitutive matrix about a state
    A.check_matrix(led, 'calc_kG0', ['fkG_num'], state=True)                        # kG(c)
    A.check_matrix(led, 'calc_fint', ['calc_fint'], with_conn=True, state=True)
    A.check_fext(led)
    from . import c13_bay
    c13_bay.body(led)
    from . import c13_stiffk, py_stiffeners
    c13_stiffk.body(led)
    py_stiffeners.check_bladestiff1d(led)
    py_stiffeners.check_bladestiff2d(led)
    py_stiffeners.check_tstiff2d_kG0_kM(led)
    if getattr(led, 'tier', 'quick') == 'thorough':
        from . import binary_xcheck
        binary_xcheck.check_stiffener_kernels(led)


def main():
    return run_check('C13', body)


if __name__ == '__main__':
    sys.exit(main())
