"""C20 -- results depend on the model definition only, not on the call history.

Python layer (symbolic execution of the real methods down to the kernel / field contracts):
  (a) every public evaluation method of Panel can be called first on a freshly defined object;
  (b) for every ordered pair (A, B) of methods the result of B after A is the result of B alone;
  (c) after a definition attribute is changed between two calls, the second result is the one of a fresh object with the new definition;
  (d) caller-supplied arrays are never written (frame);
  analyses (lb / freq) on matrices tagged with the definition they were computed from;
  PanelAssembly.get_k0_conn cache.
"""
import sys
import itertools
import hashlib

from ..core import run_check, CheckerError
from ..poly import P, normal
from .. import pysym, shims, panelctx, pycheck, absnp, eigctx
from ..pysym import Interp, real, integer, Opaque, SymRaise, Obj
from ..kernel import InArray, user_array
from ..absnp import AArr
from . import py_panel
from .py_panel import build, report

PF = 'compmech/panel/_panel.py:Panel.'


def result_key(v):
    import numpy as np
    if isinstance(v, tuple):
        return tuple(result_key(x) for x in v)
    if isinstance(v, dict):
        return tuple(sorted((k, result_key(x)) for k, x in v.items()))
    if isinstance(v, list):
        return tuple(result_key(x) for x in v)
    if hasattr(v, 'stores') and hasattr(v, 'length'):
        return ('vec', panelctx.vkey(v.length), tuple((repr(s[0]), vec_key(s[1]), s[2]) for s in v.stores))
    return panelctx.vkey(v)


def vec_key(v):
    if hasattr(v, 'terms') and hasattr(v, 'n'):
        return tuple((panelctx.vkey(c), r[0], panelctx.vkey(r[1])) for c, r in v.terms)
    return panelctx.vkey(v)


OPS = {
    'calc_k0': lambda it, p, env: it.call(it.getattr(p, 'calc_k0'), [], dict(silent=True)),
    'calc_kG0': lambda it, p, env: it.call(it.getattr(p, 'calc_kG0'), [], dict(silent=True)),
    'calc_kM': lambda it, p, env: it.call(it.getattr(p, 'calc_kM'), [], dict(silent=True)),
    'calc_kA': lambda it, p, env: it.call(it.getattr(p, 'calc_kA'), [], dict(silent=True)),
    'calc_fext': lambda it, p, env: it.call(it.getattr(p, 'calc_fext'), [], dict(silent=True)),
    'uvw': lambda it, p, env: it.call(it.getattr(p, 'uvw'), [env['c']], dict(xs=[env['x']], ys=[env['y']])),
    'strain': lambda it, p, env: it.call(it.getattr(p, 'strain'), [env['c']], dict(xs=[env['x']], ys=[env['y']])),
    'stress': lambda it, p, env: it.call(it.getattr(p, 'stress'), [env['c']], dict(xs=[env['x']], ys=[env['y']])),
    'calc_fint': lambda it, p, env: it.call(it.getattr(p, 'calc_fint'), [env['c']], dict(silent=True)),
    'calc_kT': lambda it, p, env: it.call(it.getattr(p, 'calc_kT'), [], dict(c=env['c'], silent=True)),
}
SAVE = lambda it, p, env: it.call(it.getattr(p, 'save'), [], {})
CHANGES = {
    'a': lambda p: p.attrs.__setitem__('a', real('a_new')),
    'offset': lambda p: p.attrs.__setitem__('offset', real('d_new')),
    'Nxx': lambda p: p.attrs.__setitem__('Nxx', real('Nxx_new')),
    'stack': lambda p: p.attrs.__setitem__('stack', [real('th_new0'), real('th_new1')]),
    'plyt': lambda p: p.attrs.__setitem__('plyt', real('plyt_new')),
    'r': lambda p: p.attrs.__setitem__('r', real('r_new')),
}


AERO = ['beta']          # how the aerodynamic definition is given: 'beta' (coefficient) or 'mach' (flow state; beta and gamma derived)


def fresh(it, geom, changed=None):
    extra = dict(Nxx=real('Nxx'), Nyy=real('Nyy'), Nxy=real('Nxy'))
    if AERO[0] == 'beta':
        extra['beta'] = real('beta')
    else:
        extra.update(Mach=real('Mach'), V=real('Vinf'), rho_air=real('rho_air'), speed_sound=real('speed_sound'))
    p, kw, want, g = build(it, geom, 'uniform', 'none', extra)
    p.attrs['forces'] = [[real('xf'), real('yf'), real('fx'), real('fy'), real('fz')]]
    if changed:
        # a fresh object defined directly with the new value
        CHANGES[changed](p)
    size = g['num'] * kw['m'] * kw['n']
    env = dict(c=user_array('c', shape=(size,)), x=real('xq'), y=real('yq'))
    return p, env


def run_seq(it, geom, seq, changed_before_last=None, fresh_with_change=None):
    """returns ('ok', key) or ('raise', type, where-in-seq)"""
    def thunk():
        p, env = fresh(it, geom, fresh_with_change)
        r = None
        for k, op in enumerate(seq):
            if changed_before_last and k == len(seq) - 1:
                CHANGES[changed_before_last](p)
            try:
                r = (SAVE if op == 'save' else OPS[op])(it, p, env)
            except SymRaise as e:
                e.where = (k, op)
                raise
        return r
    res = it.explore(thunk)
    outs = []
    for path, out in res:
        if out[0] == 'return':
            outs.append(('ok', result_key(out[1])))
        elif out[0] == 'raise':
            outs.append(('raise', out[1].tname, getattr(out[1], 'where', None), [str(a)[:80] for a in out[1].eargs]))
    return outs


def replay_fresh(op):
    def rp():
        from ..pyreplay import run_real
        script = '''
import numpy as np
from compmech.panel import Panel
p = Panel(a=1., b=0.5, stack=[0, 90, 90, 0], plyt=1.25e-4, laminaprop=(142.5e9, 8.7e9, 0.28, 5.1e9, 5.1e9, 5.1e9), mu=1500., m=4, n=4)
p.beta = 1.; p.Nxx = -1.
p.forces = [[0.5, 0.25, 0., 0., 1.]]
c = np.zeros(3*4*4)
op = payload["op"]
try:
    if op in ("uvw", "strain", "stress"):
        getattr(p, op)(c, xs=np.array([0.3]), ys=np.array([0.2]))
    elif op == "calc_fint":
        p.calc_fint(c, silent=True)
    elif op == "calc_kT":
        p.calc_kT(c=c, silent=True)
    else:
        getattr(p, op)(silent=True)
    out = {"raised": None}
except Exception as e:
    out = {"raised_first_call": type(e).__name__ + ": " + str(e)[:120]}
'''
        r = run_real(script, {'op': op})
        r['reproduced'] = bool(r.get('raised_first_call'))
        r['input'] = 'freshly defined Panel(a=1,b=.5,4 plies,m=n=4); first call: %s' % op
        return r
    return rp


def check_after_save(led, it, geom, ops=('calc_k0', 'calc_kM', 'calc_kG0', 'calc_fext')):
    # (d) the same with a checkpoint (Panel.save) between the two calls; pickle.dump is a no-op of the executor (trusted: pickling
    #     does not change the object; Panel defines no __getstate__/__reduce__)
    it.contracts['builtins.open'] = lambda itp, a_, kw_: Opaque('file', name=str(a_[0])[:40])
    led.trust('Panel.save: open() returns an opaque file object and pickle.dump does not change the pickled object (Panel defines no __getstate__ / __reduce__)')
    for op, ch in itertools.product(ops, ('plyt', 'stack', 'a', 'Nxx')):
        outs = run_seq(it, geom, ['calc_k0', op, 'save', op], changed_before_last=ch)
        want_o = run_seq(it, geom, ['calc_k0', op], fresh_with_change=ch)
        name = '%s%s[%s]/follows-a-change-of-%s-made-after-Panel.save' % (PF, op, geom, ch)
        want = sorted(set(o[1] if o[0] == 'ok' else ('raise', o[1]) for o in want_o), key=repr)
        got = sorted(set(o[1] if o[0] == 'ok' else ('raise', o[1]) for o in outs), key=repr)
        if got == want:
            led.ok(name, PF + op)
        else:
            led.fail(name, PF + op, {'meaning': 'after Panel.save() and a change of %s, %s does not return what a fresh object with the new value returns' % (ch, op),
                                    'raises_in_history': [o[1:] for o in outs if o[0] == 'raise'][:2]},
                     signature='stale-after-save:%s:%s' % (op, ch), replay=replay_after_save(op, ch))


def check_panel_history(led):
    it, calls = py_panel.mk()
    led.function(PF + '(all public evaluation methods)')
    base = {}
    for geom in ('plate', 'cpanel'):
        # (a) first on a fresh object
        for op in OPS:
            outs = run_seq(it, geom, [op])
            name = '%s%s[%s]/can-be-requested-first-on-a-fresh-object' % (PF, op, geom)
            bad = [o for o in outs if o[0] == 'raise']
            if bad:
                led.fail(name, PF + op, {'raises': bad[0][1], 'message': bad[0][3]}, signature='fresh:%s:%s' % (op, bad[0][1]), replay=replay_fresh(op)())
                pre = run_seq(it, geom, ['calc_k0', op])
                base[(geom, op)] = pre
            else:
                led.ok(name, PF + op)
                base[(geom, op)] = outs
        # (b) pairs
        for A, B in itertools.product(OPS, OPS):
            outs = run_seq(it, geom, [A, B]) if not any(o[0] == 'raise' for o in run_seq(it, geom, [A])) else run_seq(it, geom, ['calc_k0', A, B])
            name = '%s%s[%s]/same-result-after-%s' % (PF, B, geom, A)
            want = sorted(set(o[1] if o[0] == 'ok' else ('raise', o[1]) for o in base[(geom, B)]), key=repr)
            got = sorted(set(o[1] if o[0] == 'ok' else ('raise', o[1]) for o in outs), key=repr)
            if got == want:
                led.ok(name, PF + B)
            else:
                led.fail(name, PF + B, {'meaning': 'the result of %s depends on whether %s was called before' % (B, A),
                                        'raises_in_history': [o[1:] for o in outs if o[0] == 'raise'][:2]}, signature='history:%s-after-%s' % (B, A))
        # (c) definition changed between two calls of the same method
        for op, ch in itertools.product(('calc_k0', 'calc_kG0', 'calc_kM', 'calc_fext', 'uvw', 'stress', 'calc_kT'), CHANGES):
            if ch == 'r' and geom == 'plate':
                continue
            outs = run_seq(it, geom, ['calc_k0', op, op], changed_before_last=ch)
            want_o = run_seq(it, geom, ['calc_k0', op], fresh_with_change=ch)
            name = '%s%s[%s]/follows-a-change-of-%s' % (PF, op, geom, ch)
            want = sorted(set(o[1] if o[0] == 'ok' else ('raise', o[1]) for o in want_o), key=repr)
            got = sorted(set(o[1] if o[0] == 'ok' else ('raise', o[1]) for o in outs), key=repr)
            if got == want:
                led.ok(name, PF + op)
            else:
                led.fail(name, PF + op, {'meaning': 'after %s is changed, %s does not return what a fresh object with the new value returns' % (ch, op)},
                         signature='stale:%s:%s' % (op, ch))
        check_after_save(led, it, geom)
    # aerodynamic matrix of a panel whose flow is given by Mach number, speed and density (beta, gamma derived on request)
    from ..pysym import to_z3
    AERO[0] = 'mach'
    saved = list(it.facts)
    it.facts += [to_z3(real('Mach')) > 1, to_z3(real('speed_sound')) > 0, to_z3(real('rho_air')) > 0, to_z3(real('Vinf')) > 0]
    try:
        for geom in ('plate', 'cpanel'):
            alone = run_seq(it, geom, ['calc_kA'])
            want = sorted(set(o[1] if o[0] == 'ok' else ('raise', o[1]) for o in alone), key=repr)
            for seq in (['calc_kA', 'calc_kA'], ['calc_k0', 'calc_kA'], ['calc_kA', 'calc_kM', 'calc_kA'], ['calc_kA', 'calc_k0', 'calc_kA']):
                outs = run_seq(it, geom, seq)
                got = sorted(set(o[1] if o[0] == 'ok' else ('raise', o[1]) for o in outs), key=repr)
                name = '%scalc_kA[%s,flow given by Mach]/same-result-after-%s' % (PF, geom, '+'.join(seq[:-1]))
                if got == want and not any(o[0] == 'raise' for o in alone):
                    led.ok(name, PF + 'calc_kA')
                else:
                    led.fail(name, PF + 'calc_kA', {'meaning': 'the aerodynamic matrix of a panel defined by its flow state depends on the requests made before',
                                                    'alone': [str(x)[:300] for x in want][:2], 'in_history': [str(x)[:300] for x in got][:2]},
                             signature='history-mach:%s' % '+'.join(seq), replay=replay_kA_mach(seq))
    finally:
        AERO[0] = 'beta'
        it.facts[:] = saved
    led.solver_time('z3-feasibility', it.solver_time)
    led.extra['sequences'] = led.extra.get('sequences', 0) + len(OPS) * len(OPS) * 2 + 8


def replay_after_save(op, ch):
    from ..pyreplay import run_real
    script = '''
import numpy as np, os, tempfile
from compmech.panel import Panel
os.chdir(tempfile.mkdtemp())
def new():
    p = Panel(a=1., b=0.5, stack=[0, 90, 90, 0], plyt=1.25e-4, laminaprop=(142.5e9, 8.7e9, 0.28, 5.1e9, 5.1e9, 5.1e9), mu=1500., m=4, n=4)
    p.Nxx = -1.; p.forces = [[0.5, 0.25, 0., 0., 1.]]; p.name = 'chk'
    return p
def change(p):
    ch = payload['ch']
    if ch == 'plyt': p.plyt = 2.e-4
    elif ch == 'stack': p.stack = [0, 90]
    elif ch == 'a': p.a = 1.3
    else: p.Nxx = -2.
def ev(p):
    r = getattr(p, payload['op'])(silent=True)
    return np.asarray(r.todense()) if hasattr(r, 'todense') else np.asarray(r)
p = new(); p.calc_k0(silent=True); ev(p); p.save(); change(p); got = ev(p)
q = new(); change(q); q.calc_k0(silent=True); ref = ev(q)
out = {'max_abs_difference_to_a_fresh_panel': float(abs(got - ref).max()), 'scale': float(abs(ref).max())}
'''
    r = run_real(script, {'op': op, 'ch': ch})
    r['reproduced'] = bool(r.get('raised') or (r.get('max_abs_difference_to_a_fresh_panel') or 0) > 1e-9 * max(r.get('scale') or 0, 1e-300))
    r['input'] = 'Panel(a=1,b=.5,4 plies): calc_k0, %s, save(), change of %s, %s  versus a fresh panel with the new value' % (op, ch, op)
    return r


def replay_kA_mach(seq):
    from ..pyreplay import run_real
    script = '''
import numpy as np
from compmech.panel import Panel
def new():
    p = Panel(a=1., b=0.5, r=2., stack=[0, 90, 90, 0], plyt=1.25e-4, laminaprop=(142.5e9, 8.7e9, 0.28, 5.1e9, 5.1e9, 5.1e9), mu=1500., m=4, n=4)
    p.Mach = 2.; p.V = 680.; p.rho_air = 0.3; p.speed_sound = 340.
    return p
alone = np.asarray(new().calc_kA(silent=True).todense())
p = new()
for op in payload['seq']:
    r = getattr(p, op)(silent=True)
hist = np.asarray(r.todense())
out = {'max_abs_alone': float(abs(alone).max()), 'max_abs_difference': float(abs(alone - hist).max())}
'''
    r = run_real(script, {'seq': list(seq)})
    d = r.get('max_abs_difference')
    return {'reproduced': bool(r.get('raised') or (isinstance(d, float) and d > 1e-9 * max(r.get('max_abs_alone', 0), 1e-300))), 'input': {'sequence': list(seq), 'panel': 'cylindrical, Mach=2, V=680, rho_air=0.3, speed_sound=340'}, 'result': r,
            'real_function': 'Panel.calc_kA'}


DEF_ATTRS = ['a', 'b', 'r', 'alphadeg', 'stack', 'plyt', 'laminaprop', 'offset', 'm', 'n', 'mu', 'Nxx', 'Nyy', 'Nxy', 'y1', 'y2', 'beta', 'gamma',
             'Nxx_cte', 'Nyy_cte', 'Nxy_cte'] + list(__import__('cmverif.kharness', fromlist=['x']).FLAG_NAMES)


def defkey(p):
    return hashlib.sha1(repr([(k, panelctx.vkey(p.attrs.get(k))) for k in DEF_ATTRS]).encode()).hexdigest()[:10]


def check_panel_analyses(led):
    """Panel.lb / Panel.freq in different histories: the matrices reaching the eigen-solver must be the ones of the CURRENT definition"""
    from .c05 import mk as mk_eig
    func = PF + 'freq/lb'
    led.function(PF + 'freq')
    led.function(PF + 'lb')
    it, log = mk_eig()
    n = integer('size')
    it.facts += [pysym.to_z3(n) >= 30, pysym.to_z3(n) <= 400]
    made = []

    def matrix_contract(which):
        def c(itp, a, kw):
            p = a[0]
            tag = (which, defkey(p), tuple(sorted((k, panelctx.vkey(v) if not hasattr(v, 'term') else v.term) for k, v in kw.items() if k not in ('silent',) and v is not None and v is not False)))
            mat = AArr((n, n), tag)
            p.attrs[{'calc_k0': 'k0', 'calc_kG0': 'kG0', 'calc_kM': 'kM', 'calc_kA': 'kA', 'calc_kT': 'kT'}[which]] = mat
            if which == 'calc_kT':
                # the real calc_kT goes through calc_k0(c=...)/calc_kG0(c=...) and therefore overwrites k0 and kG0 with state-dependent matrices
                p.attrs['k0'] = AArr((n, n), ('kL', tag))
                p.attrs['kG0'] = AArr((n, n), ('kG', tag))
            made.append(tag)
            return mat
        return c
    for w in ('calc_k0', 'calc_kG0', 'calc_kM', 'calc_kA', 'calc_kT'):
        it.contracts['compmech.panel._panel.Panel.' + w] = matrix_contract(w)

    def seq_result(seq, change=None, fresh_change=None):
        def thunk():
            del log[:]
            p, env = fresh(it, 'plate', fresh_change)
            p.attrs['num_eigvalues'] = 5
            c = AArr((n,), 'c')
            for k, op in enumerate(seq):
                if change and k == len(seq) - 1:
                    CHANGES[change](p)
                del log[:]
                if op == 'freq':
                    it.call(it.getattr(p, 'freq'), [], dict(silent=True))
                elif op == 'lb':
                    it.call(it.getattr(p, 'lb'), [], dict(silent=True))
                elif op == 'calc_kT':
                    it.call(it.getattr(p, 'calc_kT'), [], dict(c=c, silent=True))
                else:
                    it.call(it.getattr(p, op), [], dict(silent=True))
            return [(c_['fn'], c_.get('A'), c_.get('M')) for c_ in log if c_['fn'] in ('eigs', 'eigsh', 'eig', 'eigh')]
        outs = set()
        for path, out in it.explore(thunk):
            if out[0] == 'return':
                outs.add(repr(out[1]))
            elif out[0] == 'raise':
                outs.add('raise:' + out[1].tname)
        return outs
    for ana in ('freq', 'lb'):
        base = seq_result([ana])
        for pre in (['calc_k0'], ['calc_kM'], ['calc_kT'], ['calc_kG0'], ['lb'], ['freq'], ['calc_kT', 'calc_kM']):
            got = seq_result(pre + [ana])
            name = '%s%s/same-eigenproblem-after-%s' % (PF, ana, '+'.join(pre))
            if got == base:
                led.ok(name, PF + ana)
            else:
                led.fail(name, PF + ana, {'meaning': 'the matrices handed to the eigen-solver by %s() depend on the calls made before' % ana,
                                          'fresh': sorted(base)[:1], 'in_history': sorted(got)[:1]}, signature='history:%s-after-%s' % (ana, '+'.join(pre)))
        for ch in ('a', 'offset', 'stack', 'Nxx'):
            got = seq_result([ana, ana], change=ch)
            want = seq_result([ana], fresh_change=ch)
            name = '%s%s/follows-a-change-of-%s' % (PF, ana, ch)
            if got == want:
                led.ok(name, PF + ana)
            else:
                led.fail(name, PF + ana, {'meaning': 'after %s is changed, %s() still solves the eigenproblem of the old definition' % (ch, ana),
                                          'fresh_with_new_value': sorted(want)[:1], 'second_call': sorted(got)[:1]}, signature='stale:%s:%s' % (ana, ch))
    led.solver_time('z3-feasibility', it.solver_time)


def check_grids_not_aliased(led):
    """Panel._default_field: the stored / returned point arrays are copies of what the caller passed"""
    import numpy as np
    func = PF + '_default_field'
    led.function(func)
    it, calls = py_panel.mk()
    X = np.array([[real('x00'), real('x01')], [real('x10'), real('x11')]], dtype=object)
    Y = np.array([[real('y00'), real('y01')], [real('y10'), real('y11')]], dtype=object)
    keepX, keepY = X.copy(), Y.copy()

    def run():
        p, env = fresh(it, 'plate')
        r = it.call(it.getattr(p, '_default_field'), [X, Y, 5, 5], {})
        return p, r
    for path, out in it.explore(run):
        name = func + '/stored-and-returned-points-do-not-share-memory-with-the-caller-arrays'
        if out[0] != 'return':
            led.fail(name + '/no-exception', func, {'raises': out[1].tname}, signature='raise')
            continue
        p, r = out[1]
        probs = []
        for lab, arr in (('self.Xs', p.attrs.get('Xs')), ('self.Ys', p.attrs.get('Ys')), ('returned xs', r[0]), ('returned ys', r[1])):
            if isinstance(arr, np.ndarray) and (np.shares_memory(arr, X) or np.shares_memory(arr, Y)):
                probs.append('%s shares its memory with an array of the caller' % lab)
        if not ((X == keepX).all() and (Y == keepY).all()):
            probs.append('the caller arrays were modified')
        led.ok(name, func) if not probs else led.fail(name, func, {'differences': probs}, signature='grid-alias')


def body(led):
    led.assume('C20: kernels and field functions are pure functions of the arguments and panel attributes they read (their contracts); '
               'thread-count independence of the compiled field wrappers is proved in C11 (c11_wrap), that of the integration kernels in C10')
    led.trust('cmverif symbolic executor')
    check_panel_history(led)
    check_grids_not_aliased(led)
    check_panel_analyses(led)
    from . import c20_shell
    c20_shell.check(led)
    from . import c20_assembly
    c20_assembly.check(led)


def main():
    return run_check('C20', body)


if __name__ == '__main__':
    sys.exit(main())
