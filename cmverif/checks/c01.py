"""C01 -- laminate ABD/ABDE matrices are the through-thickness integrals of the
rotated plane-stress ply stiffness.

Functions under contract (parsed from /repo on every run, executed symbolically):
  composite/matlamina.py : read_laminaprop (3/6/9-entry tuples), MatLamina.rebuild (exception freedom)
  composite/lamina.py    : Lamina.rebuild
  composite/laminate.py  : Laminate.rebuild, Laminate.calc_constitutive_matrix (inductive in the ply count),
                           read_stack (both argument forms; ply count 1..3, everything else symbolic)
"""
import sys
import itertools
import time
from fractions import Fraction

import numpy as np
import z3

from ..core import run_check, CheckerError
from ..poly import P, normal, rational_close, mono_text
from .. import pysym, shims, kernel, vc, spec_laminate as SL
from ..pysym import Interp, real, integer, Obj, to_z3, Cond, SymRaise
from ..induct import SymList, InductiveFor, indexed_atom, values_equal, values_equal_on_path

F = 'compmech/composite/'


def mk_interp():
    it = Interp()
    shims.install(it)
    return it


def admissible(it, E1, E2, nu12, G12, G13=None, G23=None):
    fs = [to_z3(E1) > 0, to_z3(E2) > 0, to_z3(G12) > 0,
          to_z3(1 - nu12 * nu12 * E2 / E1) > 0]
    if G13 is not None:
        fs += [to_z3(G13) > 0, to_z3(G23) > 0]
    it.facts.extend(fs)


def discharge_side(led, it, path, func, tag):
    """nonzero-denominator obligations collected along a path"""
    seen = set()
    for ob in path.obligations:
        kind, cond, conds, lineno, txt, where = ob
        name = '%s/%s/no-ZeroDivision[%s in %s]' % (func, tag, txt, where.split('.')[-2] + '.' + where.split('.')[-1] if '.' in where else where)
        if name in seen:
            continue
        seen.add(name)
        st, mdl, dt = vc.prove_nonzero(it, cond, conds)
        led.solver_time('z3', dt)
        if st == 'valid':
            led.ok(name, func, backend='z3')
        elif st == 'invalid':
            led.fail(name, func, {'line': lineno, 'divisor': txt, 'z3_model': mdl,
                                  'meaning': 'the divisor can be zero for admissible input'},
                     backend='z3', replay=replay_zero_div(tag, mdl), signature=txt)
        else:
            led.undecide(name, func, 'z3: %s' % (mdl,))


def replay_zero_div(tag, mdl):
    """run the real read_laminaprop on the solver's counterexample"""
    from ..pyreplay import run_real
    if not mdl:
        return None

    def val(k, default):
        for kk, v in mdl.items():
            if kk.endswith('!' + k):
                try:
                    return float(Fraction(v.replace('?', '')))
                except Exception:
                    return default
        return default
    if tag == 'iso3':
        prop = (val('E', 1.0), val('E', 1.0), val('nu', 0.5))
    elif tag == 'ortho6':
        prop = tuple(val(k, 1.0) for k in ('E1', 'E2', 'nu12', 'G12', 'G13', 'G23'))
    else:
        prop = tuple(val(k, 1.0) for k in ('E1', 'E2', 'nu12', 'G12', 'G13', 'G23', 'E3', 'nu13', 'nu23'))
    script = '''
from compmech.composite.matlamina import read_laminaprop
try:
    m = read_laminaprop(tuple(payload["prop"]))
    out = {"raised": None, "e1": float(m.e1)}
except Exception as e:
    out = {"raised": type(e).__name__ + ": " + str(e)}
'''
    r = run_real(script, {'prop': prop})
    r['input_laminaprop'] = prop
    r['reproduced'] = bool(r.get('raised'))
    return r


def replay_fields(tag, k, w):
    from ..pyreplay import run_real
    vals = {'E': 70.0, 'nu': 0.3, 'E1': 130.0, 'E2': 9.0, 'nu12': 0.31, 'G12': 5.2, 'G13': 4.1, 'G23': 3.3, 'E3': 8.0, 'nu13': 0.2, 'nu23': 0.4}
    prop = {'iso3': ['E', 'E', 'nu'], 'ortho6': ['E1', 'E2', 'nu12', 'G12', 'G13', 'G23'],
            'ortho9': ['E1', 'E2', 'nu12', 'G12', 'G13', 'G23', 'E3', 'nu13', 'nu23']}[tag]
    from ..vc import polynomialize
    try:
        num, used, negs = normal(w), [], []
        env = {a: Fraction(vals[a]).limit_denominator(10 ** 6) for a in vals}
        from ..poly import DENOMS
        for a in list(num.atoms()):
            if a.startswith('inv['):
                env[a] = 1 / DENOMS[a].evalf(env)
        expect = float(num.evalf(env))
    except Exception as e:
        return {'reproduced': False, 'note': 'could not evaluate the spec numerically: %r' % (e,)}
    script = '''
from compmech.composite.matlamina import read_laminaprop
m = read_laminaprop(tuple(payload["prop"]))
out = {"real": float(getattr(m, payload["attr"]))}
'''
    r = run_real(script, {'prop': [vals[x] for x in prop], 'attr': k})
    r.update({'attribute': k, 'input_laminaprop': [vals[x] for x in prop], 'spec_value': expect})
    r['reproduced'] = bool('real' in r and abs(r['real'] - expect) > 1e-9 * max(1.0, abs(expect))) or bool(r.get('raised'))
    return r


def check_fields(led, func, tag, have, want, path=None):
    for k, w in want.items():
        h = have.get(k)
        name = '%s/%s/%s' % (func, tag, k)
        if h is None:
            led.fail(name, func, {'reason': 'attribute not set'}, signature=k, replay=replay_fields(tag, k, w))
            continue
        ok, why = values_equal_on_path(h, w, path)
        if ok:
            led.ok(name, func)
        else:
            led.fail(name, func, {'residual': why}, signature=k, replay=replay_fields(tag, k, w))


# --------------------------------------------------------------------------
def part_laminaprop(led):
    func = F + 'matlamina.py:read_laminaprop'
    led.function(func)
    led.function(F + 'matlamina.py:MatLamina.rebuild')
    cases = []
    E, nu = real('E'), real('nu')
    cases.append(('iso3', (E, E, nu), dict(E1=E, E2=E, nu12=nu, G12=E / (2 * (1 + nu)), G13=E / (2 * (1 + nu)), G23=E / (2 * (1 + nu)))))
    names = ('E1', 'E2', 'nu12', 'G12', 'G13', 'G23')
    v6 = tuple(real(n) for n in names)
    cases.append(('ortho6', v6, dict(zip(names, v6))))
    v9 = v6 + (real('E3'), real('nu13'), real('nu23'))
    cases.append(('ortho9', v9, dict(zip(names, v6))))
    for tag, tup, want in cases:
        it = mk_interp()
        admissible(it, want['E1'], want['E2'], want['nu12'], want['G12'], want['G13'], want['G23'])
        if tag == 'ortho9':
            it.facts.append(to_z3(v9[6]) > 0)
        f = it.module('compmech.composite.matlamina').g['read_laminaprop']
        res = it.explore(lambda: it.call(f, [tup], {}))
        led.extra.setdefault('paths', 0)
        led.extra['paths'] += len(res)
        for path, out in res:
            if out[0] == 'raise':
                led.fail('%s/%s/no-exception' % (func, tag), func,
                         {'raises': out[1].tname, 'args': [str(a) for a in out[1].eargs], 'path': [repr(c) for c in path.conds]})
                continue
            m = out[1]
            wantf = {'e1': want['E1'], 'e2': want['E2'], 'nu12': want['nu12'],
                     'nu21': want['nu12'] * want['E2'] / want['E1'],
                     'g12': want['G12'], 'g13': want['G13'], 'g23': want['G23']}
            check_fields(led, func, tag, m.attrs, wantf, path)
            discharge_side(led, it, path, func, tag)
        led.solver_time('z3-feasibility', it.solver_time)


def sym_matobj(it, suffix=''):
    """a MatLamina-like object with symbolic constants (what read_laminaprop guarantees)"""
    cls = it.module('compmech.composite.matlamina').g['MatLamina']
    o = Obj(cls)
    o.name = 'matobj' + suffix
    names = ('e1', 'e2', 'nu12', 'g12', 'g13', 'g23')
    for n in names:
        o.attrs[n] = real(n.upper() + suffix)
    o.attrs['nu21'] = o.attrs['nu12'] * o.attrs['e2'] / o.attrs['e1']
    return o


def part_lamina(led):
    func = F + 'lamina.py:Lamina.rebuild'
    led.function(func)
    E, nu = real('E'), real('nu')
    names = ('E1', 'E2', 'nu12', 'G12', 'G13', 'G23')
    v6 = tuple(real(n) for n in names)
    v9 = v6 + (real('E3'), real('nu13'), real('nu23'))
    G = E / (2 * (1 + nu))
    forms = [('iso3', (E, E, nu), dict(E1=E, E2=E, nu12=nu, G12=G, G13=G, G23=G)),
             ('ortho6', v6, dict(zip(names, v6))),
             ('ortho9', v9, dict(zip(names, v6)))]
    for tag, tup, cst in forms:
        it = mk_interp()
        mod = it.module('compmech.composite.lamina')
        cls = mod.g['Lamina']
        admissible(it, cst['E1'], cst['E2'], cst['nu12'], cst['G12'], cst['G13'], cst['G23'])
        if tag == 'ortho9':
            it.facts.append(to_z3(v9[6]) > 0)
        rl = it.module('compmech.composite.matlamina').g['read_laminaprop']
        th = real('theta')

        def run(theta):
            # the material object is the one the real read_laminaprop builds (executed symbolically), so every field the
            # ply reads -- including derived ones -- is what the package itself provides
            ply = it.call(cls, [], {})
            ply.attrs['theta'] = theta
            ply.attrs['t'] = real('t')
            ply.attrs['matobj'] = it.call(rl, [tup], {})
            it.call(it.getattr(ply, 'rebuild'), [], {})
            return ply
        res = it.explore(lambda: run(th))
        arg = th * shims.PI * Fraction(1, 180)
        c, s = shims.sym_cos(arg), shims.sym_sin(arg)
        want = SL.QL_matrix(cst['E1'], cst['E2'], cst['nu12'], cst['G12'], cst['G13'], cst['G23'], c, s)
        for path, out in res:
            if out[0] == 'raise':
                led.fail('%s[%s]/no-exception' % (func, tag), func, {'raises': out[1].tname, 'args': [str(x) for x in out[1].eargs]}, replay=replay_QL(tag, 0, 0))
                continue
            QL = out[1].attrs.get('QL')
            if not isinstance(QL, np.ndarray) or QL.shape != (5, 5):
                led.fail('%s[%s]/QL-shape' % (func, tag), func, {'found': repr(getattr(QL, 'shape', QL))})
                continue
            for i in range(5):
                for j in range(5):
                    ok, why = values_equal_on_path(QL[i, j], want[i, j], path)
                    name = '%s[%s]/QL[%d,%d]==tensor-rotation' % (func, tag, i, j)
                    if ok:
                        led.ok(name, func, sample=({'spec': normal(want[i, j]).text()[:300]} if (i, j, tag) == (0, 2, 'ortho6') else None))
                    else:
                        led.fail(name, func, {'residual': why}, signature='QL%d%d' % (i, j), replay=replay_QL(tag, i, j))
        if tag != 'ortho6':
            continue
        # consequences of tensor rotation, on the real code: theta -> -theta and theta -> theta + 90
        flip = {(0, 2), (1, 2), (2, 0), (2, 1), (3, 4), (4, 3)}
        res_m = it.explore(lambda: run(-th))
        res_p = it.explore(lambda: run(th + 90))
        base = res[0][1][1].attrs['QL'] if res and res[0][1][0] == 'return' else None
        if base is not None and res_m and res_m[0][1][0] == 'return':
            Qm = res_m[0][1][1].attrs['QL']
            for i in range(5):
                for j in range(5):
                    w = -base[i, j] if (i, j) in flip else base[i, j]
                    ok, why = values_equal(Qm[i, j], w)
                    name = '%s/mirror-angle[%d,%d]' % (func, i, j)
                    led.ok(name, func) if ok else led.fail(name, func, {'residual': why}, signature='mirror%d%d' % (i, j))
        if base is not None and res_p and res_p[0][1][0] == 'return':
            Qp = res_p[0][1][1].attrs['QL']
            perm = {0: 1, 1: 0, 2: 2, 3: 4, 4: 3}
            for i in range(5):
                for j in range(5):
                    sgn = 1
                    if (i == 2) != (j == 2) and i < 3 and j < 3:
                        sgn = -1
                    if {i, j} == {3, 4}:
                        sgn = -1
                    w = base[perm[i], perm[j]] * sgn
                    ok, why = values_equal(Qp[i, j], w)
                    name = '%s/rotate-90[%d,%d]' % (func, i, j)
                    led.ok(name, func) if ok else led.fail(name, func, {'residual': why}, signature='rot90%d%d' % (i, j))
        led.solver_time('z3-feasibility', it.solver_time)


def replay_QL(tag, i, j):
    if ('ql', tag) not in _RC:
        _RC[('ql', tag)] = _replay_QL(tag, i, j)
    return _RC[('ql', tag)]


def _replay_QL(tag, i, j):
    from ..pyreplay import run_real
    script = '''
import numpy as np
from compmech.composite.lamina import Lamina
from compmech.composite.matlamina import read_laminaprop
E1,E2,nu12,G12,G13,G23,theta = payload["v"]
ply = Lamina(); ply.theta = theta; ply.t = 0.1; ply.matobj = read_laminaprop(tuple(payload["prop"])); ply.rebuild()
c, s = np.cos(np.deg2rad(theta)), np.sin(np.deg2rad(theta))
nu21 = nu12*E2/E1; den = 1-nu12*nu21
C = np.zeros((2,2,2,2)); C[0,0,0,0]=E1/den; C[1,1,1,1]=E2/den; C[0,0,1,1]=C[1,1,0,0]=nu12*E2/den
C[0,1,0,1]=C[0,1,1,0]=C[1,0,0,1]=C[1,0,1,0]=G12
R = np.array([[c,-s],[s,c]])
Cb = np.einsum('ip,jq,kr,lt,pqrt->ijkl', R,R,R,R,C)
G = np.einsum('ip,jq,pq->ij', R, R, np.diag([G13,G23]))
want = np.zeros((5,5)); V=[(0,0),(1,1),(0,1)]
for a in range(3):
    for b in range(3):
        want[a,b] = Cb[V[a][0],V[a][1],V[b][0],V[b][1]]
want[3,3]=G[1,1]; want[3,4]=want[4,3]=G[1,0]; want[4,4]=G[0,0]
out = {"real": ply.QL.tolist(), "oracle": want.tolist(), "maxdiff": float(abs(ply.QL-want).max())}
'''
    v = [130e9, 9e9, 0.31, 5.2e9, 4.1e9, 3.3e9, 27.0]
    prop = v[:6]
    if tag == 'iso3':
        v = [70e9, 70e9, 0.3, 70e9 / 2.6, 70e9 / 2.6, 70e9 / 2.6, 27.0]
        prop = [70e9, 70e9, 0.3]
    elif tag == 'ortho9':
        prop = v[:6] + [20e9, 0.25, 0.4]
    r = run_real(script, {'v': v, 'prop': prop})
    r['reproduced'] = bool(r.get('maxdiff', 0) > 1e-6 * 130e9) or bool(r.get('raised'))
    r['entry'] = [i, j]
    r['input'] = 'ply at 27 deg with laminaprop=%r' % (prop,)
    return r


# --------------------------------------------------------------------------
def ply_factory(it):
    lamina_cls = it.module('compmech.composite.lamina').g['Lamina']

    def make(k):
        o = Obj(lamina_cls)
        o.name = 'ply[%s]' % (k.text() if isinstance(k, P) else k)
        o.attrs['t'] = indexed_atom('t', k)
        o.attrs['theta'] = indexed_atom('theta', k)
        o.partial_model = True          # a Lamina of the general stack: attributes not listed here are a gap of the model, not of the program
        QL = np.empty((5, 5), dtype=object)
        for i in range(5):
            for j in range(5):
                a, b = min(i, j), max(i, j)
                if (a < 3) != (b < 3):
                    QL[i, j] = 0
                else:
                    QL[i, j] = indexed_atom('QL%d%d' % (a, b), k)
        o.attrs['QL'] = QL
        return o
    return make


def part_constitutive(led):
    """Laminate.calc_constitutive_matrix for a symbolic number of plies (induction on the ply loop)"""
    func = F + 'laminate.py:Laminate.calc_constitutive_matrix'
    led.function(func)
    it = mk_interp()
    mod = it.module('compmech.composite.laminate')
    cls = mod.g['Laminate']
    N = integer('N')
    it.facts.append(to_z3(N) >= 1)
    make = ply_factory(it)
    plies = SymList('plies', N, make)
    d = real('offset')
    T = kernel.make_sum('j', 0, N, indexed_atom('t', integer('j')), [])
    k = integer('k')
    zk = P.atom('z[k]')          # spec: height of the lower face of ply k
    SA = np.empty((5, 5), dtype=object)
    SB = np.empty((5, 5), dtype=object)
    SD = np.empty((5, 5), dtype=object)
    FA = np.empty((5, 5), dtype=object)
    FB = np.empty((5, 5), dtype=object)
    FD = np.empty((5, 5), dtype=object)
    for i in range(5):
        for j in range(5):
            a, b = min(i, j), max(i, j)
            SA[i, j] = P.atom('IntQ%d%d_z0[k]' % (a, b))
            SB[i, j] = P.atom('IntQ%d%d_z1[k]' % (a, b))
            SD[i, j] = P.atom('IntQ%d%d_z2[k]' % (a, b))
            FA[i, j] = P.atom('IntQ%d%d_z0[N]' % (a, b))
            FB[i, j] = P.atom('IntQ%d%d_z1[N]' % (a, b))
            FD[i, j] = P.atom('IntQ%d%d_z2[N]' % (a, b))
    plyk = make(k)
    dA, dB, dD = SL.layer_integrals(plyk.attrs['QL'], zk, zk + plyk.attrs['t'])
    zero = np.zeros((5, 5), dtype=object)
    selfobj = {}

    def report(kind, place, ok, why):
        pname = place if isinstance(place, str) else place[1]
        name = '%s/ply-loop/%s/%s' % (func, kind, pname)
        if ok:
            led.ok(name, func, sample=({'invariant': 'A_general == sum_{j<k} QL_j*(z_{j+1}-z_j); step adds the exact layer integral'} if pname == 'A_general' and kind == 'step' else None))
        else:
            led.fail(name, func, {'residual': why,
                                  'meaning': ('state before the loop differs from the spec at k=0' if kind == 'base'
                                              else 'one loop iteration does not add the exact integral over ply k')},
                     signature=kind + ':' + pname, replay=replay_constitutive())

    def me(fr):
        return fr.l['self']
    inv = InductiveFor('ply-loop', 'k',
                       state_at_0=lambda itp, fr: {'h0': -T * Fraction(1, 2) + d, (me, 'A_general'): zero, (me, 'B_general'): zero, (me, 'D_general'): zero},
                       state_at_k=lambda itp, fr: {'h0': zk, (me, 'A_general'): SA, (me, 'B_general'): SB, (me, 'D_general'): SD},
                       state_at_k1=lambda itp, fr: {'h0': zk + plyk.attrs['t'], (me, 'A_general'): SA + dA, (me, 'B_general'): SB + dB, (me, 'D_general'): SD + dD},
                       state_at_N=lambda itp, fr: {'h0': -T * Fraction(1, 2) + d + T, (me, 'A_general'): FA, (me, 'B_general'): FB, (me, 'D_general'): FD},
                       report=report)
    it.loop_modes[('compmech.composite.laminate.Laminate.calc_constitutive_matrix', '*')] = inv

    def run():
        lam = it.call(cls, [], {})
        lam.attrs['plies'] = plies
        lam.attrs['offset'] = d
        it.call(it.getattr(lam, 'calc_constitutive_matrix'), [], {})
        return lam
    res = it.explore(run)
    for path, out in res:
        if out[0] == 'raise':
            led.fail(func + '/no-exception', func, {'raises': out[1].tname, 'args': [str(x) for x in out[1].eargs]})
            continue
        lam = out[1].attrs
        want = {}
        want['t'] = T
        want['A'] = FA[0:3, 0:3]
        want['B'] = FB[0:3, 0:3]
        want['D'] = FD[0:3, 0:3]
        want['E'] = FA[3:5, 3:5]
        ABD = np.empty((6, 6), dtype=object)
        ABD[0:3, 0:3] = FA[0:3, 0:3]
        ABD[0:3, 3:6] = FB[0:3, 0:3]
        ABD[3:6, 0:3] = FB[0:3, 0:3]
        ABD[3:6, 3:6] = FD[0:3, 0:3]
        want['ABD'] = ABD
        ABDE = np.zeros((8, 8), dtype=object)
        ABDE[0:6, 0:6] = ABD
        ABDE[6:8, 6:8] = FA[3:5, 3:5]
        want['ABDE'] = ABDE
        for key, w in want.items():
            h = lam.get(key)
            name = '%s/post/%s' % (func, key)
            if h is None:
                led.fail(name, func, {'reason': 'attribute %s not set' % key}, signature=key, replay=replay_constitutive())
                continue
            ok, why = values_equal(h, w)
            if ok:
                led.ok(name, func)
            else:
                led.fail(name, func, {'residual': why, 'meaning': 'reported %s is not the block of through-thickness integrals the property names' % key},
                         signature=key, replay=replay_constitutive())
            if key == 'ABD' and isinstance(h, np.ndarray) and h.shape == (6, 6):
                blk_ok = all(values_equal(h[i, j + 3], h[j, i + 3])[0] and values_equal(h[i + 3, j], h[i, j + 3])[0]
                             for i in range(3) for j in range(3))
                nm = '%s/post/ABD-is-[[A,B],[B,D]]-with-symmetric-blocks' % func
                led.ok(nm, func) if blk_ok else led.fail(nm, func, {'reason': 'coupling block not symmetric / not repeated'}, signature='Bblock', replay=replay_constitutive())
            if key in ('ABD', 'ABDE') and isinstance(h, np.ndarray) and h.ndim == 2:
                sym_ok = all(values_equal(h[i, j], h[j, i])[0] for i in range(h.shape[0]) for j in range(h.shape[1]))
                nm = '%s/post/%s-symmetric' % (func, key)
                led.ok(nm, func) if sym_ok else led.fail(nm, func, {'reason': 'matrix not symmetric'}, signature=key + '-sym', replay=replay_constitutive())
        discharge_side(led, it, path, func, 'constitutive')
    led.solver_time('z3-feasibility', it.solver_time)
    # Laminate.rebuild: thickness = sum of ply thicknesses, every ply rebuilt (inductive as well)
    part_rebuild(led)


def part_rebuild(led):
    func = F + 'laminate.py:Laminate.rebuild'
    led.function(func)
    it = mk_interp()
    mod = it.module('compmech.composite.laminate')
    cls = mod.g['Laminate']
    N = integer('N')
    it.facts.append(to_z3(N) >= 1)
    rebuilt = []
    lamina_cls = it.module('compmech.composite.lamina').g['Lamina']
    it.contracts['compmech.composite.lamina.Lamina.rebuild'] = lambda itp, args, kw: rebuilt.append(args[0].name)

    def make(k):
        o = Obj(lamina_cls)
        o.name = 'ply[%s]' % (k.text() if isinstance(k, P) else k)
        o.attrs['t'] = indexed_atom('t', k)
        o.attrs['theta'] = indexed_atom('theta', k)
        # an arbitrary ply of an existing laminate: it may have been built before (its stiffness then belongs to an EARLIER definition)
        o.attrs['QL'] = pysym.Opaque('ply stiffness of an earlier build', k=(k.text() if isinstance(k, P) else k))
        o.partial_model = True          # a Lamina of the general stack: attributes not listed here are a gap of the model, not of the program
        return o
    plies = SymList('plies', N, make)
    T = kernel.make_sum('j', 0, N, indexed_atom('t', integer('j')), [])
    tk = indexed_atom('t', integer('k'))
    Sk = P.atom('sum_t[k]')

    def report(kind, place, ok, why):
        name = '%s/ply-loop/%s/%s' % (func, kind, place if isinstance(place, str) else place[1])
        led.ok(name, func) if ok else led.fail(name, func, {'residual': why}, signature=kind)
    inv = InductiveFor('ply-loop', 'k',
                       state_at_0=lambda i_, fr: {'lam_thick': 0},
                       state_at_k=lambda i_, fr: {'lam_thick': Sk},
                       state_at_k1=lambda i_, fr: {'lam_thick': Sk + tk},
                       state_at_N=lambda i_, fr: {'lam_thick': T}, report=report)
    it.loop_modes[('compmech.composite.laminate.Laminate.rebuild', '*')] = inv

    def run():
        lam = it.call(cls, [], {})
        lam.attrs['plies'] = plies
        it.call(it.getattr(lam, 'rebuild'), [], {})
        return lam
    for path, out in it.explore(run):
        if out[0] == 'raise':
            led.fail(func + '/no-exception', func, {'raises': out[1].tname})
            continue
        ok, why = values_equal(out[1].attrs.get('t'), T)
        led.ok(func + '/post/t', func) if ok else led.fail(func + '/post/t', func, {'residual': why}, signature='t')
        ok = len(rebuilt) == 1 and rebuilt[0].startswith('ply[')
        led.ok(func + '/every-ply-rebuilt', func) if ok else led.fail(func + '/every-ply-rebuilt', func, {'rebuilt': rebuilt}, signature='rebuilt')


_RC = {}


def replay_second_call():
    """real read_stack called twice in one process: the second laminate against the same laminate in the per-ply form"""
    if 'second' in _RC:
        return _RC['second']
    from ..pyreplay import run_real
    script = '''
import numpy as np
from compmech.composite.laminate import read_stack
lp1 = (130e9, 9e9, 0.31, 5.2e9, 4.1e9, 3.3e9); lp2 = (70e9, 70e9, 0.3, 26.9e9, 26.9e9, 26.9e9)
read_stack([0, 90, -45, 45], plyt=1.25e-4, laminaprop=lp1)
read_stack([0, 90, -45, 45], plyts=[1e-4, 2e-4, 1e-4, 2e-4], laminaprops=[lp1]*4, offset=1e-4)
stack = [30, -30, 0, 60, -60, 90]
second = read_stack(stack, plyt=1.9e-4, laminaprop=lp2, offset=4e-4)
ref = read_stack(stack, plyts=[1.9e-4]*6, laminaprops=[lp2]*6, offset=4e-4)
out = {"plies": len(second.plies), "thickness": float(second.t), "max_rel_deviation_ABDE": float(abs(second.ABDE - ref.ABDE).max()/abs(ref.ABDE).max())}
'''
    r = run_real(script, {})
    r['reproduced'] = bool(r.get('raised') or r.get('plies') != 6 or r.get('max_rel_deviation_ABDE', 0) > 1e-12)
    r['input'] = 'read_stack (uniform form, then per-ply form) on a 4-ply laminate, then read_stack([30,-30,0,60,-60,90], plyt=1.9e-4, ..., offset=4e-4)'
    _RC['second'] = r
    return r


def replay_constitutive():
    """real code against an independent numerical through-thickness integration"""
    if 'r' not in _RC:
        _RC['r'] = _replay_constitutive()
    return _RC['r']


def _replay_constitutive():
    from ..pyreplay import run_real
    script = '''
import numpy as np
from compmech.composite.laminate import read_stack
stack=[0, 37, -52, 90, 15]; plyts=[0.1, 0.25, 0.17, 0.3, 0.05]
props=[(130e9, 9e9, 0.31, 5.2e9, 4.1e9, 3.3e9)]*5
off = 0.07
lam = read_stack(stack, plyts=plyts, laminaprops=props, offset=off)
A=np.zeros((5,5)); B=np.zeros((5,5)); D=np.zeros((5,5))
z = -sum(plyts)/2 + off
xs, ws = np.polynomial.legendre.leggauss(4)
def QLspec(prop, theta):
    E1,E2,nu12,G12,G13,G23 = prop
    c, s = np.cos(np.deg2rad(theta)), np.sin(np.deg2rad(theta))
    nu21 = nu12*E2/E1; den = 1-nu12*nu21
    C = np.zeros((2,2,2,2)); C[0,0,0,0]=E1/den; C[1,1,1,1]=E2/den; C[0,0,1,1]=C[1,1,0,0]=nu12*E2/den
    C[0,1,0,1]=C[0,1,1,0]=C[1,0,0,1]=C[1,0,1,0]=G12
    R = np.array([[c,-s],[s,c]])
    Cb = np.einsum('ip,jq,kr,lt,pqrt->ijkl', R,R,R,R,C)
    G = np.einsum('ip,jq,pq->ij', R, R, np.diag([G13,G23]))
    Q = np.zeros((5,5)); V=[(0,0),(1,1),(0,1)]
    for a in range(3):
        for b in range(3):
            Q[a,b] = Cb[V[a][0],V[a][1],V[b][0],V[b][1]]
    Q[3,3]=G[1,1]; Q[3,4]=Q[4,3]=G[1,0]; Q[4,4]=G[0,0]
    return Q
for theta, prop, t in zip(stack, props, plyts):
    z0, z1 = z, z+t
    QL = QLspec(prop, theta)
    for x, w in zip(xs, ws):
        zz = 0.5*(z1-z0)*x + 0.5*(z1+z0); ww = 0.5*(z1-z0)*w
        A += QL*ww; B += QL*ww*zz; D += QL*ww*zz*zz
    z = z1
want = np.zeros((6,6)); want[:3,:3]=A[:3,:3]; want[:3,3:]=B[:3,:3]; want[3:,:3]=B[:3,:3]; want[3:,3:]=D[:3,:3]
scale = abs(want).max()
out = {"maxdiff_ABD_rel": float(abs(np.asarray(lam.ABD)-want).max()/scale),
       "maxdiff_E_rel": float(abs(np.asarray(lam.E)-A[3:,3:]).max()/abs(A[3:,3:]).max()),
       "t": float(lam.t), "t_expected": float(sum(plyts)),
       "ABDE_blocks_ok": bool(np.allclose(np.asarray(lam.ABDE)[:6,:6], lam.ABD) and np.allclose(np.asarray(lam.ABDE)[6:,6:], lam.E))}
'''
    r = run_real(script, {})
    bad = (r.get('maxdiff_ABD_rel', 0) > 1e-9 or r.get('maxdiff_E_rel', 0) > 1e-9
           or abs(r.get('t', 0) - r.get('t_expected', 0)) > 1e-12 or r.get('ABDE_blocks_ok') is False or r.get('raised'))
    r['reproduced'] = bool(bad)
    r['input'] = 'stack=[0,37,-52,90,15], plyts=[.1,.25,.17,.3,.05], offset=0.07, carbon/epoxy ply'
    return r


# --------------------------------------------------------------------------
def part_read_stack(led):
    """read_stack, both argument forms, N = 1..3 plies with symbolic angles, thicknesses, materials, offset.
    Lamina.rebuild and read_laminaprop are used through their contracts (proved above)."""
    func = F + 'laminate.py:read_stack'
    led.function(func)
    led.bounded_item('read_stack list construction (zip loop): ply count N in {1,2,3}; all other inputs symbolic')
    for N, form, history in itertools.product((1, 2, 3), ('per-ply', 'uniform', 'plyts+laminaprop', 'plyt+laminaprops'), ('fresh', 'after-another-laminate')):
        if form in ('plyts+laminaprop', 'plyt+laminaprops') and (history != 'fresh' or N == 1):
            continue
        if True:
            it = mk_interp()
            mod = it.module('compmech.composite.laminate')
            matmod = it.module('compmech.composite.matlamina')
            calls = []

            def c_laminaprop(itp, args, kw, calls=calls, matmod=matmod, it=it):
                tup = args[0]
                o = Obj(matmod.g['MatLamina'])
                o.name = 'mat%d' % len(calls)
                calls.append(tup)
                o.attrs.update(dict(e1=tup[0], e2=tup[1], nu12=tup[2], g12=tup[3], g13=tup[4], g23=tup[5],
                                    nu21=tup[2] * tup[1] / tup[0]))
                return o
            it.contracts['compmech.composite.matlamina.read_laminaprop'] = c_laminaprop
            th = [real('th%d' % i) for i in range(N)]
            d = real('offset')
            if form == 'per-ply':
                ts = [real('t%d' % i) for i in range(N)]
                mats = [tuple(real('%s_%d' % (n, i)) for n in ('E1', 'E2', 'nu12', 'G12', 'G13', 'G23')) for i in range(N)]
                kwargs = dict(plyts=ts, laminaprops=mats, offset=d)
            elif form == 'plyts+laminaprop':
                # mixed forms: a list for one of the two, a single value for the other
                ts = [real('t%d' % i) for i in range(N)]
                mat = tuple(real(n) for n in ('E1', 'E2', 'nu12', 'G12', 'G13', 'G23'))
                mats = [mat] * N
                kwargs = dict(plyts=ts, laminaprop=mat, offset=d)
            elif form == 'plyt+laminaprops':
                t = real('t')
                ts = [t] * N
                mats = [tuple(real('%s_%d' % (n, i)) for n in ('E1', 'E2', 'nu12', 'G12', 'G13', 'G23')) for i in range(N)]
                kwargs = dict(plyt=t, laminaprops=mats, offset=d)
                it.facts.append(to_z3(t) > 0)
            else:
                t = real('t')
                mat = tuple(real(n) for n in ('E1', 'E2', 'nu12', 'G12', 'G13', 'G23'))
                ts = [t] * N
                mats = [mat] * N
                kwargs = dict(plyt=t, laminaprop=mat, offset=d)
                it.facts.append(to_z3(t) > 0)
            for m in mats:
                it.facts += [to_z3(m[0]) > 0, to_z3(m[1]) > 0]
            f = mod.g['read_stack']
            it.facts += [to_z3(real('t_other')) > 0, to_z3(real('E1_other')) > 0, to_z3(real('E2_other')) > 0] + [to_z3(real('t_other%d' % i)) > 0 for i in range(4)]

            def run(f=f, th=th, kwargs=kwargs):
                if history != 'fresh':
                    # the function keeps no state between calls: an earlier, different laminate (four plies, other thickness and
                    # material, both argument forms) leaves the result unchanged
                    other = tuple(real(n + '_other') for n in ('E1', 'E2', 'nu12', 'G12', 'G13', 'G23'))
                    tho = [real('tho%d' % i) for i in range(4)]
                    it.call(f, [tho], dict(plyt=real('t_other'), laminaprop=other))
                    it.call(f, [tho], dict(plyts=[real('t_other%d' % i) for i in range(4)], laminaprops=[other] * 4, offset=real('offset_other')))
                return it.call(f, [th], kwargs)
            res = it.explore(run)
            tag = '%s,N=%d%s' % (form, N, '' if history == 'fresh' else ',' + history)
            for path, out in res:
                if out[0] == 'raise':
                    led.fail('%s/%s/no-exception' % (func, tag), func, {'raises': out[1].tname, 'args': [str(a) for a in out[1].eargs]},
                             signature='raise', replay=replay_constitutive())
                    continue
                lam = out[1].attrs
                # spec: z0 = -T/2 + offset ; per ply exact integrals of the rotated plane-stress stiffness
                T = sum(ts[1:], ts[0])
                z = -T * Fraction(1, 2) + d
                A = np.zeros((5, 5), dtype=object)
                B = np.zeros((5, 5), dtype=object)
                D = np.zeros((5, 5), dtype=object)
                for i in range(N):
                    arg = th[i] * shims.PI * Fraction(1, 180)
                    QL = SL.QL_matrix(*mats[i], shims.sym_cos(arg), shims.sym_sin(arg))
                    dA, dB, dD = SL.layer_integrals(QL, z, z + ts[i])
                    A, B, D = A + dA, B + dB, D + dD
                    z = z + ts[i]
                want = {'A': A[:3, :3], 'B': B[:3, :3], 'D': D[:3, :3], 'E': A[3:, 3:], 'offset': d}
                for key, w in want.items():
                    h = lam.get(key)
                    name = '%s/%s/%s' % (func, tag, key)
                    ok, why = values_equal_on_path(h, w, path) if h is not None else (False, 'attribute not set')
                    if ok:
                        led.ok(name, func, backend='normal-form(bounded N)')
                    else:
                        led.fail(name, func, {'residual': why}, signature=key, replay=replay_constitutive() if history == 'fresh' else replay_second_call())
                if N >= 2 and form == 'per-ply' and history == 'fresh':
                    lemma_code_level(led, func, it, f, th, ts, mats, d, lam)
            led.solver_time('z3-feasibility', it.solver_time)


def part_update(led):
    """the public update sequence on an EXISTING laminate: a ply angle and a ply thickness are changed, then Laminate.rebuild() and
    Laminate.calc_constitutive_matrix() -- the matrices are the integrals of the plies as they are now defined"""
    func = F + 'laminate.py:Laminate.rebuild'
    led.function(func)
    it = mk_interp()
    mod = it.module('compmech.composite.laminate')
    f = mod.g['read_stack']
    N = 2
    th = [real('th%d' % i) for i in range(N)]
    ts = [real('t%d' % i) for i in range(N)]
    mats = [tuple(real('%s_%d' % (n, i)) for n in ('E1', 'E2', 'nu12', 'G12', 'G13', 'G23')) for i in range(N)]
    for m in mats:
        it.facts += [to_z3(m[0]) > 0, to_z3(m[1]) > 0]
    d = real('offset')
    th_new, t_new = real('th_new'), real('t_new')
    it.facts += [to_z3(t_new) > 0] + [to_z3(t) > 0 for t in ts]

    def run():
        lam = it.call(f, [th], dict(plyts=ts, laminaprops=mats, offset=d))
        plies = lam.attrs['plies']
        plies[0].attrs['theta'] = th_new
        plies[1].attrs['t'] = t_new
        it.call(it.getattr(lam, 'rebuild'), [], {})
        it.call(it.getattr(lam, 'calc_constitutive_matrix'), [], {})
        return lam
    for path, out in it.explore(run):
        tag = 'after a ply angle and a ply thickness were changed,N=2'
        if out[0] == 'raise':
            led.fail('%s[%s]/no-exception' % (func, tag), func, {'raises': out[1].tname, 'args': [str(a) for a in out[1].eargs]}, signature='raise')
            continue
        lam = out[1].attrs
        th2, ts2 = [th_new, th[1]], [ts[0], t_new]
        T = ts2[0] + ts2[1]
        z = -T * Fraction(1, 2) + d
        A = np.zeros((5, 5), dtype=object); B = np.zeros((5, 5), dtype=object); D = np.zeros((5, 5), dtype=object)
        for i in range(N):
            arg = th2[i] * shims.PI * Fraction(1, 180)
            QL = SL.QL_matrix(*mats[i], shims.sym_cos(arg), shims.sym_sin(arg))
            dA, dB, dD = SL.layer_integrals(QL, z, z + ts2[i])
            A, B, D = A + dA, B + dB, D + dD
            z = z + ts2[i]
        for key, w in {'A': A[:3, :3], 'B': B[:3, :3], 'D': D[:3, :3], 'E': A[3:, 3:], 't': T}.items():
            h = lam.get(key)
            name = '%s[%s]/%s' % (func, tag, key)
            ok, why = values_equal_on_path(h, w, path) if h is not None else (False, 'attribute not set')
            led.ok(name, func, backend='normal-form(bounded N)') if ok else led.fail(name, func, {'residual': why}, signature='update:' + key, replay=replay_update())
    led.solver_time('z3-feasibility', it.solver_time)


def replay_update():
    if 'update' in _RC:
        return _RC['update']
    from ..pyreplay import run_real
    script = '''
import numpy as np
from compmech.composite.laminate import read_stack
lp = (142.5e9, 8.7e9, 0.28, 5.1e9, 5.1e9, 5.1e9)
lam = read_stack([0, 45], plyts=[1.e-4, 2.e-4], laminaprops=[lp, lp])
lam.plies[0].theta = 30.; lam.plies[1].t = 3.e-4
lam.rebuild(); lam.calc_constitutive_matrix()
ref = read_stack([30, 45], plyts=[1.e-4, 3.e-4], laminaprops=[lp, lp])
out = {'max_rel_deviation_ABD_from_a_fresh_laminate': float(abs(lam.ABD - ref.ABD).max() / abs(ref.ABD).max()), 't': float(lam.t), 't_fresh': float(ref.t)}
'''
    r = run_real(script, {})
    r['reproduced'] = bool(r.get('raised') or (r.get('max_rel_deviation_ABD_from_a_fresh_laminate') or 0) > 1e-9 or abs((r.get('t') or 0) - (r.get('t_fresh') or 0)) > 1e-12)
    r['input'] = 'read_stack([0,45]); plies[0].theta = 30; plies[1].t = 3e-4; rebuild(); calc_constitutive_matrix()  vs  read_stack([30,45], ...)'
    r['real_function'] = 'Laminate.rebuild + Laminate.calc_constitutive_matrix'
    _RC['update'] = r
    return r


def lemma_code_level(led, func, it, f, th, ts, mats, d, lam):
    """consequences named in the statement, checked on the real code for N plies (bounded in N)"""
    N = len(th)
    tag = 'N=%d' % N
    # offset shift: B(d) = B(0) + d*A ; D(d) = D(0) + 2d*B(0) + d^2*A
    r0 = it.explore(lambda: it.call(f, [th], dict(plyts=ts, laminaprops=mats, offset=0)))
    if r0 and r0[0][1][0] == 'return':
        l0 = r0[0][1][1].attrs
        ok1, why1 = values_equal(lam['B'], l0['B'] + l0['A'] * d)
        ok2, why2 = values_equal(lam['D'], l0['D'] + l0['B'] * (2 * d) + l0['A'] * (d * d))
        ok3, why3 = values_equal(lam['A'], l0['A'])
        for nm, ok, why in (('offset-shift-B', ok1, why1), ('offset-shift-D', ok2, why2), ('offset-leaves-A', ok3, why3)):
            name = '%s/lemma/%s/%s' % (func, nm, tag)
            led.ok(name, func, backend='normal-form(bounded N)') if ok else led.fail(name, func, {'residual': why}, signature=nm, replay=replay_constitutive())
    # A independent of ply order (swap first two plies)
    perm = [1, 0] + list(range(2, N))
    rp = it.explore(lambda: it.call(f, [[th[i] for i in perm]], dict(plyts=[ts[i] for i in perm], laminaprops=[mats[i] for i in perm], offset=d)))
    if rp and rp[0][1][0] == 'return':
        ok, why = values_equal(rp[0][1][1].attrs['A'], lam['A'])
        name = '%s/lemma/A-order-independent/%s' % (func, tag)
        led.ok(name, func, backend='normal-form(bounded N)') if ok else led.fail(name, func, {'residual': why}, signature='A-order', replay=replay_constitutive())
    # mid-plane symmetric stack has B = 0 (offset 0): mirror the stack
    ths = th + th[::-1]
    tss = ts + ts[::-1]
    mts = mats + mats[::-1]
    rs = it.explore(lambda: it.call(f, [ths], dict(plyts=tss, laminaprops=mts, offset=0)))
    if rs and rs[0][1][0] == 'return':
        Bm = rs[0][1][1].attrs['B']
        ok, why = values_equal(Bm, np.zeros((3, 3), dtype=object))
        name = '%s/lemma/symmetric-stack-B=0/%s' % (func, 'N=%d' % (2 * N))
        led.ok(name, func, backend='normal-form(bounded N)') if ok else led.fail(name, func, {'residual': why}, signature='symB', replay=replay_constitutive())


# --------------------------------------------------------------------------
def part_spec_lemmas(led):
    """lemmas over the contracts (spec level, all N by induction on the recurrence proved for the code)"""
    func = 'lemma(C01)'
    # (1) offset shift, inductive step: with z' = z + d
    z, t, d = real('z'), real('t'), real('d')
    Q = real('Q')
    a0, b0, d0 = SL.layer_integrals(np.array([Q], dtype=object), z, z + t)
    a1, b1, d1 = SL.layer_integrals(np.array([Q], dtype=object), z + d, z + d + t)
    for nm, lhs, rhs in (('A', a1[0], a0[0]), ('B', b1[0], b0[0] + d * a0[0]), ('D', d1[0], d0[0] + 2 * d * b0[0] + d * d * a0[0])):
        ok, why = values_equal(lhs, rhs)
        name = '%s/offset-shift-step/%s' % (func, nm)
        if ok:
            from .. import smt
            v, _, dt = smt.abstract_identity(normal(lhs), normal(rhs))
            led.solver_time('z3', dt)
            led.ok(name, func, backend='z3') if v == 'valid' else led.error('z3 and normal form disagree on ' + name)
        else:
            led.fail(name, func, {'residual': why})
    # (2) mirror pair cancels in B: layer [z, z+t] and its mirror [-z-t, -z]
    _, bm, _ = SL.layer_integrals(np.array([Q], dtype=object), -z - t, -z)
    ok, why = values_equal(b0[0] + bm[0], P.const(0))
    led.ok(func + '/mirror-pair-B-cancels', func) if ok else led.fail(func + '/mirror-pair-B-cancels', func, {'residual': why})
    # (3) positive definiteness: Q positive definite for admissible constants (z3, nonlinear real arithmetic)
    E1, E2, nu, G = z3.Reals('E1 E2 nu G')
    den = 1 - nu * nu * E2 / E1
    q11, q22, q12 = E1 / den, E2 / den, nu * E2 / den
    from ..smt import valid
    st, mdl, dt = valid(z3.Implies(z3.And(E1 > 0, E2 > 0, G > 0, den > 0), z3.And(q11 > 0, q11 * q22 - q12 * q12 > 0, G > 0)))
    led.solver_time('z3', dt)
    if st == 'valid':
        led.ok(func + '/plane-stress-Q-positive-definite', func, backend='z3')
    elif st == 'invalid':
        led.fail(func + '/plane-stress-Q-positive-definite', func, {'model': str(mdl)})
    else:
        led.undecide(func + '/plane-stress-Q-positive-definite', func, str(mdl))
    # rotation is a congruence with the strain transformation matrix M (det 1):  Qbar == M^T Q M
    c, s = P.atom('cos(x)'), P.atom('sin(x)')
    Qs = {k: real('Q' + k) for k in ('11', '12', '22', '66')}
    Qb = SL.rotated_Q(Qs, c, s)
    M = np.array([[c * c, s * s, c * s], [s * s, c * c, -c * s], [-2 * c * s, 2 * c * s, c * c - s * s]], dtype=object)
    Qm = np.array([[Qs['11'], Qs['12'], 0], [Qs['12'], Qs['22'], 0], [0, 0, Qs['66']]], dtype=object)
    cong = M.T.dot(Qm).dot(M)
    keys = [['11', '12', '16'], ['12', '22', '26'], ['16', '26', '66']]
    allok = True
    for i in range(3):
        for j in range(3):
            ok, why = values_equal(cong[i, j], Qb[keys[i][j]])
            allok = allok and ok
    detM = (M[0, 0] * (M[1, 1] * M[2, 2] - M[1, 2] * M[2, 1]) - M[0, 1] * (M[1, 0] * M[2, 2] - M[1, 2] * M[2, 0])
            + M[0, 2] * (M[1, 0] * M[2, 1] - M[1, 1] * M[2, 0]))
    okd, _ = values_equal(detM, P.const(1))
    led.ok(func + '/rotation-is-congruence-with-unit-determinant', func) if (allok and okd) else led.fail(func + '/rotation-is-congruence-with-unit-determinant', func, {'congruence': allok, 'det==1': okd})
    # per-ply quadratic form identity: eps^T A_k eps + 2 eps^T B_k kap + kap^T D_k kap == int (eps + z kap)^T Q (eps + z kap) dz
    e, kp = real('eps'), real('kap')
    lhs = e * e * a0[0] + 2 * e * kp * b0[0] + kp * kp * d0[0]
    zm = z + t * Fraction(1, 2)
    rhs = Q * t * ((e + zm * kp) ** 2 + t * t * Fraction(1, 12) * kp * kp)
    ok, why = values_equal(lhs, rhs)
    led.ok(func + '/ply-energy-is-a-sum-of-squares', func) if ok else led.fail(func + '/ply-energy-is-a-sum-of-squares', func, {'residual': why})
    led.assume('C01: positive definiteness of the 6x6 follows from the three lemmas (Q>0, congruence with det 1, per-ply sum-of-squares identity) '
               'by the standard integral argument; that last inference is not machine-checked')


def body(led):
    led.assume('A3: numpy sin/cos/deg2rad satisfy sin^2+cos^2=1 and the double-angle / quarter-turn shift laws')
    led.assume('A4: numpy array construction, slicing, concatenate, += on arrays behave as documented (numpy object arrays run the same numpy code on symbolic entries)')
    led.trust('cmverif symbolic executor (pysym) and exact normaliser (poly); z3 4.x/5.x for side obligations')
    part_laminaprop(led)
    part_lamina(led)
    try:
        part_constitutive(led)
    except CheckerError as e:
        # the ply loop is written in a form the induction schema does not cover (e.g. indexed by enumerate): the claim for every ply
        # count is dropped, the instances below (N = 1, 2, 3 and the lemmas at N = 4, 6) still decide what they cover
        led.bounded_item('Laminate.calc_constitutive_matrix: the ply loop is outside the induction schema (%s); only the instances N in {1,2,3} '
                         '(read_stack) and the lemma instances are checked on this tree' % str(e)[:120])
    part_read_stack(led)
    part_update(led)
    part_spec_lemmas(led)
    # canary: a wrong spec coefficient must be refuted
    ok, _ = values_equal(real('a') * Fraction(1, 3), real('a') * Fraction(1, 2))
    led.canary('1/3 vs 1/2 layer weight', not ok)


def main():
    return run_check('C01', body)


if __name__ == '__main__':
    sys.exit(main())
