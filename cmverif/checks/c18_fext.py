"""C18: ConeCyl.calc_fext against the virtual work of the loads on the displacement field that cfuvw reports.

The Python method is executed symbolically (real source) with the real ``fg`` of the model's commons module (real .pyx text)
for *concrete series orders* (M1, M2, N2) and everything else symbolic: positions and components of the point forces, load
factor, pressure, torque, axial line load with all its harmonics, prescribed shortening/twist, geometry.  The expected entries
come from the generic (symbolic i1, i2, j2) basis functions read off ``cfuvw`` -- a different function of the same file --
integrated with the orthogonality lemmas; they are instantiated for each amplitude afterwards.

Bounded in the series orders only (stated in the evidence); the loops of calc_fext do nothing but visit every term once.
"""
import itertools
from fractions import Fraction

from ..core import CheckerError
from ..poly import P, normal
from .. import kharness as K, pysym, shims, trig, shellk as SK
from ..pysym import real, integer, to_z3, SymRaise, Module
from . import py_conecyl as PC
from .c16 import model_db, modpath

FE = PC.CC + 'calc_fext'
ORDERS = [(2, 2, 2)]
STATIC_MODELS = ['clpt_donnell_bc1', 'clpt_donnell_bc2', 'clpt_donnell_bc3', 'clpt_donnell_bc4', 'clpt_donnell_bcn',
                 'iso_clpt_donnell_bc2', 'iso_clpt_donnell_bc3',
                 'clpt_sanders_bc1', 'clpt_sanders_bc2', 'clpt_sanders_bc3', 'clpt_sanders_bc4',
                 'fsdt_donnell_bc1', 'fsdt_donnell_bc2', 'fsdt_donnell_bc3', 'fsdt_donnell_bc4', 'fsdt_donnell_bcn', 'fsdt_sanders_bcn']


def x_integrate(p, lo, hi):
    """int_lo^hi p dx for p a polynomial in x times at most one sin/cos(a*x) per monomial (a free of x, a != 0 assumed by the
    caller); by parts:  int x^n cos(ax) = x^n sin(ax)/a - n/a int x^(n-1) sin(ax),  int x^n sin(ax) = -x^n cos(ax)/a + n/a int x^(n-1) cos(ax)"""
    x = P.atom('x')

    def anti(n, kind, base):
        if kind is None:
            return x ** (n + 1) * Fraction(1, n + 1)
        a = base.diff('x')
        s, c = trig._atom('sin', base), trig._atom('cos', base)
        if n == 0:
            return s / a if kind == 'cos' else -c / a
        if kind == 'cos':
            return x ** n * s / a - (n / a) * anti(n - 1, 'sin', base)
        return -(x ** n) * c / a + (n / a) * anti(n - 1, 'cos', base)
    out = P({})
    for mono, coef in trig.tnormal(p).t.items():
        n = 0
        tr = None
        rest = []
        for a, e in mono:
            if a == 'x':
                if e < 0:
                    raise CheckerError('x_integrate: negative power of x')
                n = e
            elif a in trig.TRIG and 'x' in trig.TRIG[a][1].atoms():
                if tr is not None or e != 1:
                    raise CheckerError('x_integrate: product of trigonometric factors in x')
                tr = a
            else:
                if a.startswith('inv[') and trig._depends(a, {'x'}):
                    raise CheckerError('x_integrate: x in a denominator')
                rest.append((a, e))
        kind, base = (trig.TRIG[tr] if tr else (None, None))
        if base is not None and normal(base - base.diff('x') * x).t:
            raise CheckerError('x_integrate: trig argument not linear homogeneous in x')
        F = anti(n, kind, base)
        val = trig.tsubs(F, {'x': hi}) - trig.tsubs(F, {'x': lo})
        out = out + P({tuple(rest): coef}) * val
    return trig.tnormal(out)


def theta_parts(f, jname):
    """f(t) = c + a*sin(j t) + b*cos(j t)  ->  (c, a, b); anything else is rejected"""
    c, a, b = P({}), P({}), P({})
    for mono, coef in trig.tnormal(f).t.items():
        th = [(x, e) for x, e in mono if x in trig.TRIG and 't' in trig.TRIG[x][1].atoms()]
        rest = P({tuple((x, e) for x, e in mono if (x, e) not in th): coef})
        if not th:
            c = c + rest
        elif len(th) == 1 and th[0][1] == 1:
            kind, base = trig.TRIG[th[0][0]]
            if jname is None or normal(base - P.atom(jname) * P.atom('t')).t:
                raise CheckerError('theta_parts: unexpected frequency %s' % base.text())
            if kind == 'sin':
                a = a + rest
            else:
                b = b + rest
        else:
            raise CheckerError('theta_parts: non-harmonic dependence on t')
    return c, a, b


def instantiate(expr, fam, idx):
    if fam == 1:
        return trig.tsubs(expr, {'i1': P.const(idx[0])})
    if fam == 2:
        return trig.tsubs(expr, {'i2': P.const(idx[0]), 'j2': P.const(idx[1])})
    return trig.tnormal(expr)


def dofs_of(consts, M1, M2, N2):
    out = []
    for p in range(consts['num0']):
        out.append((0, (), p))
    for i1 in range(consts['i0'], M1 + consts['i0']):
        for p in range(consts['num1']):
            out.append((1, (i1,), p))
    for j2 in range(consts['j0'], N2 + consts['j0']):
        for i2 in range(consts['i0'], M2 + consts['i0']):
            for p in range(consts['num2']):
                out.append((2, (i2, j2), p))
    return out


def check_model(led, model, pdC, pdT):
    db = model_db()
    commons = modpath(db[model]['commons'])
    is_fsdt = 'fsdt' in model
    it = PC.mk()
    # the commons module of this model is the real one (field + fg are executed / read from the .pyx text)
    it.modules.pop(commons, None)
    it.contracts['extern.sin'] = lambda itp, a, kw: trig.tsin(a[0])
    it.contracts['extern.cos'] = lambda itp, a, kw: trig.tcos(a[0])
    it.builtins['PTR'] = lambda arr, *idx: arr
    it.np.sin, it.np.cos = trig.tsin, trig.tcos
    it.shims['numpy.sin'], it.shims['numpy.cos'] = trig.tsin, trig.tcos
    cm, _ = SK.load(it, commons)
    it.modules['compmech.conecyl.' + ('fsdt' if is_fsdt else 'clpt')].g[db[model]['commons']] = cm
    from .. import kernel
    it.loop_modes[('*', '*')] = kernel.GenericLoop(counters=(), local=True)
    ftab, finfo = SK.field_table(it, commons, width2=db[model]['num2'])
    consts = dict(finfo['consts'])
    lab_f = 'compmech/conecyl/%s/%s.pyx:cfuvw' % ('fsdt' if is_fsdt else 'clpt', db[model]['commons'])
    led.function(lab_f)
    led.function('compmech/conecyl/%s/%s.pyx:fg' % ('fsdt' if is_fsdt else 'clpt', db[model]['commons']))
    stride_ok = all(consts[k] == db[model][k] for k in ('num0', 'num1', 'num2', 'i0', 'j0'))
    nm = '%s/amplitude-layout-equals-modelDB[%s]' % (lab_f, model)
    if stride_ok:
        if not pdC and not pdT:
            led.ok(nm, lab_f)
    elif pdC or pdT:
        return
    else:
        led.fail(nm, lab_f, {'commons module': {k: consts[k] for k in ('num0', 'num1', 'num2', 'i0', 'j0')},
                             'modelDB / linear module': {k: db[model][k] for k in ('num0', 'num1', 'num2', 'i0', 'j0')},
                             'meaning': 'cfuvw / fg address the amplitude vector with another stride than the matrices and get_size()'},
                 signature='layout')
        return
    it.loop_modes.pop(('*', '*'), None)
    for (M1, M2, N2) in ORDERS:
        r2, L, alphadeg = real('r2'), real('L'), real('alphadeg')
        xf, tf, fx, ft, fz = (real(n) for n in ('xf', 'tf', 'fx', 'ft', 'fz'))
        xg, tg, gx, gt, gz = (real(n) for n in ('xg', 'tg', 'gx', 'gt', 'gz'))
        inc, Pc, Pi, Tc, Ti, uTM, thT = (real(n) for n in ('inc', 'P', 'P_inc', 'T', 'T_inc', 'uTM', 'thetaTdeg'))
        nxx = [real('Nxx%d' % k) for k in range(2 * N2 + 1)]
        it.facts += [to_z3(r2) > 0, to_z3(L) > 0, to_z3(alphadeg) > 0, to_z3(alphadeg) < 90, to_z3(shims.PI) > 3]
        dofs = dofs_of(consts, M1, M2, N2)
        size = len(dofs)
        excl = ([0] if pdC else []) + ([1] if pdT else []) + [2]
        free = [k for k in range(size) if k not in excl]
        import numpy as np
        kuk = np.empty((len(free), 3), dtype=object)
        for a_ in range(len(free)):
            for b_ in range(3):
                kuk[a_, b_] = real('Kuk_%d_%d' % (free[a_], b_))
        use_P = not is_fsdt

        def run():
            cc = PC.new_cc(it, model=model, alphadeg=alphadeg, r2=r2, L=L, m1=M1, m2=M2, n2=N2, pdC=pdC, pdT=pdT,
                           stack=[real('th0')], plyt=real('plyt'), laminaprop=(real('E1'),),
                           forces=[[xf, tf, fx, ft, fz]], forces_inc=[[xg, tg, gx, gt, gz]],
                           P=(Pc if use_P else 0.), P_inc=(Pi if use_P else 0.), T=Tc, T_inc=Ti, uTM=uTM, thetaTdeg=thT)
            it.setattr(cc, 'Nxxtop', np.array(nxx, dtype=object))
            it.setattr(cc, 'k0', pysym.Opaque('k0', shape=(size, size)))
            it.setattr(cc, 'k0uk', kuk)
            return it.call(it.getattr(cc, 'calc_fext'), [], dict(inc=inc, silent=True))
        res = it.explore(run)
        arad = alphadeg * shims.PI * Fraction(1, 180)
        sina, cosa = trig.tsin(arad), trig.tcos(arad)
        tag = '%s,pdC=%s,pdT=%s,orders=%s' % (model, pdC, pdT, (M1, M2, N2))
        rets = [(p, o) for p, o in res if o[0] == 'return']
        for path, out in res:
            if out[0] == 'raise':
                led.fail('%s[%s]/no-exception' % (FE, tag), FE, {'raises': out[1].tname, 'args': [str(a)[:120] for a in out[1].eargs],
                                                                'path': [repr(c) for c in path.conds][-3:]}, signature='raise:' + out[1].tname)
        # expected entries
        tot_P = Pc + inc * Pi
        tot_T = Tc + inc * Ti
        for path, out in rets:
            fext = out[1]
            conds = [repr(c) for c in path.conds if 'P' in repr(c) or 'T' in repr(c)]
            zeroP = any(repr(c).startswith('(1*P + 1*P_inc*inc == 0') or '== 0' in repr(c) and 'P' in repr(c) for c in path.conds if hasattr(c, 'kind'))
            if len(fext) != len(free):
                led.fail('%s[%s]/length' % (FE, tag), FE, {'len': len(fext), 'expected': len(free)}, signature='len')
                continue
            pathP = tot_P if use_P else P({})
            pathT = tot_T
            for c in path.conds:
                if getattr(c, 'kind', None) == 'cmp' and c.a == '==':
                    if use_P and (normal(c.b - tot_P).is_zero() or normal(c.b + tot_P).is_zero()):
                        pathP = P({})
                    if normal(c.b - tot_T).is_zero() or normal(c.b + tot_T).is_zero():
                        pathT = P({})
            suffix = '' if len(rets) == 1 else '|' + ('P=0' if pathP.is_zero() else 'P!=0') + (',T=0' if pathT.is_zero() else ',T!=0')
            for pos, A in enumerate(free):
                fam, idx, p = dofs[A]
                lv, fld = ftab[(fam, p)]
                fld = {k: trig.tsubs(v, {'cosa': cosa}) for k, v in fld.items()}
                z = P({})
                u, v, w = fld.get('u', z), fld.get('v', z), fld.get('w', z)
                jn = lv[1] if fam == 2 else None
                want = P({})
                # point forces
                for (x_, t_, a_, b_, c_, fac) in ((xf, tf, fx, ft, fz, P.const(1)), (xg, tg, gx, gt, gz, inc)):
                    at = lambda f: instantiate(trig.tsubs(instantiate(f, fam, idx), {'x': x_, 't': t_, 'tLA': P.const(0)}), 0, ())
                    want = want + fac * (a_ * at(u) + b_ * at(v) + c_ * at(w))
                # axial line load at x = 0 (only when the shortening is not prescribed)
                if not pdC:
                    u0 = trig.tsubs(u, {'x': P.const(0)})
                    if fam == 0 and p == 2:
                        cpart = apart = bpart = P({})
                    else:
                        cpart, apart, bpart = theta_parts(u0, jn)
                    term = 2 * shims.PI * cpart * nxx[0]
                    if fam == 2:
                        j = idx[1]
                        term = term + shims.PI * (apart * nxx[1 + 2 * (j - consts['j0'])] + bpart * nxx[2 + 2 * (j - consts['j0'])])
                    want = want + inc * r2 * instantiate(term, fam, idx)
                # pressure on w over the surface, r = r2 + x sin(alpha)
                if not pathP.is_zero():
                    if fam == 0 and p == 2:
                        cw = P({})
                    else:
                        cw, aw, bw = theta_parts(w, jn)
                    if not cw.is_zero():
                        if fam == 1 and idx[0] == 0:
                            val = P({})
                        else:
                            val = x_integrate(cw * (r2 + P.atom('x') * sina), P.const(0), L)
                        want = want + pathP * 2 * shims.PI * instantiate(val, fam, idx)
                # torque: uniform shear flow T/(2 pi r2^2) at x = 0 (only when the twist is not prescribed)
                if not pdT and not pathT.is_zero():
                    v0 = trig.tsubs(v, {'x': P.const(0)})
                    cv, av, bv = theta_parts(v0, jn) if not (fam == 0 and p == 2) else (P({}), None, None)
                    want = want + pathT / (2 * shims.PI * r2 * r2) * r2 * 2 * shims.PI * instantiate(cv, fam, idx)
                # prescribed amplitudes
                if pdC:
                    want = want - inc * uTM * kuk[pos, 0]
                if pdT:
                    want = want - inc * (thT * shims.PI * Fraction(1, 180)) * kuk[pos, 1]
                got = fext[pos]
                got = got if isinstance(got, P) else P.const(got)
                ok, bad = K.compare(trig.tnormal(got), trig.tnormal(want))
                name = '%s[%s]%s/entry(%d,%s,%d)==virtual-work' % (FE, tag, suffix, fam, ','.join(str(i) for i in idx), p)
                if ok:
                    led.ok(name, FE, backend='symbolic-instance(bounded in series order)')
                else:
                    led.fail(name, FE, {'code': str(got)[:400], 'contract': str(trig.tnormal(want))[:400], 'difference': bad},
                             backend='symbolic-instance(bounded in series order)', signature='fext:%d,%d' % (fam, p))


def _job(led, j):
    check_model(led, *j)
    fails = [kw for name, a, kw in getattr(led, 'calls', []) if name == 'fail' and kw.get('replay') is None and 'calc_fext' in a[0]]
    thorough = getattr(led, 'tier', 'quick') == 'thorough'
    if not fails and not thorough:
        return
    from .. import pyreplay, shell_oracle as O
    model, pdC, pdT = j
    pay = dict(m1=2, m2=2, n2=2, r2=250., H=500., alphadeg=15., laminaprop=[123.55e3, 8.708e3, 0.319, 5.695e3, 5.695e3, 5.695e3],
               stack=[30, -30, 45], plyt=0.125, model=model, pdC=pdC, pdT=pdT, T=1000., P=(0. if 'fsdt' in model else 0.05),
               Nxxtop=[10., 1., 2., 3., 4.], forces=[[100., 30., 1., 2., 3.]], uTM=0.4, thetaTdeg=1.2)
    if model.startswith('iso_'):
        pay['iso'] = [71e3, 0.33, 2.]
    try:
        r = pyreplay.run_real(O.FEXT, pay)
        rep = {'reproduced': bool(r.get('n_mismatch')), 'input': pay, 'result': r, 'real_function': 'ConeCyl.calc_fext vs quadrature of the work on fg'}
    except Exception as e:
        rep = {'reproduced': False, 'replay_error': repr(e)}
    for kw in fails:
        kw['replay'] = rep
    if thorough and model in ('clpt_donnell_bcn',):
        return          # module not built
    if thorough:
        name = 'compmech/conecyl (real package):%s/numeric-cross-check/calc_fext-equals-quadrature-of-the-work[pdC=%s,pdT=%s]' % (model, pdC, pdT)
        led.bounded_item('numeric cross-check of calc_fext on the real package (thorough tier): one cone, orders (2,2,2), one load set')
        if 'result' in rep and not (rep['result'].get('raised') or rep['result'].get('replay_error')):
            if not rep['reproduced']:
                led.ok(name, FE, backend='numeric(bounded)')
            elif fails:
                led.ok(name + '/agrees-with-the-refuted-proof-obligations', FE, backend='numeric(bounded)')
            else:
                led.error('%s: numeric mismatch (%s) although every proof obligation was discharged' % (name, str(rep['result'])[:300]))
        else:
            led.error('%s could not run: %s' % (name, str(rep)[:300]))


def check(led):
    led.function(FE)
    # instance at the orders (2, 2, 2) with the REAL fg and numpy's own delete / dot on symbolic entries; the proof for every series order is in
    # c18_fext_any (vectors in decoded coordinates, fg through the contract proved there)
    led.assume('A6: orthogonality of {1, sin(j t), cos(j t)} over a full period; the axial load is the meridional line load Nxxtop(theta) at '
               'x = 0 (Fourier coefficients Nxxtop[0], Nxxtop[2j-1] (sin), Nxxtop[2j] (cos)), the torque is the uniform shear flow '
               'T/(2 pi r2^2) at x = 0, the pressure acts on w over the surface element r dtheta dx')
    from .. import parallel
    jobs = [(m, c, t) for m in STATIC_MODELS for c in (False, True) for t in (False, True)]
    only = __import__('os').environ.get('C18_MODELS')
    if only:
        jobs = [j for j in jobs if j[0] in only.split(',')]
    parallel.run(led, _job, jobs)
