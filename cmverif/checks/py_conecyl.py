"""Python-layer harness for compmech/conecyl/conecyl.py: the real ConeCyl methods are executed symbolically; the compiled
kernel modules (compmech.conecyl.clpt.*, .fsdt.*) are replaced by stub modules whose functions are external functions with
contracts (their own contracts are proved in c16 / c17 / c18 on the .pyx text)."""
import ast
import os

from ..core import REPO, CheckerError
from ..poly import P, normal
from .. import pysym, shims
from ..pysym import Interp, Module, ExternalFunc, Obj, Opaque, real, integer, to_z3, SymRaise

CC = 'compmech/conecyl/conecyl.py:ConeCyl.'
KERNEL_FUNCS = ('fk0', 'fk0_cyl', 'fkG0', 'fkG0_cyl', 'fk0edges', 'fg', 'fuvw', 'fstrain', 'fstress',
                'calc_k0L', 'calc_kG', 'calc_kLL', 'calc_fint_0L_L0_LL')


def package_modules(sub):
    path = os.path.join(REPO, 'compmech/conecyl', sub, '__init__.py')
    tree = ast.parse(open(path).read())
    for node in tree.body:
        if isinstance(node, ast.Assign) and isinstance(node.targets[0], ast.Name) and node.targets[0].id == 'modules':
            return [e.value for e in node.value.elts]
    raise CheckerError('no modules list in %s' % path)


def mk():
    it = Interp()
    shims.install(it)
    for sub in ('clpt', 'fsdt'):
        pkgname = 'compmech.conecyl.' + sub
        pkg = Module(pkgname, os.path.join(REPO, 'compmech/conecyl', sub, '__init__.py'), 'pkg')
        pkg.loaded = True
        for mn in package_modules(sub):
            sm = Module(pkgname + '.' + mn, os.path.join(REPO, 'compmech/conecyl', sub, mn + '.pyx'), 'pyx')
            sm.loaded = True
            for fn in KERNEL_FUNCS:
                sm.g[fn] = ExternalFunc('%s.%s.%s' % (pkgname, mn, fn))
            it.modules[sm.name] = sm
            pkg.g[mn] = sm
        pkg.g['__all__'] = list(k for k in pkg.g)
        it.modules[pkgname] = pkg
    it.contracts['compmech.logger.msg'] = lambda itp, a, kw: None
    it.contracts['compmech.logger.warn'] = lambda itp, a, kw: None
    return it


def new_cc(it, **attrs):
    cls = it.module('compmech.conecyl.conecyl').g['ConeCyl']
    cc = it.call(cls, [], {})
    for k, v in attrs.items():
        it.setattr(cc, k, v)
    return cc
