"""C05 for complete shells: ConeCyl.lb (real source, symbolic execution; eigen-solver contracts of eigctx).

Contract: with K = k0 (+ the fixed part of the geometric stiffness for the combined load cases) and KG the load-proportional
geometric stiffness, both restricted to the series amplitudes [num0:, num0:] (the first three amplitudes are prescribed / carry
the pre-buckling state), the method stores  eigvals = -1/mu  and the modes of  KG v = mu K v  -- after restricting both matrices
to the non-null columns of K when the first solver call fails, modes scattered back and zero elsewhere -- with num0 zero rows
stacked on top.
"""
from ..poly import P
from ..pycheck import keep_matrix as _keep_matrix
from .. import pysym, shims, absnp, eigctx
from ..pysym import real, integer, to_z3, SymRaise
from ..absnp import AArr, T
from . import py_conecyl as PC

LB = PC.CC + 'lb'


def mk():
    it = PC.mk()
    absnp.install(it)
    log = []
    eigctx.install(it, log)
    it.algebraic_minmax = True
    it.contracts['scipy.sparse.csr_matrix'] = _keep_matrix
    return it, log


def _implied(it, path, cond):
    import z3
    if isinstance(cond, bool):
        return cond
    s = z3.Solver()
    s.set('timeout', 10000)
    for f in it.facts:
        s.add(f)
    for c in path.conds:
        s.add(pysym.cond_z3(c) if isinstance(c, pysym.Cond) else c)
    s.add(z3.Not(pysym.cond_z3(cond)))
    return s.check() == z3.unsat


_REPLAY = {}


def replay_small(clc, meth='lb'):
    """the smallest shell model (12 amplitudes, 9 active) with the default number of requested modes"""
    if (clc, meth) in _REPLAY:
        return _REPLAY[(clc, meth)]
    from .. import pyreplay, shell_oracle as O
    script = O.COMMON + """
cc = make(payload)
cc.num_eigvalues = payload['k']; cc.P = 0.01; cc.T = 10.
try:
    getattr(cc, payload.get('meth', 'lb'))(combined_load_case=payload['clc'])
    out = {'returned': True, 'n_eig': int(len(cc.eigvals)), 'size': cc.get_size()}
except Exception as e:
    out = {'raised_in_lb': type(e).__name__ + ': ' + str(e)[:200], 'size': cc.get_size(), 'k': payload['k']}
"""
    pay = dict(m1=1, m2=1, n2=1, r2=250., H=500., alphadeg=0., model='clpt_donnell_bc1', k=50, clc=clc, meth=meth,
               laminaprop=[123.55e3, 8.708e3, 0.319, 5.695e3, 5.695e3, 5.695e3], stack=[30, -30, 45], plyt=0.125)
    r = pyreplay.run_real(script, pay)
    _REPLAY[(clc, meth)] = {'reproduced': 'raised_in_lb' in r, 'input': pay, 'result': r, 'real_function': 'ConeCyl.' + meth}
    return _REPLAY[(clc, meth)]


def check(led):
    # ConeCyl.eigen is a second copy of the same wrapper (its c / kL / kG parameters are not used by the code): same contract
    for meth in ('lb', 'eigen'):
        _check(led, meth)


def _check(led, meth):
    LB = PC.CC + meth
    led.function(LB)
    from .c05 import raise_signature
    import itertools
    import numpy as np
    for clc, load in itertools.product((None, 1, 2, 3), ('Fc', 'Nxxtop')):
        if load == 'Nxxtop' and clc not in (None, 1):
            continue
        it, log = mk()
        seen_def = {}
        n = integer('size')
        num = integer('num_eigvalues')
        it.facts += [to_z3(n) >= 9, to_z3(n) <= 4000, to_z3(num) >= 1, to_z3(num) <= 50, to_z3(real('r2')) > 0, to_z3(real('L')) > 0]
        mats = {k: AArr((n, n), k) for k in ('k0', 'kG0', 'kG0_Fc', 'kG0_P', 'kG0_T')}

        def linmat(itp, a, kw):
            cc = a[0]
            nx_ = cc.attrs.get('Nxxtop')
            seen_def['Fc'] = cc.attrs.get('Fc')
            seen_def['Nxxtop'] = None if nx_ is None else [str(x) for x in np.asarray(nx_, dtype=object).reshape(-1)]
            if kw.get('combined_load_case') != clc:
                raise pysym.CheckerError('lb passes combined_load_case=%r' % (kw.get('combined_load_case'),))
            itp.setattr(cc, 'k0', mats['k0'])
            if clc:
                for k in ('kG0_Fc', 'kG0_P', 'kG0_T'):
                    itp.setattr(cc, k, mats[k])
            else:
                itp.setattr(cc, 'kG0', mats['kG0'])
            return None
        it.contracts['compmech.conecyl.conecyl.ConeCyl._calc_linear_matrices'] = linmat

        def run():
            del log[:]
            loadkw = dict(Fc=real('Fc')) if load == 'Fc' else dict(Nxxtop=np.array([real('Nxx%d' % i) for i in range(3)], dtype=object))
            cc = PC.new_cc(it, model='clpt_donnell_bc1', alphadeg=0., r2=real('r2'), L=real('L'), num_eigvalues=num, n2=1,
                           stack=[real('th0')], plyt=real('plyt'), laminaprop=(real('E1'),), **loadkw)
            try:
                it.call(it.getattr(cc, meth), [], dict(combined_load_case=clc))
            except SymRaise as e:
                e.calls = list(log)
                raise
            return cc, list(log)
        res = it.explore(run)
        fixed = {None: None, 1: 'kG0_T', 2: 'kG0_P', 3: 'kG0_Fc'}[clc]
        prop = {None: 'kG0', 1: 'kG0_Fc', 2: 'kG0_Fc', 3: 'kG0_T'}[clc]
        suf = ('suffix', '3')
        kterm = ('index', 'k0', (suf, suf)) if fixed is None else ('index', ('+', 'k0', fixed), (suf, suf))
        kgterm = ('index', prop, (suf, suf))
        for path, out in res:
            name = '%s[combined_load_case=%s%s]' % (LB, clc, '' if load == 'Fc' else ',axial load given by Nxxtop')
            if out[0] != 'raise':
                # the reference load is the caller's: nothing replaces it before the geometric stiffness is integrated
                want_def = {'Fc': real('Fc') if load == 'Fc' else None, 'Nxxtop': None if load == 'Fc' else ['P(1*Nxx%d)' % i for i in range(3)]}
                bad = []
                if load == 'Fc' and not (isinstance(seen_def.get('Fc'), P) and (seen_def['Fc'] - real('Fc')).is_zero()):
                    bad.append('Fc = %s when the matrices are integrated' % (seen_def.get('Fc'),))
                if load == 'Nxxtop':
                    if seen_def.get('Fc') is not None:
                        bad.append('Fc = %s although the caller defined the axial load through Nxxtop (it overrides Nxxtop[0])' % (seen_def.get('Fc'),))
                    if seen_def.get('Nxxtop') != [str(real('Nxx%d' % i)) for i in range(3)]:
                        bad.append('Nxxtop = %s when the matrices are integrated' % (seen_def.get('Nxxtop'),))
                nm2 = name + '/reference-load-is-the-caller-definition'
                led.ok(nm2, LB) if not bad else led.fail(nm2, LB, {'differences': bad}, signature='lb-load:' + ';'.join(bad)[:80])
            if load != 'Fc':
                continue          # everything else is the same path as with the load given by Fc
            if out[0] == 'raise':
                e = out[1]
                led.fail('%s/no-exception/%s' % (name, raise_signature(e)), LB,
                         {'raises': e.tname, 'message': [str(a)[:160] for a in e.eargs], 'path': [repr(c)[:80] for c in path.conds][-6:]},
                         signature=raise_signature(e), replay=replay_small(clc, meth))
                continue
            cc, calls = out[1]
            solver = [c for c in calls if c['fn'] == 'eigsh']
            probs = []
            if not solver:
                probs.append('no eigen-solver call')
            else:
                c = solver[-1]
                cid = calls.index(c)
                removed = any(x['fn'] == 'remove_null_cols' for x in calls[:cid])

                def norm(t):
                    # a + b is commutative
                    if isinstance(t, tuple) and t and t[0] == '+':
                        return ('+',) + tuple(sorted((norm(x) for x in t[1:]), key=repr))
                    if isinstance(t, tuple):
                        return tuple(norm(x) for x in t)
                    return t
                wantA = ('restrict', kgterm, kterm) if removed else kgterm
                wantM = ('restrict', kterm, kterm) if removed else kterm
                if norm(c['A']) != norm(wantA):
                    probs.append('solver operator A is %r, expected %r' % (c['A'], wantA))
                if norm(c['M']) != norm(wantM):
                    probs.append('solver operator M is %r, expected %r' % (c['M'], wantM))
                for kk, vv in {'sigma': '1', 'which': 'SM'}.items():
                    if c['kw'].get(kk) != vv:
                        probs.append('solver keyword %s = %r, expected %r' % (kk, c['kw'].get(kk), vv))
                if c['kw'].get('mode') not in ('cayley', 'buckling'):
                    probs.append('solver mode %r' % (c['kw'].get('mode'),))
                ev = cc.attrs.get('eigvals')
                if not (isinstance(ev, AArr) and ev.term == ('/', 'swap', ('eigvals', cid), '-1')):
                    probs.append('stored multipliers are %r, expected -1/mu of the last solver call' % (getattr(ev, 'term', ev),))
                vecs = cc.attrs.get('eigvecs')
                t = getattr(vecs, 'term', None)
                if removed:
                    inner_ok = lambda x: (isinstance(x, tuple) and x[0] == 'store' and x[1] == ('zeros',) and x[2] == (('take', ('used_cols', kterm)), 'all')
                                          and (x[3] == ('eigvecs', cid) or (isinstance(x[3], tuple) and x[3][0] == 'index' and x[3][1] == ('eigvecs', cid))))
                else:
                    inner_ok = lambda x: x == ('eigvecs', cid)
                if not (isinstance(t, tuple) and t[0] in ('row_stack', 'vstack') and len(t[1]) == 2 and t[1][0] == ('zeros',) and inner_ok(t[1][1])):
                    probs.append('stored modes are %r, expected num0 zero rows on top of the (scattered) solver modes' % (t,))
                elif not (len(vecs.shape) == 2 and _implied(it, path, absnp.dim_eq(vecs.shape[0], n))):
                    probs.append('stored modes have %s rows, expected the full size' % (T(vecs.shape[0]),))
            if probs:
                led.fail(name + '/post', LB, {'differences': probs}, signature=';'.join(probs)[:150])
            else:
                led.ok(name + '/post', LB)
        led.solver_time('z3-feasibility', it.solver_time)
