"""C11 kernel level: cfuvw, cfwx, cfwy, cfstrain, cfg of panel/models/clt_bardell_field.pyx against the Ritz series and the
Donnell relations (symbolic point, symbolic m, n; sums over the series as canonical sum atoms)."""
from fractions import Fraction

from ..poly import P, normal, mono_text, rational_close
from .. import kharness as K, kernel, pysym, spec_panel as S
from ..pysym import integer, real, to_z3
from ..kernel import InArray, OutArray, make_sum, ATOM_DEPS, deps_of
from ..core import CheckerError

MOD = 'compmech.panel.models.clt_bardell_field'
FILE = 'compmech/panel/models/clt_bardell_field.pyx'


def Fval(order, k, flags, x):
    kt = normal(k).text() if isinstance(k, P) else str(k)
    name = 'F<%d,%s,%s>(%s)' % (order, kt, '/'.join(normal(f).text() for f in flags), normal(x).text())
    d = set()
    for q in (k, x) + tuple(flags):
        d |= deps_of(q)
    if d:
        ATOM_DEPS[name] = d
    return P.atom(name)


def install(it):
    def vec(order):
        def c(itp, args, kw):
            buf, x = args[0], args[1]
            flags = tuple(args[2:6])
            if not isinstance(buf, K.LocalBuf):
                raise CheckerError('calc_vec_* called with a non-buffer')
            buf.fill = lambda k, order=order, x=x, flags=flags: Fval(order, k, flags, x)
            return None
        return c
    it.contracts['extern.calc_vec_f'] = vec(0)
    it.contracts['extern.calc_vec_fxi'] = vec(1)
    it.contracts['extern.calc_vec_fxixi'] = vec(2)


def series(dof, ox, oy, x_xi, y_eta, m, n, cname='c', scale=None, num=3):
    """sum_j sum_i c[num(jm+i)+dof] * f_i^{(ox)}(xi) * g_j^{(oy)}(eta)  (inner loop over i, as in the kernels);
    num = 1: the w-only model, whose single degree of freedom is w"""
    i, j = integer('i'), integer('j')
    d = 'uvw'[dof] if num == 3 else 'w'
    col = num * (j * m + i) + (dof if num == 3 else 0)
    cidx = 'c[%s]' % normal(col).text()
    ATOM_DEPS[cidx] = {'i', 'j'} | deps_of(m)
    term = P.atom(cidx) * Fval(ox, i, S.flagset(d, 'x'), x_xi) * Fval(oy, j, S.flagset(d, 'y'), y_eta)
    if scale is not None:
        term = term * scale
    inner = make_sum('i', 0, m, term, [])
    return make_sum('j', 0, n, inner, [])


def flags_args(dofs):
    out = []
    for ax in 'xy':
        for d in dofs:
            out += list(S.flagset(d, ax))
    return out


def cmp(led, name, func, code, spec, alt=None, sigs=None):
    ok, bad, _ = rational_close(code if isinstance(code, P) else P.const(code), spec)
    if ok:
        led.ok(name, func)
        return True
    sig = None
    for aname, aspec in (alt or {}).items():
        if rational_close(code, aspec)[0]:
            sig = aname
    rp = None
    if sig and sig.startswith('NL-terms'):
        from . import replays
        rp = replays.strain_nl_terms()
    led.fail(name, func, {'residual': [{'monomial': mono_text(m_)[:200], 'code': str(x), 'spec': str(y)} for m_, x, y in bad[:4]], 'signature': sig},
             signature=sig or 'residual', replay=rp)
    return False


def run_kernel(fname, build_args, mod=None):
    it = K.make_interp(counters=())
    install(it)
    f = K.kernel_func(it, mod or MOD, fname)
    holder = {}

    def thunk():
        args, ctx = build_args(it)
        holder['ctx'] = ctx
        it.call(f, args, {})
        return ctx
    res = it.explore(thunk)
    return it, res, holder.get('ctx')


def stores_of(arr):
    return [(k, v, conds) for (k, v, mode, conds, line, lv) in arr.stores]


def body(led):
    m, n = integer('m'), integer('n')
    a, b, r = real('a'), real('b'), real('r')
    size = integer('npts')
    pti = integer('pti')

    def common(it):
        it.facts += [to_z3(a) > 0, to_z3(b) > 0, to_z3(m) >= 1, to_z3(n) >= 1, to_z3(size) >= 1]
        c = InArray('c')
        xs = InArray('xs')
        ys = InArray('ys')
        return c, xs, ys
    x = P.atom('xs[1*pti]')
    y = P.atom('ys[1*pti]')
    ATOM_DEPS['xs[1*pti]'] = {'pti'}
    ATOM_DEPS['ys[1*pti]'] = {'pti'}
    xi, eta = 2 * x / a - 1, 2 * y / b - 1
    sx, sy = 2 / a, 2 / b

    # ---- cfuvw ---------------------------------------------------------------------------------
    func = FILE + ':cfuvw'
    led.function(func)

    def args_uvw(it):
        c, xs, ys = common(it)
        outs = [OutArray(nm, size) for nm in ('us', 'vs', 'ws')]
        return [c, m, n, a, b, xs, ys, size] + outs + flags_args('uvw'), outs
    it, res, outs = run_kernel('cfuvw', args_uvw)
    check_point_stores(led, func, res, outs, ['u', 'v', 'w'],
                       [series(0, 0, 0, xi, eta, m, n), series(1, 0, 0, xi, eta, m, n), series(2, 0, 0, xi, eta, m, n)])
    # ---- cfwx / cfwy ----------------------------------------------------------------------------
    for fname, spec in (('cfwx', series(2, 1, 0, xi, eta, m, n, scale=sx)), ('cfwy', series(2, 0, 1, xi, eta, m, n, scale=sy))):
        func = FILE + ':' + fname
        led.function(func)

        def args_w(it):
            c, xs, ys = common(it)
            out = OutArray('ws_', size)
            fl = list(S.flagset('w', 'x')) + list(S.flagset('w', 'y'))
            return [c, m, n, a, b, xs, ys, size, out] + fl, [out]
        it, res, outs = run_kernel(fname, args_w)
        check_point_stores(led, func, res, outs, [fname[2:] + '-slope'], [spec])
    # ---- the w-only field module: cfw, cfwx, cfwy -------------------------------------------------------
    MODW, FILEW = MOD + '_w', FILE.replace('.pyx', '_w.pyx')
    for fname, spec in (('cfw', series(2, 0, 0, xi, eta, m, n, num=1)), ('cfwx', series(2, 1, 0, xi, eta, m, n, scale=sx, num=1)),
                        ('cfwy', series(2, 0, 1, xi, eta, m, n, scale=sy, num=1))):
        func = FILEW + ':' + fname
        led.function(func)

        def args_ww(it, fname=fname):
            c, xs, ys = common(it)
            fl = list(S.flagset('w', 'x')) + list(S.flagset('w', 'y'))
            if fname == 'cfw':
                outs = [OutArray(nm, size) for nm in ('us', 'vs', 'ws')]
                return [c, m, n, a, b, xs, ys, size] + outs + fl, outs
            out = OutArray('ws_', size)
            return [c, m, n, a, b, xs, ys, size, out] + fl, [out]
        it, res, outs = run_kernel(fname, args_ww, mod=MODW)
        if fname == 'cfw':
            # frame: the u and v outputs are left untouched (the wrapper returns its zeros for them)
            for path, out in res:
                if out[0] == 'return':
                    extra = [arr.name for arr in out[1][:2] if stores_of(arr)]
                    if extra:
                        led.fail(func + '/frame', func, {'also writes': extra}, signature='frame')
                    else:
                        led.ok(func + '/frame', func)
            check_point_stores(led, func, [(p_, (o[0], o[1][2:] if o[0] == 'return' else o[1])) for p_, o in res], outs[2:], ['w'], [spec])
        else:
            check_point_stores(led, func, res, outs, [fname[2:] + '-slope'], [spec])
    # ---- cfstrain ----------------------------------------------------------------------------------
    func = FILE + ':cfstrain'
    led.function(func)
    NL = integer('NLterms')

    def args_strain(it):
        c, xs, ys = common(it)
        outs = [OutArray(nm, size) for nm in ('exxs', 'eyys', 'gxys', 'kxxs', 'kyys', 'kxys')]
        return [c, m, n, a, b, r, real('alpharad'), xs, ys, size] + outs + flags_args('uvw') + [NL], outs
    it, res, outs = run_kernel('cfstrain', args_strain)
    ux, uy = series(0, 1, 0, xi, eta, m, n, scale=sx), series(0, 0, 1, xi, eta, m, n, scale=sy)
    vx, vy = series(1, 1, 0, xi, eta, m, n, scale=sx), series(1, 0, 1, xi, eta, m, n, scale=sy)
    w0 = series(2, 0, 0, xi, eta, m, n)
    wx, wy = series(2, 1, 0, xi, eta, m, n, scale=sx), series(2, 0, 1, xi, eta, m, n, scale=sy)
    wxx, wyy = series(2, 2, 0, xi, eta, m, n, scale=sx * sx), series(2, 0, 2, xi, eta, m, n, scale=sy * sy)
    wxy = series(2, 1, 1, xi, eta, m, n, scale=sx * sy)
    half = Fraction(1, 2)

    def sq_terms(ox, oy, scale2):
        """the per-term squares the kernel accumulates: sum_j sum_i (c*f*g)^2 * scale"""
        i, j = integer('i'), integer('j')
        cidx = P.atom('c[%s]' % normal(3 * (j * m + i) + 2).text())
        t = (cidx * Fval(ox, i, S.flagset('w', 'x'), xi) * Fval(oy, j, S.flagset('w', 'y'), eta)) ** 2 * scale2
        return make_sum('j', 0, n, make_sum('i', 0, m, t, []), [])

    def cross_terms():
        i, j = integer('i'), integer('j')
        cidx = P.atom('c[%s]' % normal(3 * (j * m + i) + 2).text())
        t = (cidx * Fval(1, i, S.flagset('w', 'x'), xi) * Fval(0, j, S.flagset('w', 'y'), eta)
             * cidx * Fval(0, i, S.flagset('w', 'x'), xi) * Fval(1, j, S.flagset('w', 'y'), eta)) * (4 / (a * b))
        return make_sum('j', 0, n, make_sum('i', 0, m, t, []), [])
    for path, out in res:
        cyl = any('r' in repr(c_) and '!=' in repr(c_) for c_ in path.conds)
        tag = 'cylindrical' if cyl else 'flat'
        if out[0] != 'return':
            led.fail('%s[%s]/no-exception' % (func, tag), func, {'raises': out[1].tname}, signature='raise')
            continue
        spec = {
            'exx': ux + NL * half * wx * wx,
            'eyy': vy + (w0 / r if cyl else 0) + NL * half * wy * wy,
            'gxy': uy + vx + NL * wx * wy,
            'kxx': -wxx, 'kyy': -wyy, 'kxy': -2 * wxy}
        alt = {
            'exx': ux + NL * sq_terms(1, 0, 2 / (a * a)),
            'eyy': vy + (w0 / r if cyl else 0) + NL * sq_terms(0, 1, 2 / (b * b)),
            'gxy': uy + vx + NL * cross_terms()}
        for arr, key in zip(out[1], ('exx', 'eyy', 'gxy', 'kxx', 'kyy', 'kxy')):
            st = stores_of(arr)
            name = '%s[%s]/%s' % (func, tag, key)
            if len(st) != 1:
                led.fail(name, func, {'reason': '%d stores, expected one per point' % len(st)}, signature='stores')
                continue
            k_, v_, _ = st[0]
            if not (isinstance(k_, P) and normal(k_ - pti).is_zero()):
                led.fail(name + '/placement', func, {'index': str(k_)}, signature='placement')
                continue
            cmp(led, name, func, v_, spec[key],
                alt=({'NL-terms-per-series-term: the quadratic slope terms are accumulated as sum_ij (c_ij f g)^2 instead of (sum_ij c_ij f g)^2': alt[key]} if key in alt else None))


_LAST = {}


def outs_of(path, out, n):
    return _LAST['outs']


def check_point_stores(led, func, res, outs, names, specs):
    pti = integer('pti')
    for path, out in res:
        if out[0] != 'return':
            led.fail(func + '/no-exception', func, {'raises': out[1].tname, 'args': [str(a)[:100] for a in out[1].eargs]}, signature='raise')
            continue
        for arr, nm, spec in zip(out[1], names, specs):
            st = stores_of(arr)
            name = '%s/%s' % (func, nm)
            if len(st) != 1:
                led.fail(name, func, {'reason': '%d stores, expected exactly one per point' % len(st)}, signature='stores')
                continue
            k_, v_, _ = st[0]
            if not (isinstance(k_, P) and normal(k_ - pti).is_zero()):
                led.fail(name + '/placement', func, {'index': str(k_)}, signature='placement')
                continue
            cmp(led, name, func, v_, spec)
