"""C19 for stiffened bays: StiffPanelBay.calc_kA (delegation to the first skin panel).

Contract: for every bay (flat or cylindrical skin cut into 1 or 2 panels, with or without a 2-D stiffener that enlarges the
amplitude vector), aerodynamic definition by (beta, gamma) or by (Mach, rho_air, V, speed_sound), flow along x or y, and also as
the first request on a freshly defined bay:
    bay.calc_kA() == Panel(full skin domain, the bay's geometry, series orders, edge flags and aerodynamic definition)
                       .calc_kA(size = bay.get_size(), row0 = 0, col0 = 0)
term by term (same kernel, same arguments, same attributes seen by the kernel, same completion).  The right-hand side is under
contract in C19 (py_panel.check_calc_kA).  StiffPanelBay.calc_cA is executed as well (it must return the panel's damping matrix).
"""
import itertools

from ..poly import P, normal
from .. import pysym, panelctx, pycheck
from ..pysym import real, integer, Opaque, SymRaise, to_z3
from ..kharness import FLAG_NAMES
from . import py_panel
from .py_panel import report
from .c13_bay import make_stiffener

BF = 'compmech/stiffpanelbay/stiffpanelbay.py:StiffPanelBay.'


def replay(route, n2d, fresh, geom='plate', flow='x'):
    from ..pyreplay import run_real
    script = '''
import numpy as np
from compmech.stiffpanelbay import StiffPanelBay
from compmech.panel import Panel
spb = StiffPanelBay()
curved = payload['geom'] == 'cpanel'
spb.a = 2.; spb.b = 1.; spb.m = 5; spb.n = 5; spb.model = 'cpanel_clt_donnell_bardell' if curved else 'plate_clt_donnell_bardell'
if curved:
    spb.r = 3.
spb.stack = [0, 90, 90, 0]; spb.plyt = 1.25e-4; spb.mu = 1.3e3
spb.laminaprop = (142.5e9, 8.7e9, 0.28, 5.1e9, 5.1e9, 5.1e9)
kw = dict(Mach=2., rho_air=1.2, V=600., speed_sound=300.) if payload['route'] == 'mach' else dict(beta=1000., gamma=(80. if curved else None))
kw['flow'] = payload['flow']
for k, v in kw.items():
    setattr(spb, k, v)
spb.add_panel(y1=0, y2=0.3); spb.add_panel(y1=0.3, y2=spb.b)
if payload['n2d']:
    spb.add_bladestiff2d(ys=0.3, bf=0.05, fstack=[0]*8, fplyt=spb.plyt, flaminaprop=spb.laminaprop, mf=4, nf=4)
out = {}
try:
    if not payload['fresh']:
        spb.calc_k0(silent=True)
    kA = spb.calc_kA(silent=True)
    size = spb.get_size()
    ref = Panel(a=2., b=1., m=5, n=5, r=spb.r, stack=[0, 90, 90, 0], plyt=1.25e-4, laminaprop=spb.laminaprop, model=spb.model)
    for k, v in kw.items():
        setattr(ref, k, v)
    kr = ref.calc_kA(size=size, silent=True)
    out = {'bay_shape': list(kA.shape), 'bay_size': int(size), 'max_difference_to_full_panel': (float(abs(kA - kr).max()) if kA.shape == kr.shape else None)}
except Exception as e:
    out = {'raised': type(e).__name__ + ': ' + str(e)[:150]}
'''
    pay = dict(route=route, n2d=n2d, fresh=fresh, geom=geom, flow=flow)
    r = run_real(script, pay)
    bad = str(r.get('raised', '')).split(':')[0] in ('AttributeError', 'ValueError', 'TypeError', 'AssertionError') or ('raised' not in r and r.get('bay_shape') != [r.get('bay_size')] * 2) or (r.get('max_difference_to_full_panel') or 0) > 1e-9
    return {'reproduced': bool(bad), 'input': pay, 'result': r, 'real_function': 'StiffPanelBay.calc_kA'}


def check(led):
    func = BF + 'calc_kA'
    led.function(func)
    led.function(BF + 'calc_cA')
    it, calls = py_panel.mk()
    bmod = it.module('compmech.stiffpanelbay.stiffpanelbay')
    for geom, route, flow, npan, n2d, fresh in itertools.product(('plate', 'cpanel'), ('mach', 'beta'), ('x', 'y'), (1, 2), (0, 1), (True, False)):
        if geom == 'cpanel' and (npan, n2d) != (1, 0):
            continue
        tag = '%s,%s,flow=%s,panels=%d,blade2d=%d,%s' % (geom, route, flow, npan, n2d, 'first request' if fresh else 'after get_size')
        log = []
        model = {'plate': 'plate_clt_donnell_bardell', 'cpanel': 'cpanel_clt_donnell_bardell'}[geom]

        def aero(o):
            if route == 'mach':
                o.attrs.update(Mach=real('Mach'), rho_air=real('rho'), V=real('V'), speed_sound=real('ainf'))
            else:
                o.attrs.update(beta=real('beta'), gamma=real('gamma'), aeromu=real('aeromu'))
            o.attrs['flow'] = flow

        def run():
            del log[:]
            bay = it.call(bmod.g['StiffPanelBay'], [], {})
            a, b = real('a'), real('b')
            m, n = integer('m'), integer('n')
            r = real('r') if geom == 'cpanel' else None
            bay.attrs.update(a=a, b=b, m=m, n=n, mu=real('mu'), r=r, model=model)
            for f in FLAG_NAMES:
                bay.attrs[f] = real(f + '_bay')
            aero(bay)
            ycuts = [P.const(0)] + [real('ycut%d' % i) for i in range(1, npan)] + [b]
            lam = dict(stack=[real('th')], plyt=real('t'), laminaprop=(real('E'), real('E'), real('nu')), mu=real('mu'))
            panels = []
            for i in range(npan):
                p = panelctx.new_panel(it, a=a, b=b, r=r, y1=ycuts[i], y2=ycuts[i + 1], m=m, n=n, model=model,
                                       **dict(lam, **{f: bay.attrs[f] for f in FLAG_NAMES}))
                p.name = 'skin%d' % i
                panels.append(p)
            bay.attrs['panels'] = panels
            bay.attrs['bladestiff2ds'] = [make_stiffener('blade2d', i, log) for i in range(n2d)]
            if not fresh:
                it.call(it.getattr(bay, 'get_size'), [], {})
            del calls[:]
            got = it.call(it.getattr(bay, 'calc_kA'), [], dict(silent=True))
            size = it.call(it.getattr(bay, 'get_size'), [], {})
            ref = panelctx.new_panel(it, a=a, b=b, r=r, m=m, n=n, model=model, **dict(lam, **{f: bay.attrs[f] for f in FLAG_NAMES}))
            aero(ref)
            want = it.call(it.getattr(ref, 'calc_kA'), [], dict(size=size, row0=0, col0=0, silent=True))
            return got, want, size
        saved = list(it.facts)
        if route == 'mach':
            it.facts += [to_z3(real('Mach')) > 1, to_z3(real('ainf')) > 0]
        if geom == 'cpanel':
            it.facts.append(to_z3(real('r')) > 0)
        res = it.explore(run)
        it.facts[:] = saved
        for path, out in res:
            name = '%s[%s]' % (func, tag)
            if out[0] != 'return':
                e = out[1]
                led.fail(name + '/no-exception', func, {'raises': e.tname, 'message': [str(x)[:120] for x in e.eargs]},
                         signature='raise:%s:%s' % (e.tname, 'fresh' if fresh else 'warm'), replay=replay(route, n2d, fresh, geom, flow))
                continue
            got, want, size = out[1]
            def parts_of(v):
                wrap, terms = pycheck.terms_of(v)
                out_ = []
                for k_, t in terms:
                    w_ = [x_ for x_ in wrap if x_ != 'csr']
                    while isinstance(t, Opaque) and t.kind in ('symmetrized', 'skew-symmetrized', 'csr'):
                        if t.kind != 'csr':
                            w_.append(t.kind)
                        t = t.f['of']
                    out_.append((k_, w_, t))
                return out_
            pg, pw = parts_of(got), parts_of(want)
            probs = []
            if len(pg) != len(pw):
                probs.append('%d terms, the panel method gives %d' % (len(pg), len(pw)))
            for (kg, wg, g), (kw_, ww, w) in zip(pg, pw):
                if kg != kw_:
                    probs.append('term scaled by %s, expected %s' % (kg, kw_))
                if wg != ww:
                    probs.append('completion %s, the panel method gives %s' % (wg, ww))
                if not (isinstance(w, Opaque) and w.kind == 'kernel'):
                    probs.append('reference is not a kernel term')
                    continue
                probs += pycheck.diff_kernel(g, w.f['fn'], w.f['model'], w.f['args'], w.f['panel'])
            if probs:
                led.fail(name, func, {'differences': probs}, signature=';'.join(probs)[:100], replay=replay(route, n2d, fresh, geom, flow))
            else:
                led.ok(name, func)
    led.solver_time('z3-feasibility', it.solver_time)
    led.bounded_item('StiffPanelBay.calc_kA: 1..2 skin panels, 0..1 two-dimensional stiffeners (all sizes, cut positions, coefficients symbolic)')


def replay_cA():
    from ..pyreplay import run_real
    script = '''
from compmech.stiffpanelbay import StiffPanelBay
res = {}
for route in ('mach', 'beta'):
    spb = StiffPanelBay()
    spb.a = 2.; spb.b = 1.; spb.m = 5; spb.n = 5; spb.model = 'plate_clt_donnell_bardell'
    spb.stack = [0, 90, 90, 0]; spb.plyt = 1.25e-4; spb.mu = 1.3e3
    spb.laminaprop = (142.5e9, 8.7e9, 0.28, 5.1e9, 5.1e9, 5.1e9)
    if route == 'mach':
        spb.Mach = 2.; spb.rho_air = 1.2; spb.V = 600.; spb.speed_sound = 300.
    else:
        spb.beta = 1000.; spb.gamma = 0.; spb.aeromu = 0.1
    spb.add_panel(y1=0, y2=spb.b)
    try:
        spb.calc_cA(silent=True); res[route] = 'ok'
    except Exception as e:
        res[route] = 'raised %s: %s' % (type(e).__name__, str(e)[:120])
out = {'result': res}
'''
    r = run_real(script, {})
    return {'reproduced': all('raised' in v for v in (r.get('result') or {'x': ''}).values()), 'input': 'flat one-panel bay, Mach route and beta route', 'result': r,
            'real_function': 'StiffPanelBay.calc_cA'}


def check_cA(led):
    func = BF + 'calc_cA'
    it, calls = py_panel.mk()
    bmod = it.module('compmech.stiffpanelbay.stiffpanelbay')
    for route in ('mach', 'beta'):
        def run():
            bay = it.call(bmod.g['StiffPanelBay'], [], {})
            a, b = real('a'), real('b')
            m, n = integer('m'), integer('n')
            bay.attrs.update(a=a, b=b, m=m, n=n, mu=real('mu'), r=None, model='plate_clt_donnell_bardell')
            if route == 'mach':
                bay.attrs.update(Mach=real('Mach'), rho_air=real('rho'), V=real('V'), speed_sound=real('ainf'))
            else:
                bay.attrs.update(beta=real('beta'), gamma=real('gamma'), aeromu=real('aeromu'))
            p = panelctx.new_panel(it, a=a, b=b, y1=P.const(0), y2=b, m=m, n=n, model='plate_clt_donnell_bardell',
                                   stack=[real('th')], plyt=real('t'), laminaprop=(real('E'), real('E'), real('nu')), mu=real('mu'))
            bay.attrs['panels'] = [p]
            return it.call(it.getattr(bay, 'calc_cA'), [], dict(silent=True))
        saved = list(it.facts)
        it.facts += [to_z3(real('Mach')) > 1, to_z3(real('ainf')) > 0]
        res = it.explore(run)
        it.facts[:] = saved
        for path, out in res:
            name = '%s[plate,%s]/returns-the-damping-matrix' % (func, route)
            if out[0] != 'return':
                e = out[1]
                led.fail(name, func, {'raises': e.tname, 'message': [str(x)[:120] for x in e.eargs]}, signature='raise:' + e.tname, replay=replay_cA())
                continue
            w, terms = pycheck.terms_of(out[1])
            ok = len(terms) == 1 and isinstance(terms[0][1], Opaque) and terms[0][1].kind == 'kernel' and terms[0][1].f['fn'] == 'fcA'
            led.ok(name, func) if ok else led.fail(name, func, {'result': pycheck.describe(out[1])}, signature='not-fcA')
    led.solver_time('z3-feasibility', it.solver_time)
