"""placeholder"""


def check(led):
    pass
