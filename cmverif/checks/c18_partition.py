"""C18: partitioning helpers ConeCyl.exclude_dofs_matrix / ConeCyl.calc_full_c.

calc_full_c  : symbolic execution of the real method for every admissible set of prescribed amplitudes, reduced vectors of
               concrete small lengths with symbolic entries and symbolic load factor (numpy's own insert on symbolic entries).
exclude_dofs_matrix : *bounded run-time stand-in* on the real code (scipy COO internals are outside the symbolic executor):
               random COO matrices (duplicates included) of sizes 4..7, all four admissible sets of prescribed amplitudes; checked
               against the statement  (K c)[free] == K_uu c_u + sum_k K_uk[:, k] * ck_k  with c = calc_full_c(c_u).
"""
from ..poly import P
from .. import kharness as K, pysym
from ..pysym import real, to_z3
from ..pyreplay import run_real
from . import py_conecyl as PC

FC = PC.CC + 'calc_full_c'
EX = PC.CC + 'exclude_dofs_matrix'

SUBSETS = {'pdLA': (False, False), 'pdC,pdLA': (True, False), 'pdT,pdLA': (False, True), 'pdC,pdT,pdLA': (True, True)}


def check_full_c(led):
    led.function(FC)
    import numpy as np
    for tag, (pdC, pdT) in SUBSETS.items():
        for M1, M2, N2 in ((1, 1, 1), (2, 1, 2)):
            it = PC.mk()
            size = 3 + 3 * M1 + 6 * M2 * N2
            excl = ([0] if pdC else []) + ([1] if pdT else []) + [2]
            free = [k for k in range(size) if k not in excl]
            inc, uTM, thT, beta = real('inc'), real('uTM'), real('thetaTdeg'), real('betadeg')
            for full in (False, True):
                n = size if full else len(free)
                cu = np.array([real('c%d' % k) for k in range(n)], dtype=object)
                given = {}

                def run():
                    given['cu'] = cu.copy()
                    cc = PC.new_cc(it, model='clpt_donnell_bc1', alphadeg=0., r2=real('r2'), L=real('L'), m1=M1, m2=M2, n2=N2, pdC=pdC, pdT=pdT,
                                   uTM=uTM, thetaTdeg=thT, betadeg=beta, stack=[real('th0')], plyt=real('plyt'), laminaprop=(real('E1'),))
                    it.call(it.getattr(cc, '_rebuild'), [], {})
                    return cc, it.call(it.getattr(cc, 'calc_full_c'), [given['cu']], dict(inc=inc)), given['cu']
                it.facts += [to_z3(real('r2')) > 0, to_z3(real('L')) > 0]
                res = it.explore(run)
                name = '%s[%s,size=%d,%s]' % (FC, tag, size, 'full-size input' if full else 'reduced input')
                for path, out in res:
                    if out[0] == 'raise':
                        led.fail(name + '/no-exception', FC, {'raises': out[1].tname, 'args': [str(a)[:100] for a in out[1].eargs]}, signature='raise')
                        continue
                    cc, c, cu_after = out[1]
                    ck = dict(zip(cc.attrs['excluded_dofs'], cc.attrs['excluded_dofs_ck']))
                    probs = []
                    changed = [k for k in range(n) if len(cu_after) != n or not K.compare(cu_after[k] if isinstance(cu_after[k], P) else P.const(cu_after[k]), cu[k])[0]]
                    if changed:
                        led.fail(name + '/the given vector is not modified', FC, {'differences': ['entries %s of the caller\'s vector changed' % changed[:6]] + (['the result is the caller\'s array itself'] if c is cu_after else [])}, signature='full_c-frame')
                    else:
                        led.ok(name + '/the given vector is not modified', FC, backend='symbolic-instance(bounded in length)')
                    if len(c) != size:
                        probs.append('length %d instead of %d' % (len(c), size))
                    else:
                        for pos, k in enumerate(free):
                            want = cu[k] if full else cu[pos]
                            if not K.compare(c[k] if isinstance(c[k], P) else P.const(c[k]), want)[0]:
                                probs.append('free amplitude %d: %s' % (k, c[k]))
                        for k in excl:
                            want = inc * cu[k] if full else inc * ck[k]
                            if not K.compare(c[k] if isinstance(c[k], P) else P.const(c[k]), want)[0]:
                                probs.append('prescribed amplitude %d: %s instead of %s' % (k, c[k], want))
                        if sorted(ck) != sorted(excl):
                            probs.append('excluded_dofs %s' % (sorted(ck),))
                    if probs:
                        led.fail(name + '/free entries kept, prescribed entries inc*ck', FC, {'differences': probs[:6]}, signature='full_c')
                    else:
                        led.ok(name + '/free entries kept, prescribed entries inc*ck', FC, backend='symbolic-instance(bounded in length)')


SCRIPT = r'''
import numpy as np
from scipy.sparse import coo_matrix
from compmech.conecyl import ConeCyl
rs = np.random.RandomState(payload['seed'])
bad = []
n_cases = 0
for pdC in (False, True):
    for pdT in (False, True):
        for (m1, m2, n2) in ((1, 1, 1), (2, 1, 1)):
            cc = ConeCyl()
            cc.model = 'clpt_donnell_bc1'; cc.m1, cc.m2, cc.n2 = m1, m2, n2
            cc.r2 = 100.; cc.L = 200.; cc.alphadeg = 0.
            cc.stack = [0.]; cc.plyt = 1.; cc.laminaprop = (1., 1., 0.3, 1., 1., 1.)
            cc.pdC, cc.pdT = pdC, pdT
            cc.uTM = 0.37; cc.thetaTdeg = 1.3; cc.betadeg = 2.1
            cc._rebuild()
            n = cc.get_size()
            excl = list(cc.excluded_dofs)
            free = [k for k in range(n) if k not in excl]
            for trial in range(12):
                nnz = rs.randint(1, 3*n)
                r = rs.randint(0, n, size=nnz); c = rs.randint(0, n, size=nnz); v = rs.uniform(-2, 2, size=nnz)
                Kc = coo_matrix((v, (r, c)), shape=(n, n))
                D = Kc.toarray()
                n_cases += 1
                out = cc.exclude_dofs_matrix(coo_matrix((v.copy(), (r.copy(), c.copy())), shape=(n, n)), return_kuk=True)
                kuu = out['kuu'].toarray(); kuk = np.asarray(out['kuk'])
                cu = rs.uniform(-1, 1, size=len(free))
                inc = 0.7
                cfull = cc.calc_full_c(cu, inc=inc)
                lhs = D.dot(cfull)[free]
                ck = dict(zip(cc.excluded_dofs, cc.excluded_dofs_ck))
                rhs = kuu.dot(cu) + sum(kuk[:, k]*inc*ck[k] for k in excl)
                ok = (kuu.shape == (len(free), len(free)) and kuk.shape == (len(free), 3) and np.allclose(kuu, D[np.ix_(free, free)])
                      and np.allclose(kuk, D[np.ix_(free, [0, 1, 2])]) and np.allclose(lhs, rhs)
                      and np.allclose(np.delete(cfull, excl), cu))
                if not ok:
                    bad.append({'pdC': pdC, 'pdT': pdT, 'n': n, 'rows': r.tolist(), 'cols': c.tolist(), 'vals': v.tolist()})
out = {'cases': n_cases, 'n_bad': len(bad), 'first': bad[:2]}
'''


def check_exclude(led):
    led.function(EX)
    r = run_real(SCRIPT, {'seed': int(led.seed) % 1000 if hasattr(led, 'seed') else 0})
    if r.get('raised') or r.get('replay_error'):
        led.error('exclude_dofs_matrix stand-in could not run: %s' % (r.get('raised') or r.get('replay_error')))
        return
    led.bounded_item('ConeCyl.exclude_dofs_matrix: run-time contract on %s random COO matrices (sizes 12 and 15, duplicates included), all four '
                     'admissible sets of prescribed amplitudes (bounded stand-in, not counted as proved)' % r.get('cases'))
    name = EX + '/bounded-run-time-contract[(K c)[free] == Kuu cu + Kuk ck; Kuu, Kuk are the sub-blocks]'
    if r.get('n_bad'):
        led.fail(name, EX, {'violating_cases': r['n_bad'], 'first': r['first'][0] if r['first'] else {}}, backend='run-time(bounded)',
                 replay={'reproduced': True, 'input': r['first'][0] if r['first'] else {}, 'real_function': 'ConeCyl.exclude_dofs_matrix'},
                 signature='standin:exclude')
    else:
        led.ok(name, EX, backend='run-time(bounded)')


def check_exclude_proof(led):
    """exclude_dofs_matrix on a COO matrix of symbolic size seen through one generic stored entry (row R, col C, value V)"""
    import z3
    from .. import coosym
    from ..pysym import integer, cond_z3, Cond
    for tag, (pdC, pdT) in SUBSETS.items():
        it = PC.mk()
        coosym.install(it)
        n = integer('nsize')
        R, C, V = integer('R'), integer('C'), real('V')
        facts = [to_z3(n) >= 4, to_z3(R) >= 0, to_z3(R) < to_z3(n), to_z3(C) >= 0, to_z3(C) < to_z3(n), to_z3(real('r2')) > 0, to_z3(real('L')) > 0]
        it.facts += facts
        excl = ([0] if pdC else []) + ([1] if pdT else []) + [2]

        def run():
            cc = PC.new_cc(it, model='clpt_donnell_bc1', alphadeg=0., r2=real('r2'), L=real('L'), pdC=pdC, pdT=pdT, stack=[real('th0')],
                           plyt=real('plyt'), laminaprop=(real('E1'),))
            it.call(it.getattr(cc, '_rebuild'), [], {})
            k = coosym.SymCOO(R, C, V, (n, n), name='K')
            return cc, it.call(it.getattr(cc, 'exclude_dofs_matrix'), [k], dict(return_kuk=True))
        res = it.explore(run)
        name = '%s[%s]' % (EX, tag)
        probs = []
        npaths = 0
        for path, out in res:
            if out[0] == 'raise':
                probs.append('raises %s%r' % (out[1].tname, tuple(str(a)[:60] for a in out[1].eargs)))
                continue
            npaths += 1
            cc, o = out[1]
            # frame: the list of prescribed amplitudes is the shell's own state, paired by position with excluded_dofs_ck (calc_full_c zips
            # them): partitioning a matrix must leave it exactly as _rebuild made it, order included
            if [int(x) if not isinstance(x, P) else x for x in cc.attrs['excluded_dofs']] != excl:
                probs.append('excluded_dofs is %s after the call, _rebuild made %s (the pairing with excluded_dofs_ck is by position)' % (list(cc.attrs['excluded_dofs']), excl))
            kuu, kuk = o.get('kuu'), o.get('kuk')
            conds = [cond_z3(c) if isinstance(c, Cond) else c for c in path.conds]

            def implied(goal):
                s_ = z3.Solver()
                s_.set('timeout', 10000)
                for f in facts + conds:
                    s_.add(f)
                s_.add(z3.Not(goal))
                return s_.check() == z3.unsat
            rz, cz = to_z3(R), to_z3(C)
            free_r = z3.And(*[rz != e for e in excl])
            free_c = z3.And(*[cz != e for e in excl])
            rank = lambda v: v - z3.Sum([z3.If(v > e, 1, 0) for e in excl])
            if not isinstance(kuu, coosym.SymCOO):
                probs.append('kuu is %r' % (kuu,))
                continue
            alive_goal = z3.And(free_r, free_c)
            if kuu.alive and not implied(alive_goal):
                probs.append('an entry of a prescribed row/column survives in kuu on path %s' % [repr(c) for c in path.conds][-4:])
            if not kuu.alive and not implied(z3.Not(alive_goal)):
                probs.append('a free-free entry is dropped from kuu on path %s' % [repr(c) for c in path.conds][-4:])
            if kuu.alive:
                if not implied(to_z3(kuu.row.expr) == rank(rz)) or not implied(to_z3(kuu.col.expr) == rank(cz)):
                    probs.append('kuu entry placed at (%s, %s) on path %s' % (kuu.row.expr, kuu.col.expr, [repr(c) for c in path.conds][-4:]))
                if not K.compare(kuu.data.expr, V)[0]:
                    probs.append('kuu value changed: %s' % kuu.data.expr)
            want_shape = (n - len(excl), n - len(excl))
            if len(kuu._shape) != 2 or not all(K.compare(a if isinstance(a, P) else P.const(a), b)[0] for a, b in zip(kuu._shape, want_shape)):
                probs.append('kuu shape %s' % (kuu._shape,))
            for m_ in (kuu, kuk.coo if isinstance(kuk, coosym.DenseOf) else None):
                tk = getattr(m_, 'taken', None)
                if m_ is not None and (not tk or len(set(tk.values())) != 1 or set(tk) != {'row', 'col', 'data'}):
                    probs.append('row, col and data of %s are not filtered by one and the same selection' % m_.name)
            # kuk = dense(entries with C < num0) with the prescribed rows deleted
            if not isinstance(kuk, coosym.DenseOf):
                probs.append('kuk is %r' % (kuk,))
                continue
            kc = kuk.coo
            in_first = cz < 3
            if kc.alive and not implied(in_first):
                probs.append('kuk keeps an entry of a column >= 3')
            if not kc.alive and not implied(z3.Not(in_first)):
                probs.append('kuk drops an entry of the first three columns')
            if kc.alive and not (K.compare(kc.row.expr, R)[0] and K.compare(kc.col.expr, C)[0] and K.compare(kc.data.expr, V)[0]):
                probs.append('kuk entry (%s, %s, %s)' % (kc.row.expr, kc.col.expr, kc.data.expr))
            if len(kc._shape) != 2 or not K.compare(kc._shape[0] if isinstance(kc._shape[0], P) else P.const(kc._shape[0]), n)[0] or kc._shape[1] != 3:
                probs.append('kuk shape %s before the deletion' % (kc._shape,))
            if [(tuple(sorted(d[0])), d[1]) for d in kuk.deleted] != [(tuple(excl), 0)]:
                probs.append('kuk deletion %s' % (kuk.deleted,))
        clause = 'kuu == K[free, free] (entry-wise), kuk == K[free, 0:3]'
        if probs or not npaths:
            led.fail('%s/%s' % (name, clause), EX, {'differences': (probs or ['no returning path'])[:8]}, signature='exclude-proof')
        else:
            led.ok('%s/%s' % (name, clause), EX, backend='generic-entry symbolic execution + z3')


def check(led):
    # instances of two concrete lengths (numpy's own insert on symbolic entries) and the proof for every series order
    check_full_c(led)
    led.trust('np.insert(v, k, x) for a position k inside the explicit prefix shifts every later element by one (calc_full_c, any length)')
    check_full_c_any_length(led)
    led.trust('numpy/scipy semantics used by the generic-entry model of COO matrices (cmverif/coosym.py): element-wise comparison and masked '
              'in-place arithmetic, np.where + np.take as a selection, toarray() sums stored entries, np.delete removes rows')
    check_exclude_proof(led)
    check_exclude(led)


class PrefVec(object):
    """a vector of symbolic length seen as (explicit first elements, tail): element k >= len(prefix) is base(k - offset).
    Supports what calc_full_c does: copy, shape, in-place scaling of a concrete position, np.insert at a concrete position that is
    not beyond the explicit prefix."""
    def __init__(self, prefix, base, offset, length):
        self.prefix, self.base, self.offset, self.length = list(prefix), base, offset, length

    def copy(self):
        return PrefVec(self.prefix, self.base, self.offset, self.length)

    def sym_getattr(self, interp, name):
        if name == 'copy':
            return self.copy
        if name == 'shape':
            return (self.length,)
        raise pysym.CheckerError('vector attribute %s' % name)

    def sym_load(self, interp, k, node):
        k = pysym._toint(k)
        if k >= len(self.prefix):
            raise pysym.CheckerError('read beyond the explicit prefix')
        return self.prefix[k]

    def sym_store(self, interp, k, v, node):
        k = pysym._toint(k)
        if k >= len(self.prefix):
            raise pysym.CheckerError('store beyond the explicit prefix')
        self.prefix[k] = v

    def insert(self, pos, val):
        pos = pysym._toint(pos)
        if pos > len(self.prefix):
            raise pysym.CheckerError('np.insert beyond the explicit prefix')
        return PrefVec(self.prefix[:pos] + [val] + self.prefix[pos:], self.base, self.offset + 1, self.length + 1)

    def at(self, k):
        """element at the symbolic position k >= len(prefix)"""
        return self.base(k - self.offset)


def _cmp(got, want):
    """got == want for scalars; anything that is not a scalar expression is a difference (not a crash)"""
    try:
        g = got if isinstance(got, P) else P.const(got)
    except TypeError:
        return False
    return K.compare(g, want)[0]


def check_full_c_any_length(led):
    """calc_full_c for EVERY series order: the reduced (or full) vector has symbolic length; its first three entries are explicit,
    the others are seen through the generic position k"""
    from ..poly import normal
    from ..pysym import integer
    for tag, (pdC, pdT) in SUBSETS.items():
        it = PC.mk()
        m1, m2, n2 = integer('m1'), integer('m2'), integer('n2')
        it.facts += [to_z3(m1) >= 1, to_z3(m2) >= 1, to_z3(n2) >= 1, to_z3(real('r2')) > 0, to_z3(real('L')) > 0]
        size = 3 + 3 * m1 + 6 * m2 * n2
        excl = ([0] if pdC else []) + ([1] if pdT else []) + [2]
        inc, uTM, thT, beta = real('inc'), real('uTM'), real('thetaTdeg'), real('betadeg')
        it.np.insert = lambda arr, pos, val: arr.insert(pos, val)
        it.np.ascontiguousarray = lambda a, dtype=None: a
        for full in (False, True):
            n = size if full else size - len(excl)

            def cu_elem(k):
                return P.atom('cu[%s]' % normal(k).text())
            cu = PrefVec([cu_elem(P.const(k)) for k in range(3)], cu_elem, 0, n)

            def run():
                cc = PC.new_cc(it, model='clpt_donnell_bc1', alphadeg=0., r2=real('r2'), L=real('L'), m1=m1, m2=m2, n2=n2, pdC=pdC, pdT=pdT,
                               uTM=uTM, thetaTdeg=thT, betadeg=beta, stack=[real('th0')], plyt=real('plyt'), laminaprop=(real('E1'),))
                it.call(it.getattr(cc, '_rebuild'), [], {})
                return cc, it.call(it.getattr(cc, 'calc_full_c'), [cu], dict(inc=inc))
            res = it.explore(run)
            name = '%s[%s,any series order,%s]' % (FC, tag, 'full-size input' if full else 'reduced input')
            for path, out in res:
                if out[0] == 'raise':
                    led.fail(name + '/no-exception', FC, {'raises': out[1].tname, 'args': [str(a)[:100] for a in out[1].eargs]}, signature='raise')
                    continue
                cc, c = out[1]
                ck = dict(zip(cc.attrs['excluded_dofs'], cc.attrs['excluded_dofs_ck']))
                probs = []
                if not isinstance(c, PrefVec):
                    probs.append('result is %r' % (c,))
                else:
                    if not normal(c.length - size).is_zero():
                        probs.append('length %s instead of %s' % (c.length, size))
                    if sorted(ck) != sorted(excl):
                        probs.append('excluded_dofs %s' % (sorted(ck),))
                    # the three leading entries
                    red = 0
                    for k in range(3):
                        got = c.prefix[k] if k < len(c.prefix) else c.at(P.const(k))
                        if k in excl:
                            want = inc * cu_elem(P.const(k)) if full else inc * ck[k]
                        else:
                            want = cu_elem(P.const(k if full else red))
                        if k not in excl:
                            red += 1
                        if not _cmp(got, want):
                            probs.append('entry %d: %s instead of %s' % (k, got, want))
                    # explicit entries beyond the third and the generic tail position
                    kk = integer('k_pos')
                    for pos in list(range(3, len(c.prefix))) + [kk]:
                        posP = pos if isinstance(pos, P) else P.const(pos)
                        got = c.prefix[pos] if not isinstance(pos, P) else c.at(posP)
                        want = cu_elem(posP if full else posP - len(excl))
                        if not _cmp(got, want):
                            probs.append('entry %s: %s instead of %s' % (posP, got, want))
                nm = name + '/free entries kept, prescribed entries inc*ck'
                if probs:
                    led.fail(nm, FC, {'differences': probs[:6]}, signature='full_c_any')
                else:
                    led.ok(nm, FC)
        led.solver_time('z3-feasibility', it.solver_time)
