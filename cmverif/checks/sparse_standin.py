"""Bounded run-time stand-in for compmech/sparse.py (DESIGN 2.8): the real functions are run on every 3x3 / 4x4 COO pattern
with up to 3 stored entries (duplicates, diagonal, lower-triangle entries, null rows/columns included) and random values, and
compared with their contracts.  Labelled *bounded*, never counted as proved."""
from ..pyreplay import run_real

_CACHE = {}

SCRIPT = r'''
import itertools, numpy as np
from scipy.sparse import coo_matrix, csr_matrix
from compmech import sparse as S
rs = np.random.RandomState(payload["seed"])
viol = {"make_symmetric": [], "make_skew_symmetric": [], "finalize_symmetric_matrix": [], "remove_null_cols": [], "solve": [], "is_symmetric": []}
n_cases = 0
def dense(v, r, c, n):
    M = np.zeros((n, n), dtype=np.asarray(v).dtype)
    for a, b, x in zip(r, c, v):
        M[a, b] += x
    return M
for n in (3, 4):
    cells = [(i, j) for i in range(n) for j in range(n)]
    for k in (1, 2, 3):
        for pat in itertools.combinations_with_replacement(cells, k):
            n_cases += 1
            r = np.array([p[0] for p in pat]); c = np.array([p[1] for p in pat])
            v = rs.uniform(0.5, 2.0, size=k)*rs.choice([-1., 1.], size=k)
            m = coo_matrix((v, (r, c)), shape=(n, n))
            # complex values too (the aerodynamic damping matrix is imaginary): the mirror image is the plain transpose, not the adjoint
            for vv in (v*(0.3 + 1j), v):
                D = dense(vv, r, c, n)
                U = np.triu(D)
                want_sym = U + np.triu(D, 1).T
                want_skew = U - np.triu(D, 1).T
                for name, fn, want in (("make_symmetric", S.make_symmetric, want_sym), ("make_skew_symmetric", S.make_skew_symmetric, want_skew),
                                       ("finalize_symmetric_matrix", S.finalize_symmetric_matrix, want_sym)):
                    try:
                        got = fn(coo_matrix((vv.copy(), (r.copy(), c.copy())), shape=(n, n))).toarray()
                        if not np.allclose(got, want, rtol=1e-13, atol=1e-13):
                            viol[name].append({"rows": r.tolist(), "cols": c.tolist(), "vals": [str(x) for x in vv], "got": [[str(x) for x in row] for row in got], "want": [[str(x) for x in row] for row in want]})
                    except Exception as e:
                        viol[name].append({"rows": r.tolist(), "cols": c.tolist(), "raised": "%s: %s" % (type(e).__name__, e)})
            # remove_null_cols / solve on the symmetrised matrix
            Ksym = want_sym + np.diag(np.where(np.abs(want_sym).sum(axis=0) > 0, 7., 0.))
            K = csr_matrix(Ksym)
            used = np.where(np.abs(Ksym).sum(axis=0) > 0)[0]
            try:
                out = S.remove_null_cols(K, K*2., silent=True)
                ok = (list(out[-1]) == list(used) and np.allclose(out[0].toarray(), Ksym[np.ix_(used, used)]) and np.allclose(out[1].toarray(), 2*Ksym[np.ix_(used, used)]))
                if not ok:
                    viol["remove_null_cols"].append({"K": Ksym.tolist(), "used_returned": [int(x) for x in out[-1]], "used_expected": used.tolist()})
            except Exception as e:
                viol["remove_null_cols"].append({"K": Ksym.tolist(), "raised": "%s: %s" % (type(e).__name__, e)})
            # a non-symmetric operator with the same non-null columns (solve is also handed k0 + kA): the system solved is K x = f, not a symmetrised one
            Kns = Ksym + 0.3*(np.triu(Ksym, 1) - np.triu(Ksym, 1).T)
            if len(used) and abs(np.linalg.det(Kns[np.ix_(used, used)])) > 1e-3:
                f2 = rs.uniform(-1, 1, size=n)
                try:
                    x2 = S.solve(csr_matrix(Kns), f2.copy(), silent=True)
                    want2 = np.zeros(n); want2[used] = np.linalg.solve(Kns[np.ix_(used, used)], f2[used])
                    if not np.allclose(x2, want2, rtol=1e-9, atol=1e-11):
                        viol["solve"].append({"K": Kns.tolist(), "f": f2.tolist(), "got": x2.tolist(), "want": want2.tolist(), "note": "non-symmetric operator"})
                except Exception as e:
                    viol["solve"].append({"K": Kns.tolist(), "raised": "%s: %s" % (type(e).__name__, e)})
            if len(used) and abs(np.linalg.det(Ksym[np.ix_(used, used)])) > 1e-3:
                f = rs.uniform(-1, 1, size=n)
                try:
                    x = S.solve(K, f.copy(), silent=True)
                    want = np.zeros(n); want[used] = np.linalg.solve(Ksym[np.ix_(used, used)], f[used])
                    if not np.allclose(x, want, rtol=1e-9, atol=1e-11):
                        viol["solve"].append({"K": Ksym.tolist(), "f": f.tolist(), "got": x.tolist(), "want": want.tolist()})
                except Exception as e:
                    viol["solve"].append({"K": Ksym.tolist(), "raised": "%s: %s" % (type(e).__name__, e)})
# structured matrices whose columns cancel (difference / spring operators): "null column" means no stored non-zero entry, not "entries add up to zero"
for n in (5, 8):
    T = 2*np.eye(n) - np.eye(n, k=1) - np.eye(n, k=-1)
    for Kd in (T, T.dot(T)):
        Kp = np.zeros((n + 2, n + 2)); Kp[:n, :n] = Kd            # plus two amplitudes without stiffness
        n_cases += 1
        try:
            out_ = S.remove_null_cols(csr_matrix(Kp), csr_matrix(2*Kp), silent=True)
            if list(out_[-1]) != list(range(n)) or not np.allclose(out_[0].toarray(), Kd) or not np.allclose(out_[1].toarray(), 2*Kd):
                viol["remove_null_cols"].append({"K": Kp.tolist(), "used_returned": [int(x) for x in out_[-1]], "used_expected": list(range(n))})
        except Exception as e:
            viol["remove_null_cols"].append({"K": Kp.tolist(), "raised": "%s: %s" % (type(e).__name__, e)})
        f = np.arange(1., n + 3.)
        try:
            x = S.solve(csr_matrix(Kp), f.copy(), silent=True)
            want = np.zeros(n + 2); want[:n] = np.linalg.solve(Kd, f[:n])
            if not np.allclose(x, want, rtol=1e-9, atol=1e-11):
                viol["solve"].append({"K": Kp.tolist(), "f": f.tolist(), "got": x.tolist(), "want": want.tolist()})
        except Exception as e:
            viol["solve"].append({"K": Kp.tolist(), "raised": "%s: %s" % (type(e).__name__, e)})
out = {"cases": n_cases, "violations": {k: v[:2] for k, v in viol.items()}, "counts": {k: len(v) for k, v in viol.items()}}
'''


def run(seed=0):
    if 'r' not in _CACHE:
        r = run_real(SCRIPT, {'seed': int(seed) % 1000})
        _CACHE['r'] = r
    return _CACHE['r']


def check(led, functions):
    """include the stand-in for the given sparse.py functions in a property check"""
    r = run(led.seed)
    if r.get('raised') or r.get('replay_error'):
        led.error('sparse stand-in could not run: %s' % (r.get('raised') or r.get('replay_error')))
        return
    led.bounded_item('compmech/sparse.py %s: run-time contracts on all %s COO patterns of 3x3/4x4 matrices with <=3 stored entries (bounded stand-in)'
                     % ('/'.join(functions), r.get('cases')))
    for fn in functions:
        n = (r.get('counts') or {}).get(fn, 0)
        name = 'compmech/sparse.py:%s/bounded-run-time-contract' % fn
        if n:
            ex = r['violations'][fn][0] if r['violations'][fn] else {}
            led.fail(name, 'compmech/sparse.py:' + fn, {'violating_cases': n, 'first': ex}, backend='run-time(bounded)',
                     replay={'reproduced': True, 'input': ex, 'real_function': 'compmech.sparse.' + fn}, signature='standin:' + fn)
        else:
            led.ok(name, 'compmech/sparse.py:' + fn, backend='run-time(bounded)')
