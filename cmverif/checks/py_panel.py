"""Python-layer contracts of Panel.calc_k0 / calc_kG0 / calc_kM / calc_kA / calc_cA:
symbolic execution of the real methods (parsed from /repo) over an enumerated
set of *shape* configurations (which optional inputs are None) with every
numeric input symbolic, against the expected kernel-call terms."""
import itertools
from fractions import Fraction

from ..poly import P, normal
from .. import pysym, shims, panelctx, pycheck
from ..pysym import Interp, real, integer, Opaque, SymRaise, to_z3, Cond
from ..kharness import FLAG_NAMES

PF = 'compmech/panel/_panel.py:Panel.'
MAT = ('E1', 'E2', 'nu12', 'G12', 'G13', 'G23')


def mk():
    it = Interp()
    shims.install(it)
    calls = []
    panelctx.install(it, calls)
    return it, calls


GEOMS = {
    'plate': dict(model='plate_clt_donnell_bardell', r=None, alphadeg=None, num=3),
    'cpanel': dict(model='cpanel_clt_donnell_bardell', r='r', alphadeg=None, num=3),
    'kpanel': dict(model='kpanel_clt_donnell_bardell', r='r', alphadeg='alphadeg', num=3),
    'plate_w': dict(model='plate_clt_donnell_bardell_w', r=None, alphadeg=None, num=1, explicit=True),
}


def build(it, geom, lamform='uniform', yform='none', extra=None):
    g = GEOMS[geom]
    th = [real('th0'), real('th1')]
    mat = tuple(real(x) for x in MAT)
    kw = dict(a=real('a'), b=real('b'), stack=th, mu=real('mu'), m=integer('m'), n=integer('n'), offset=real('d'))
    if g['r']:
        kw['r'] = real('r')
    if g['alphadeg']:
        kw['alphadeg'] = real('alphadeg')
    if g.get('explicit'):
        kw['model'] = g['model']
    if lamform == 'uniform':
        kw['plyt'] = real('plyt')
        kw['laminaprop'] = mat
        plyts = [kw['plyt']] * 2
        props = [mat] * 2
    else:
        plyts = [real('t0'), real('t1')]
        mat2 = tuple(real(x + 'b') for x in MAT)
        props = [mat, mat2]
        kw['plyts'] = plyts
        kw['laminaprops'] = props
    if yform == 'both':
        kw['y1'] = real('y1')
        kw['y2'] = real('y2')
    elif yform == 'y1only':
        kw['y1'] = real('y1')
    if extra:
        kw.update(extra)
    p = panelctx.new_panel(it, **kw)
    panelctx.symbolic_flags(p)
    want = {'a': kw['a'], 'b': kw['b'], 'm': kw['m'], 'n': kw['n'], 'mu': kw['mu'],
            'r': kw.get('r', P.const(0)), 'alpharad': shims.sym_deg2rad(kw['alphadeg']) if 'alphadeg' in kw else P.const(0),
            'lam.ABD': panelctx.LamMatrix(Opaque('ABDspec', stack=th, plyts=plyts, laminaprops=props, offset=kw['offset']), 6),
            'plyts': plyts, '__class__.__name__': 'Panel'}
    for f in FLAG_NAMES:
        want[f] = real(f)
    return p, kw, want, g


def sizes(it, form, g, kw):
    if form == 'default':
        return {}, {'size': g['num'] * kw['m'] * kw['n'], 'row0': 0, 'col0': 0}
    s, r0 = integer('size'), integer('row0')
    return {'size': s, 'row0': r0, 'col0': r0}, {'size': s, 'row0': r0, 'col0': r0}


def report(led, name, func, problems, replay=None, signature=None):
    if problems:
        led.fail(name, func, {'differences': problems[:8]}, signature=signature or ';'.join(problems)[:200], replay=replay() if replay else None)
    else:
        led.ok(name, func)


# --------------------------------------------------------------------------
def check_calc_k0(led, replay=None):
    func = PF + 'calc_k0'
    led.function(func)
    led.function(PF + '_rebuild')
    led.function(PF + 'get_size')
    led.function(PF + '_get_lam_F')
    n_paths = 0
    it, calls = mk()
    for geom, lamform, yform, pre, szform, fin in itertools.product(GEOMS, ('uniform', 'per-ply'), ('none', 'both', 'y1only'),
                                                                    ('none', 'preload'), ('default', 'given'), (True, False)):
        tag = '%s,%s,y=%s,%s,size=%s,finalize=%s' % (geom, lamform, yform, pre, szform, fin)
        extra = {}
        if pre == 'preload':
            extra = dict(Nxx_cte=real('Nxx_cte'), Nyy_cte=real('Nyy_cte'), Nxy_cte=real('Nxy_cte'))
        holder = {}

        def run():
            del calls[:]
            p, kw, want, g = build(it, geom, lamform, yform, extra)
            skw, sw = sizes(it, szform, g, kw)
            holder.update(p=p, kw=kw, want=want, g=g, sw=sw)
            try:
                return (p, it.call(it.getattr(p, 'calc_k0'), [], dict(skw, silent=True, finalize=fin)))
            except SymRaise as e:
                e.panel = p
                raise
        res = it.explore(run)
        n_paths += len(res)
        for path, out in res:
            g, kw, want, sw = holder['g'], holder['kw'], holder['want'], holder['sw']
            name = '%s[%s]%s' % (func, tag, '' if len(res) == 1 else '/' + ' & '.join(repr(c) for c in path.conds if 'cte' in repr(c))[:80])
            if out[0] == 'raise':
                if geom == 'kpanel' and yform == 'both' and False:
                    continue
                report(led, name + '/no-exception', func, ['raises %s%s' % (out[1].tname, tuple(str(a)[:80] for a in out[1].eargs))], replay)
                continue
            p, k0 = out[1]
            wrap, terms = pycheck.terms_of(k0)
            probs = []
            if fin and wrap[:1] != ['symmetrized']:
                probs.append('result is not passed through finalize_symmetric_matrix')
            if not fin and wrap:
                probs.append('result symmetrized although finalize=False')
            both = yform == 'both'
            fn = 'fk0y1y2' if both else 'fk0'
            args = dict(sw)
            if both:
                args.update(y1=kw['y1'], y2=kw['y2'])
            # which preload terms are non-zero on this path
            conds = [repr(c) for c in path.conds]
            expect_G = pre == 'preload' and any('!= 0' in c and 'cte' in c for c in conds)
            if not terms:
                probs.append('no kernel term in the result')
            else:
                probs += pycheck.diff_kernel(terms[0][1], fn, g['model'], args, want)
                if terms[0][0] != 1:
                    probs.append('constitutive term scaled by %s' % (terms[0][0],))
            if expect_G:
                if len(terms) != 2:
                    probs.append('constant pre-load given but %d kernel terms found (expected k0 + kG0(N_cte))' % len(terms))
                else:
                    gargs = dict(sw, Nxx=kw['Nxx_cte'], Nyy=kw['Nyy_cte'], Nxy=kw['Nxy_cte'])
                    if both:
                        gargs.update(y1=kw['y1'], y2=kw['y2'])
                    probs += pycheck.diff_kernel(terms[1][1], 'fkG0y1y2' if both else 'fkG0', g['model'], gargs, want)
                    if terms[1][0] != 1:
                        probs.append('initial-stress term scaled by %s' % (terms[1][0],))
            elif len(terms) > 1:
                probs.append('unexpected extra kernel terms: %s' % pycheck.describe(k0))
            if panelctx.vkey(p.attrs.get('k0')) != panelctx.vkey(k0):
                probs.append('Panel.k0 is not the returned matrix')
            report(led, name, func, probs, replay)
    led.solver_time('z3-feasibility', it.solver_time)
    led.extra['python_layer_paths'] = led.extra.get('python_layer_paths', 0) + n_paths


# --------------------------------------------------------------------------
def check_calc_kG0(led, replay=None):
    func = PF + 'calc_kG0'
    led.function(func)
    it, calls = mk()
    n_paths = 0
    for geom, yform, loads, szform, fin in itertools.product(GEOMS, ('none', 'both', 'y1only'), ('none', 'given'), ('default', 'given'), (True, False)):
        tag = '%s,y=%s,loads=%s,size=%s,finalize=%s' % (geom, yform, loads, szform, fin)
        extra = dict(Nxx=real('Nxx'), Nyy=real('Nyy'), Nxy=real('Nxy')) if loads == 'given' else {}
        holder = {}

        def run():
            del calls[:]
            p, kw, want, g = build(it, geom, 'uniform', yform, extra)
            skw, sw = sizes(it, szform, g, kw)
            holder.update(kw=kw, want=want, g=g, sw=sw)
            return (p, it.call(it.getattr(p, 'calc_kG0'), [], dict(skw, silent=True, finalize=fin)))
        res = it.explore(run)
        n_paths += len(res)
        for path, out in res:
            g, kw, want, sw = holder['g'], holder['kw'], holder['want'], holder['sw']
            name = '%s[%s]' % (func, tag)
            if out[0] == 'raise':
                report(led, name + '/no-exception', func, ['raises %s%s' % (out[1].tname, tuple(str(a)[:80] for a in out[1].eargs))], replay)
                continue
            p, kG = out[1]
            wrap, terms = pycheck.terms_of(kG)
            probs = []
            if fin and wrap[:1] != ['symmetrized']:
                probs.append('result is not passed through finalize_symmetric_matrix')
            if not fin and wrap:
                probs.append('result symmetrized although finalize=False')
            both = yform == 'both'
            zero = P.const(0)
            args = dict(sw, Nxx=kw.get('Nxx', zero), Nyy=kw.get('Nyy', zero), Nxy=kw.get('Nxy', zero))
            if both:
                args.update(y1=kw['y1'], y2=kw['y2'])
            if len(terms) != 1:
                probs.append('expected exactly one kernel term, found %d' % len(terms))
            else:
                probs += pycheck.diff_kernel(terms[0][1], 'fkG0y1y2' if both else 'fkG0', g['model'], args, want)
                if terms[0][0] != 1:
                    probs.append('term scaled by %s' % (terms[0][0],))
            if panelctx.vkey(p.attrs.get('kG0')) != panelctx.vkey(kG):
                probs.append('Panel.kG0 is not the returned matrix')
            report(led, name, func, probs, replay)
    led.solver_time('z3-feasibility', it.solver_time)
    led.extra['python_layer_paths'] = led.extra.get('python_layer_paths', 0) + n_paths


def check_calc_kM(led, replay=None):
    func = PF + 'calc_kM'
    led.function(func)
    it, calls = mk()
    n_paths = 0
    for geom, yform, szform, fin, first in itertools.product(GEOMS, ('none', 'both', 'y1only'), ('default', 'given'), (True, False), ('after-k0',)):
        tag = '%s,y=%s,size=%s,finalize=%s,%s' % (geom, yform, szform, fin, first)
        holder = {}

        def run():
            del calls[:]
            p, kw, want, g = build(it, geom, 'uniform', yform, {})
            skw, sw = sizes(it, szform, g, kw)
            holder.update(kw=kw, want=want, g=g, sw=sw)
            if first == 'after-k0':
                it.call(it.getattr(p, 'calc_k0'), [], dict(silent=True))
            del calls[:]
            return (p, it.call(it.getattr(p, 'calc_kM'), [], dict(skw, silent=True, finalize=fin)))
        res = it.explore(run)
        n_paths += len(res)
        for path, out in res:
            g, kw, want, sw = holder['g'], holder['kw'], holder['want'], holder['sw']
            name = '%s[%s]' % (func, tag)
            if out[0] == 'raise':
                report(led, name + '/no-exception', func, ['raises %s%s' % (out[1].tname, tuple(str(a)[:80] for a in out[1].eargs))], replay,
                       signature='raise:%s:%s' % (first, out[1].tname))
                continue
            p, kM = out[1]
            wrap, terms = pycheck.terms_of(kM)
            probs = []
            if fin and wrap[:1] != ['symmetrized']:
                probs.append('result is not passed through finalize_symmetric_matrix')
            if not fin and wrap:
                probs.append('result symmetrized although finalize=False')
            both = yform == 'both'
            args = dict(sw, d=kw['offset'])
            if both:
                args.update(y1=kw['y1'], y2=kw['y2'])
            if len(terms) != 1:
                probs.append('expected exactly one kernel term, found %d' % len(terms))
            else:
                probs += pycheck.diff_kernel(terms[0][1], 'fkMy1y2' if both else 'fkM', g['model'], args, want)
            report(led, name, func, probs, replay)
    led.solver_time('z3-feasibility', it.solver_time)
    led.extra['python_layer_paths'] = led.extra.get('python_layer_paths', 0) + n_paths
