"""Python-layer contracts of Panel.calc_k0 / calc_kG0 / calc_kM / calc_kA / calc_cA:
symbolic execution of the real methods (parsed from /repo) over an enumerated
set of *shape* configurations (which optional inputs are None) with every
numeric input symbolic, against the expected kernel-call terms."""
import itertools
from fractions import Fraction

from ..poly import P, normal
from .. import pysym, shims, panelctx, pycheck
from ..pysym import Interp, real, integer, Opaque, SymRaise, to_z3, Cond
from ..kharness import FLAG_NAMES

PF = 'compmech/panel/_panel.py:Panel.'
MAT = ('E1', 'E2', 'nu12', 'G12', 'G13', 'G23')


def mk():
    it = Interp()
    shims.install(it)
    calls = []
    panelctx.install(it, calls)
    return it, calls


GEOMS = {
    'plate': dict(model='plate_clt_donnell_bardell', r=None, alphadeg=None, num=3),
    'cpanel': dict(model='cpanel_clt_donnell_bardell', r='r', alphadeg=None, num=3),
    'kpanel': dict(model='kpanel_clt_donnell_bardell', r='r', alphadeg='alphadeg', num=3),
    'plate_w': dict(model='plate_clt_donnell_bardell_w', r=None, alphadeg=None, num=1, explicit=True),
}


def build(it, geom, lamform='uniform', yform='none', extra=None, sfx=''):
    g = GEOMS[geom]
    _r, _i = pysym.real, pysym.integer

    def real(n):
        return _r(n + sfx)

    def integer(n):
        return _i(n + sfx)
    th = [real('th0'), real('th1')]
    mat = tuple(real(x) for x in MAT)
    kw = dict(a=real('a'), b=real('b'), stack=th, mu=real('mu'), m=integer('m'), n=integer('n'), offset=real('d'))
    if g['r']:
        kw['r'] = real('r')
    if g['alphadeg']:
        kw['alphadeg'] = real('alphadeg')
    if g.get('explicit'):
        kw['model'] = g['model']
    if lamform == 'uniform':
        kw['plyt'] = real('plyt')
        kw['laminaprop'] = mat
        plyts = [kw['plyt']] * 2
        props = [mat] * 2
    elif lamform == 'plyts+laminaprop':
        # per-ply thicknesses with one material, and a nominal plyt set as well: the explicit list wins
        plyts = [real('t0'), real('t1')]
        props = [mat] * 2
        kw['plyts'] = plyts
        kw['plyt'] = real('plyt_nominal')
        kw['laminaprop'] = mat
    elif lamform == 'plyt+laminaprops':
        mat2 = tuple(real(x + 'b') for x in MAT)
        props = [mat, mat2]
        kw['plyt'] = real('plyt')
        plyts = [kw['plyt']] * 2
        kw['laminaprops'] = props
        kw['laminaprop'] = tuple(real(x + '_nominal') for x in MAT)
    else:
        plyts = [real('t0'), real('t1')]
        mat2 = tuple(real(x + 'b') for x in MAT)
        props = [mat, mat2]
        kw['plyts'] = plyts
        kw['laminaprops'] = props
    if yform == 'both':
        kw['y1'] = real('y1')
        kw['y2'] = real('y2')
    elif yform == 'y1only':
        kw['y1'] = real('y1')
    if extra:
        kw.update(extra)
    p = panelctx.new_panel(it, **kw)
    panelctx.symbolic_flags(p, sfx)
    if sfx:
        p.name = 'panel' + sfx
    want = {'a': kw['a'], 'b': kw['b'], 'm': kw['m'], 'n': kw['n'], 'mu': kw['mu'],
            'r': kw.get('r', P.const(0)), 'alpharad': shims.sym_deg2rad(kw['alphadeg']) if 'alphadeg' in kw else P.const(0),
            'lam.ABD': panelctx.LamMatrix(Opaque('ABDspec', stack=th, plyts=plyts, laminaprops=props, offset=kw['offset']), 6),
            'plyts': plyts, '__class__.__name__': 'Panel'}
    for f in FLAG_NAMES:
        want[f] = real(f)
    return p, kw, want, g


def sizes(it, form, g, kw):
    if form == 'default':
        return {}, {'size': g['num'] * kw['m'] * kw['n'], 'row0': 0, 'col0': 0}
    s, r0 = integer('size'), integer('row0')
    return {'size': s, 'row0': r0, 'col0': r0}, {'size': s, 'row0': r0, 'col0': r0}


def report(led, name, func, problems, replay=None, signature=None):
    if problems:
        led.fail(name, func, {'differences': problems[:8]}, signature=signature or ';'.join(problems)[:200], replay=replay() if replay else None)
    else:
        led.ok(name, func)


# --------------------------------------------------------------------------
def check_calc_k0(led, replay=None):
    func = PF + 'calc_k0'
    led.function(func)
    led.function(PF + '_rebuild')
    led.function(PF + 'get_size')
    led.function(PF + '_get_lam_F')
    n_paths = 0
    it, calls = mk()
    for geom, lamform, yform, pre, szform, fin in itertools.product(GEOMS, ('uniform', 'per-ply', 'plyts+laminaprop', 'plyt+laminaprops'), ('none', 'both', 'y1only'),
                                                                    ('none', 'preload'), ('default', 'given'), (True, False)):
        if lamform in ('plyts+laminaprop', 'plyt+laminaprops') and (geom != 'plate' or szform != 'default' or not fin):
            continue          # the mixed laminate forms only concern _rebuild: one geometry is enough
        tag = '%s,%s,y=%s,%s,size=%s,finalize=%s' % (geom, lamform, yform, pre, szform, fin)
        extra = {}
        if pre == 'preload':
            extra = dict(Nxx_cte=real('Nxx_cte'), Nyy_cte=real('Nyy_cte'), Nxy_cte=real('Nxy_cte'))
        holder = {}

        def run():
            del calls[:]
            p, kw, want, g = build(it, geom, lamform, yform, extra)
            skw, sw = sizes(it, szform, g, kw)
            holder.update(p=p, kw=kw, want=want, g=g, sw=sw)
            try:
                return (p, it.call(it.getattr(p, 'calc_k0'), [], dict(skw, silent=True, finalize=fin)))
            except SymRaise as e:
                e.panel = p
                raise
        res = it.explore(run)
        n_paths += len(res)
        for path, out in res:
            g, kw, want, sw = holder['g'], holder['kw'], holder['want'], holder['sw']
            name = '%s[%s]%s' % (func, tag, '' if len(res) == 1 else '/' + ' & '.join(repr(c) for c in path.conds if 'cte' in repr(c))[:80])
            if out[0] == 'raise':
                if geom == 'kpanel' and yform == 'both' and False:
                    continue
                report(led, name + '/no-exception', func, ['raises %s%s' % (out[1].tname, tuple(str(a)[:80] for a in out[1].eargs))], replay)
                continue
            p, k0 = out[1]
            wrap, terms = pycheck.terms_of(k0)
            probs = []
            if fin and wrap[:1] != ['symmetrized']:
                probs.append('result is not passed through finalize_symmetric_matrix')
            if not fin and wrap:
                probs.append('result symmetrized although finalize=False')
            both = yform == 'both'
            fn = 'fk0y1y2' if both else 'fk0'
            args = dict(sw)
            if both:
                args.update(y1=kw['y1'], y2=kw['y2'])
            # which preload terms are non-zero on this path
            conds = [repr(c) for c in path.conds]
            expect_G = pre == 'preload' and any('!= 0' in c and 'cte' in c for c in conds)
            if not terms:
                probs.append('no kernel term in the result')
            else:
                probs += pycheck.diff_kernel(terms[0][1], fn, g['model'], args, want)
                if terms[0][0] != 1:
                    probs.append('constitutive term scaled by %s' % (terms[0][0],))
            if expect_G:
                if len(terms) != 2:
                    probs.append('constant pre-load given but %d kernel terms found (expected k0 + kG0(N_cte))' % len(terms))
                else:
                    gargs = dict(sw, Nxx=kw['Nxx_cte'], Nyy=kw['Nyy_cte'], Nxy=kw['Nxy_cte'])
                    if both:
                        gargs.update(y1=kw['y1'], y2=kw['y2'])
                    probs += pycheck.diff_kernel(terms[1][1], 'fkG0y1y2' if both else 'fkG0', g['model'], gargs, want)
                    if terms[1][0] != 1:
                        probs.append('initial-stress term scaled by %s' % (terms[1][0],))
            elif len(terms) > 1:
                probs.append('unexpected extra kernel terms: %s' % pycheck.describe(k0))
            if panelctx.vkey(p.attrs.get('k0')) != panelctx.vkey(k0):
                probs.append('Panel.k0 is not the returned matrix')
            report(led, name, func, probs, replay)
    led.solver_time('z3-feasibility', it.solver_time)
    led.extra['python_layer_paths'] = led.extra.get('python_layer_paths', 0) + n_paths


# --------------------------------------------------------------------------
def check_calc_kG0(led, replay=None):
    func = PF + 'calc_kG0'
    led.function(func)
    it, calls = mk()
    n_paths = 0
    for geom, yform, loads, szform, fin in itertools.product(GEOMS, ('none', 'both', 'y1only'), ('none', 'given'), ('default', 'given'), (True, False)):
        tag = '%s,y=%s,loads=%s,size=%s,finalize=%s' % (geom, yform, loads, szform, fin)
        extra = dict(Nxx=real('Nxx'), Nyy=real('Nyy'), Nxy=real('Nxy')) if loads == 'given' else {}
        holder = {}

        def run():
            del calls[:]
            p, kw, want, g = build(it, geom, 'uniform', yform, extra)
            skw, sw = sizes(it, szform, g, kw)
            holder.update(kw=kw, want=want, g=g, sw=sw)
            return (p, it.call(it.getattr(p, 'calc_kG0'), [], dict(skw, silent=True, finalize=fin)))
        res = it.explore(run)
        n_paths += len(res)
        for path, out in res:
            g, kw, want, sw = holder['g'], holder['kw'], holder['want'], holder['sw']
            name = '%s[%s]' % (func, tag)
            if out[0] == 'raise':
                report(led, name + '/no-exception', func, ['raises %s%s' % (out[1].tname, tuple(str(a)[:80] for a in out[1].eargs))], replay)
                continue
            p, kG = out[1]
            wrap, terms = pycheck.terms_of(kG)
            probs = []
            if fin and wrap[:1] != ['symmetrized']:
                probs.append('result is not passed through finalize_symmetric_matrix')
            if not fin and wrap:
                probs.append('result symmetrized although finalize=False')
            both = yform == 'both'
            zero = P.const(0)
            args = dict(sw, Nxx=kw.get('Nxx', zero), Nyy=kw.get('Nyy', zero), Nxy=kw.get('Nxy', zero))
            if both:
                args.update(y1=kw['y1'], y2=kw['y2'])
            if len(terms) != 1:
                probs.append('expected exactly one kernel term, found %d' % len(terms))
            else:
                probs += pycheck.diff_kernel(terms[0][1], 'fkG0y1y2' if both else 'fkG0', g['model'], args, want)
                if terms[0][0] != 1:
                    probs.append('term scaled by %s' % (terms[0][0],))
            if panelctx.vkey(p.attrs.get('kG0')) != panelctx.vkey(kG):
                probs.append('Panel.kG0 is not the returned matrix')
            report(led, name, func, probs, replay)
    led.solver_time('z3-feasibility', it.solver_time)
    led.extra['python_layer_paths'] = led.extra.get('python_layer_paths', 0) + n_paths


def check_calc_kG0_state(led, replay=None):
    """state-based route: the kernel must receive the caller's state, the quadrature orders and the laminate of the panel
    definition (with its offset) unless a table is supplied"""
    func = PF + 'calc_kG0'
    from ..kernel import InArray, user_array
    it, calls = mk()
    for geom, ftab, nxny, fin in itertools.product(('plate', 'cpanel'), ('default', '6x6', 'table'), ('default', 'given'), (True, False)):
        tag = 'state,%s,Fnxny=%s,nx/ny=%s,finalize=%s' % (geom, ftab, nxny, fin)
        holder = {}

        def run():
            del calls[:]
            p, kw, want, g = build(it, geom, 'uniform', 'none', {})
            it.call(it.getattr(p, 'calc_k0'), [], dict(silent=True))
            del calls[:]
            size = g['num'] * kw['m'] * kw['n']
            c = user_array('c', shape=(size,))
            args = dict(silent=True, finalize=fin, c=c)
            Fn = None
            if ftab != 'default':
                Fn = InArray('Fnxny_user', shape=((6, 6) if ftab == '6x6' else (integer('nxq'), integer('nyq'), 6, 6)))
                args['Fnxny'] = Fn
            if nxny == 'given':
                args.update(nx=integer('nxq'), ny=integer('nyq'))
            holder.update(kw=kw, want=want, g=g, Fn=Fn, c=c, size=size)
            return (p, it.call(it.getattr(p, 'calc_kG0'), [], args))
        for path, out in it.explore(run):
            g, kw, want = holder['g'], holder['kw'], holder['want']
            name = '%s[%s]' % (func, tag)
            if out[0] == 'raise':
                report(led, name + '/no-exception', func, ['raises %s%s' % (out[1].tname, tuple(str(a)[:80] for a in out[1].eargs))], replay)
                continue
            p, kG = out[1]
            wrap, terms = pycheck.terms_of(kG)
            probs = []
            if len(terms) != 1 or not (isinstance(terms[0][1], Opaque) and terms[0][1].kind == 'kernel'):
                probs.append('expected exactly one kernel term')
            else:
                t = terms[0][1]
                a_ = t.f['args']
                if t.f['fn'] != 'fkG_num' or t.f['model'] != g['model'] + '_num':
                    probs.append('kernel %s.%s called, expected %s_num.fkG_num' % (t.f['model'], t.f['fn'], g['model']))
                if a_.get('cs') is not holder['c'] and getattr(a_.get('cs'), 'name', None) != 'c':
                    probs.append('the kernel does not receive the caller\'s state vector')
                Fi = a_.get('Finput')
                if holder['Fn'] is not None:
                    if Fi is not holder['Fn']:
                        probs.append('the kernel does not receive the laminate table supplied by the caller')
                elif panelctx.vkey(Fi) != panelctx.vkey(want['lam.ABD']):
                    probs.append('laminate handed to the kernel is %s, expected the ABD of the panel definition %s' % (pycheck.describe(Fi), pycheck.describe(want['lam.ABD'])))
                wantn = (integer('nxq'), integer('nyq')) if nxny == 'given' else (kw['m'], kw['n'])
                for nm_, wv in zip(('nx', 'ny'), wantn):
                    if panelctx.vkey(a_.get(nm_)) != panelctx.vkey(wv):
                        probs.append('%s = %s, expected %s' % (nm_, pycheck.describe(a_.get(nm_)), pycheck.describe(wv)))
                for nm_, wv in (('size', holder['size']), ('row0', 0), ('col0', 0)):
                    if panelctx.vkey(a_.get(nm_)) != panelctx.vkey(wv):
                        probs.append('%s = %s, expected %s' % (nm_, pycheck.describe(a_.get(nm_)), pycheck.describe(wv)))
                probs += [d_ for d_ in pycheck.diff_kernel(t, 'fkG_num', g['model'] + '_num', {}, want) if 'argument' not in d_]
            if fin and wrap[:1] != ['symmetrized']:
                probs.append('result is not symmetrized')
            report(led, name, func, probs, replay)
    led.solver_time('z3-feasibility', it.solver_time)


def check_calc_kM(led, replay=None):
    func = PF + 'calc_kM'
    led.function(func)
    it, calls = mk()
    n_paths = 0
    for geom, yform, szform, fin, first in itertools.product(GEOMS, ('none', 'both', 'y1only'), ('default', 'given'), (True, False), ('after-k0',)):
        tag = '%s,y=%s,size=%s,finalize=%s,%s' % (geom, yform, szform, fin, first)
        holder = {}

        def run():
            del calls[:]
            p, kw, want, g = build(it, geom, 'uniform', yform, {})
            skw, sw = sizes(it, szform, g, kw)
            holder.update(kw=kw, want=want, g=g, sw=sw)
            if first == 'after-k0':
                it.call(it.getattr(p, 'calc_k0'), [], dict(silent=True))
            del calls[:]
            return (p, it.call(it.getattr(p, 'calc_kM'), [], dict(skw, silent=True, finalize=fin)))
        res = it.explore(run)
        n_paths += len(res)
        for path, out in res:
            g, kw, want, sw = holder['g'], holder['kw'], holder['want'], holder['sw']
            name = '%s[%s]' % (func, tag)
            if out[0] == 'raise':
                report(led, name + '/no-exception', func, ['raises %s%s' % (out[1].tname, tuple(str(a)[:80] for a in out[1].eargs))], replay,
                       signature='raise:%s:%s' % (first, out[1].tname))
                continue
            p, kM = out[1]
            wrap, terms = pycheck.terms_of(kM)
            probs = []
            if fin and wrap[:1] != ['symmetrized']:
                probs.append('result is not passed through finalize_symmetric_matrix')
            if not fin and wrap:
                probs.append('result symmetrized although finalize=False')
            both = yform == 'both'
            args = dict(sw, d=kw['offset'])
            if both:
                args.update(y1=kw['y1'], y2=kw['y2'])
            if len(terms) != 1:
                probs.append('expected exactly one kernel term, found %d' % len(terms))
            else:
                probs += pycheck.diff_kernel(terms[0][1], 'fkMy1y2' if both else 'fkM', g['model'], args, want)
            report(led, name, func, probs, replay)
    led.solver_time('z3-feasibility', it.solver_time)
    led.extra['python_layer_paths'] = led.extra.get('python_layer_paths', 0) + n_paths


# --------------------------------------------------------------------------
def replay_kA_gamma():
    from ..pyreplay import run_real
    script = '''
import numpy as np
from compmech.panel import Panel
p = Panel(a=1., b=0.5, r=2., stack=[0, 90, 90, 0], plyt=1.25e-4, laminaprop=(142.5e9, 8.7e9, 0.28, 5.1e9, 5.1e9, 5.1e9), mu=1500., m=6, n=6)
p.calc_k0(silent=True)
p.beta = 0.; p.gamma = 1.
kA = p.calc_kA(silent=True).toarray()
out = {"max_entry": float(abs(kA).max()), "max_asymmetry(kA-kA.T)": float(abs(kA-kA.T).max()), "max_skew_defect(kA+kA.T)": float(abs(kA+kA.T).max())}
'''
    r = run_real(script, {})
    r['reproduced'] = bool(r.get('max_asymmetry(kA-kA.T)', 0) > 1e-9 * max(r.get('max_entry', 1), 1e-30))
    r['input'] = 'cylindrical panel a=1,b=.5,r=2, beta=0, gamma=1: the curvature part must be symmetric'
    return r


def check_calc_kA(led):
    func = PF + 'calc_kA'
    led.function(func)
    it, calls = mk()
    geoms = {k: v for k, v in GEOMS.items() if k != 'kpanel'}
    for geom, route, flow, szform, fin in itertools.product(geoms, ('beta', 'beta+gamma', 'mach'), ('x', 'y', 'X'), ('default', 'given'), (True, False)):
        tag = '%s,%s,flow=%s,size=%s,finalize=%s' % (geom, route, flow, szform, fin)
        holder = {}
        extra = {'flow': flow}
        if route in ('beta', 'beta+gamma'):
            extra['beta'] = real('beta')
            if route == 'beta+gamma':
                extra['gamma'] = real('gamma')
                extra['aeromu'] = real('aeromu')
        else:
            extra.update(Mach=real('Mach'), rho_air=real('rho'), V=real('V'), speed_sound=real('ainf'))

        def run():
            del calls[:]
            p, kw, want, g = build(it, geom, 'uniform', 'none', extra)
            skw, sw = sizes(it, szform, g, kw)
            holder.update(kw=kw, want=want, g=g, sw=sw)
            it.call(it.getattr(p, 'calc_k0'), [], dict(silent=True))
            del calls[:]
            return (p, it.call(it.getattr(p, 'calc_kA'), [], dict(skw, silent=True, finalize=fin)))
        saved = list(it.facts)
        if route == 'mach':
            it.facts.append(to_z3(real('Mach')) > 1)
            it.facts += [to_z3(real('ainf')) > 0, to_z3(real('r')) > 0]
        res = it.explore(run)
        it.facts[:] = saved
        for path, out in res:
            g, kw, want, sw = holder['g'], holder['kw'], holder['want'], holder['sw']
            name = '%s[%s]' % (func, tag)
            if out[0] == 'raise':
                report(led, name + '/no-exception', func, ['raises %s%s' % (out[1].tname, tuple(str(a)[:80] for a in out[1].eargs))])
                continue
            p, kA = out[1]
            probs = []
            # expected coefficients
            if route == 'mach':
                M = kw['Mach']
                from ..poly import sqrt_of
                root = sqrt_of(M * M - 1)
                beta = kw['rho_air'] * kw['V'] ** 2 / root
                gamma = beta / (2 * kw['r'] * root) if 'r' in kw else P.const(0)
                aeromu = beta / (M * kw['speed_sound']) * (M * M - 2) / (M * M - 1)
            else:
                beta = kw['beta']
                gamma = kw.get('gamma', P.const(0))
            isx = flow.lower() == 'x'
            curved = geom == 'cpanel' and isx
            gamma_zero = (isinstance(gamma, P) and gamma.is_zero()) or any(
                isinstance(c_, pysym.Cond) and c_.kind == 'cmp' and c_.a == '==' and isinstance(gamma, P) and (normal(c_.b - gamma).is_zero() or normal(c_.b + gamma).is_zero())
                for c_ in path.conds)
            wrap, terms = pycheck.terms_of(kA)
            # every term: (completion applied to it, kernel)
            parts = []
            for kscale, t in terms:
                w_ = list(wrap)
                while isinstance(t, Opaque) and t.kind in ('symmetrized', 'skew-symmetrized', 'csr'):
                    w_.append(t.kind)
                    t = t.f['of']
                if not (isinstance(t, Opaque) and t.kind == 'kernel') or kscale != 1:
                    probs.append('unexpected term %s' % pycheck.describe(t))
                    continue
                parts.append(([x_ for x_ in w_ if x_ != 'csr'], t))
            zero = P.const(0)
            if not fin:
                # the raw kernel output (upper triangle of both parts), nothing completed
                if len(parts) != 1 or parts[0][0]:
                    probs.append('finalize=False: expected the bare kernel result, got %d terms with completions %s' % (len(parts), [w_ for w_, _ in parts]))
                else:
                    kern = parts[0][1]
                    if isx:
                        probs += pycheck.diff_kernel(kern, 'fkAx', g['model'], dict(sw, beta=beta, gamma=gamma if curved else kern.f['args'].get('gamma')), want)
                    else:
                        probs += pycheck.diff_kernel(kern, 'fkAy', g['model'], dict(sw, beta=beta), want)
            else:
                flow_parts = [(w_, k_) for w_, k_ in parts if w_ == ['skew-symmetrized']]
                curv_parts = [(w_, k_) for w_, k_ in parts if w_ == ['symmetrized']]
                other = [w_ for w_, k_ in parts if w_ not in (['skew-symmetrized'], ['symmetrized'])]
                if other:
                    probs.append('a term is completed by %s' % other)
                if len(flow_parts) != 1:
                    probs.append('%d skew-symmetrically completed terms, expected the flow-derivative part' % len(flow_parts))
                else:
                    kern = flow_parts[0][1]
                    if isx:
                        g_arg = kern.f['args'].get('gamma')
                        g_arg = g_arg if isinstance(g_arg, P) else P.const(g_arg if g_arg is not None else 0)
                        if curved and not gamma_zero and not normal(g_arg).is_zero():
                            probs.append('curved panel with gamma != 0: the whole matrix (flow part AND curvature part) is completed by '
                                         'make_skew_symmetric; the curvature part -gamma*int(w_A w_B) must be symmetric')
                        probs += pycheck.diff_kernel(kern, 'fkAx', g['model'], dict(sw, beta=beta, gamma=kern.f['args'].get('gamma')), want)
                        if not (normal(g_arg).is_zero() or (normal(g_arg - gamma).is_zero() and (gamma_zero or not curved))):
                            if not any('curvature part' in x_ for x_ in probs):
                                probs.append('flow part computed with gamma = %s' % g_arg)
                    else:
                        probs += pycheck.diff_kernel(kern, 'fkAy', g['model'], dict(sw, beta=beta), want)
                need_curv = curved and not gamma_zero and not any('curvature part' in x_ for x_ in probs)
                if need_curv:
                    if len(curv_parts) != 1:
                        probs.append('%d symmetrically completed terms, expected the curvature part -gamma*int(w_A w_B)' % len(curv_parts))
                    else:
                        probs += ['curvature part: ' + x_ for x_ in pycheck.diff_kernel(curv_parts[0][1], 'fkAx', g['model'], dict(sw, beta=zero, gamma=gamma), want)]
                elif curv_parts:
                    # an additional symmetric part is fine only if it is the curvature kernel of this panel
                    for w_, k_ in curv_parts:
                        probs += ['curvature part: ' + x_ for x_ in pycheck.diff_kernel(k_, 'fkAx', g['model'], dict(sw, beta=zero, gamma=gamma), want)]
            report(led, name, func, probs, replay=replay_kA_gamma if any('curvature part' in x for x in probs) else None,
                   signature=('gamma-part-skewed' if any('curvature part' in x for x in probs) else None))
    led.solver_time('z3-feasibility', it.solver_time)


def check_calc_cA(led):
    func = PF + 'calc_cA'
    led.function(func)
    it, calls = mk()
    geoms = {k: v for k, v in GEOMS.items() if k != 'kpanel'}
    for geom, fin, stored in itertools.product(geoms, (True, False), (False, True)):
        tag = '%s,finalize=%s%s' % (geom, fin, ',the panel stores another coefficient' if stored else '')
        holder = {}

        def run():
            del calls[:]
            p, kw, want, g = build(it, geom, 'uniform', 'none', {})
            if stored:
                # the attribute is what calc_kA derives / a bay copies into its panel; the damping matrix is asked for the ARGUMENT
                p.attrs['aeromu'] = real('aeromu_stored')
            holder.update(kw=kw, want=want, g=g)
            it.call(it.getattr(p, 'calc_k0'), [], dict(silent=True))
            it.call(it.getattr(p, 'calc_cA'), [real('aeromu')], dict(silent=True, finalize=fin))
            return p
        res = it.explore(run)
        for path, out in res:
            g, kw, want = holder['g'], holder['kw'], holder['want']
            name = '%s[%s]' % (func, tag)
            if out[0] == 'raise':
                report(led, name + '/no-exception', func, ['raises %s%s' % (out[1].tname, tuple(str(a)[:80] for a in out[1].eargs))])
                continue
            p = out[1]
            cA = p.attrs.get('cA')
            probs = []
            wrap, terms = pycheck.terms_of(cA)
            if fin and wrap[:1] != ['symmetrized']:
                probs.append('damping matrix not completed symmetrically')
            if len(terms) != 1:
                probs.append('expected one kernel term')
            else:
                kscale, t = terms[0]
                if not (isinstance(kscale, tuple) and kscale[0] == 'complex'):
                    probs.append('damping matrix not multiplied by the imaginary unit (scale %r)' % (kscale,))
                probs += pycheck.diff_kernel(t, 'fcA', g['model'], dict(aeromu=real('aeromu'), size=g['num'] * kw['m'] * kw['n'], row0=0, col0=0), want)
            report(led, name, func, probs)
    led.solver_time('z3-feasibility', it.solver_time)


def check_calc_kT_fint(led):
    """Panel.calc_kT = fkL_num(NLgeom=1) + fkG_num(NLgeom=1) with the caller's state; Panel.calc_fint passes state, laminate, offsets"""
    from ..kernel import InArray, user_array
    it, calls = mk()
    for geom, szform, opts in itertools.product(('plate', 'cpanel'), ('default', 'given'), ('defaults', 'table+grid', 'load level given')):
        if opts == 'load level given' and szform == 'given':
            continue
        holder = {}
        for method in ('calc_kT', 'calc_fint'):
            func = PF + method
            led.function(func)

            def run():
                del calls[:]
                p, kw, want, g = build(it, geom, 'uniform', 'none', {})
                it.call(it.getattr(p, 'calc_k0'), [], dict(silent=True))
                del calls[:]
                skw, sw = sizes(it, szform, g, kw)
                c = user_array('c', shape=(sw['size'],))
                extra = {}
                exp = dict(F=want['lam.ABD'], nx=kw['m'], ny=kw['n'])
                if opts == 'table+grid':
                    nxq, nyq = integer('nxq'), integer('nyq')
                    Fn = InArray('Fnxny_user', shape=(nxq, nyq, 6, 6))
                    extra = dict(Fnxny=Fn, nx=nxq, ny=nyq)
                    exp = dict(F=Fn, nx=nxq, ny=nyq)
                if opts == 'load level given':
                    # the way Analysis.static calls it: the load level is passed along; a panel has no prescribed amplitudes, so the
                    # internal force and the tangent at the state c do not depend on it
                    extra = dict(inc=real('inc_level'))
                holder.update(kw=kw, want=want, g=g, sw=sw, c=c, exp=exp)
                if method == 'calc_kT':
                    return it.call(it.getattr(p, 'calc_kT'), [], dict(skw, c=c, silent=True, **extra))
                a_ = dict(size=skw.get('size'), col0=skw.get('col0', 0), silent=True) if skw else dict(silent=True)
                a_.update(extra)
                return it.call(it.getattr(p, 'calc_fint'), [c], a_)
            for path, out in it.explore(run):
                g, kw, want, sw, exp = holder['g'], holder['kw'], holder['want'], holder['sw'], holder['exp']
                name = '%s[%s,size=%s,%s]' % (func, geom, szform, opts)
                if out[0] != 'return':
                    report(led, name + '/no-exception', func, ['raises %s%s' % (out[1].tname, tuple(str(a)[:80] for a in out[1].eargs))], signature='raise:' + out[1].tname)
                    continue
                r = out[1]
                probs = []
                if method == 'calc_kT':
                    top = pysym._flat_terms(r) if isinstance(r, Opaque) else [r]
                    kern = []
                    for t in top:
                        w_, ts = pycheck.terms_of(t)
                        if w_[:1] != ['symmetrized']:
                            probs.append('a tangent contribution is not symmetrized')
                        kern += [x for k_, x in ts]
                    fns = [x.f['fn'] for x in kern if isinstance(x, Opaque) and x.kind == 'kernel']
                    if fns != ['fkL_num', 'fkG_num']:
                        probs.append('kernels %s, expected fkL_num + fkG_num' % fns)
                    for x in kern:
                        a_ = x.f['args']
                        if getattr(a_.get('cs'), 'name', None) != 'c':
                            probs.append('%s does not receive the caller state' % x.f['fn'])
                        if panelctx.vkey(a_.get('NLgeom')) != panelctx.vkey(1):
                            probs.append('%s called with NLgeom=%s, expected 1' % (x.f['fn'], pycheck.describe(a_.get('NLgeom'))))
                        if panelctx.vkey(a_.get('Finput')) != panelctx.vkey(exp['F']):
                            probs.append('%s: laminate is %s, expected %s' % (x.f['fn'], pycheck.describe(a_.get('Finput')), 'the table of the call' if opts == 'table+grid' else 'the ABD of the panel definition'))
                        for k2 in ('size', 'row0', 'col0'):
                            if panelctx.vkey(a_.get(k2)) != panelctx.vkey(sw[k2]):
                                probs.append('%s: %s = %s, expected %s' % (x.f['fn'], k2, pycheck.describe(a_.get(k2)), pycheck.describe(sw[k2])))
                        for k2, wv in (('nx', exp['nx']), ('ny', exp['ny'])):
                            if panelctx.vkey(a_.get(k2)) != panelctx.vkey(wv):
                                probs.append('%s: %s = %s, expected %s' % (x.f['fn'], k2, pycheck.describe(a_.get(k2)), pycheck.describe(wv)))
                        probs += [d_ for d_ in pycheck.diff_kernel(x, x.f['fn'], g['model'] + '_num', {}, want) if 'argument' not in d_]
                else:
                    if not (isinstance(r, Opaque) and r.kind == 'kernel' and r.f['fn'] == 'calc_fint'):
                        probs.append('result is %s' % pycheck.describe(r))
                    else:
                        a_ = r.f['args']
                        if getattr(a_.get('cs'), 'name', None) != 'c':
                            probs.append('the kernel does not receive the caller state')
                        if panelctx.vkey(a_.get('Finput')) != panelctx.vkey(exp['F']):
                            probs.append('laminate is %s' % pycheck.describe(a_.get('Finput')))
                        for k2, wv in (('size', sw['size']), ('col0', sw['col0']), ('nx', exp['nx']), ('ny', exp['ny'])):
                            if panelctx.vkey(a_.get(k2)) != panelctx.vkey(wv):
                                probs.append('%s = %s, expected %s' % (k2, pycheck.describe(a_.get(k2)), pycheck.describe(wv)))
                        probs += [d_ for d_ in pycheck.diff_kernel(r, 'calc_fint', g['model'] + '_num', {}, want) if 'argument' not in d_]
                report(led, name, func, probs)
    led.solver_time('z3-feasibility', it.solver_time)


# --------------------------------------------------------------------------
FORCED_ZERO = [(0, 2), (1, 2), (2, 0), (2, 1), (0, 5), (5, 0), (1, 5), (5, 1), (3, 2), (2, 3), (4, 2), (2, 4), (3, 5), (4, 5), (5, 3), (5, 4)]


def check_one_laminate(led):
    """Every kernel of one panel integrates the same laminate matrix.  The analytic kernels read panel.lam.ABD, the numeric ones receive
    panel.F (or the caller's table); with force_orthotropic_laminate the sixteen coupling entries (16, 26 of A, B, D) are zero in BOTH.
    Used by C02, C03, C08 and as the Python-layer premise of C14 / C15 (analytic == numeric at the undeformed state; closed forms of
    specially orthotropic plates)."""
    from ..kernel import InArray, user_array
    func = PF + '_get_lam_F'
    led.function(func)
    it, calls = mk()
    for geom, force in itertools.product(('plate', 'cpanel'), (False, True)):
        holder = {}

        def run():
            del calls[:]
            p, kw, want, g = build(it, geom, 'uniform', 'none', {})
            if force:
                p.attrs['force_orthotropic_laminate'] = True
            out = {}
            out['calc_k0'] = it.call(it.getattr(p, 'calc_k0'), [], dict(silent=True))
            size = it.call(it.getattr(p, 'get_size'), [], {})
            c = user_array('c', shape=(size,))
            out['calc_k0(c)'] = it.call(it.getattr(p, 'calc_k0'), [], dict(silent=True, c=c, NLgeom=True))
            out['calc_kG0(c)'] = it.call(it.getattr(p, 'calc_kG0'), [], dict(silent=True, c=c))
            out['calc_kT'] = it.call(it.getattr(p, 'calc_kT'), [], dict(silent=True, c=c))
            out['calc_fint'] = it.call(it.getattr(p, 'calc_fint'), [c], dict(silent=True))
            holder.update(want=want, p=p)
            return out
        for path, out in it.explore(run):
            name = '%s[%s,force_orthotropic_laminate=%s]/every-kernel-integrates-the-same-laminate' % (func, geom, force)
            if out[0] != 'return':
                report(led, name + '/no-exception', func, ['raises %s%s' % (out[1].tname, tuple(str(a)[:80] for a in out[1].eargs))], signature='raise:' + out[1].tname)
                continue
            exp = panelctx.LamMatrix(holder['want']['lam.ABD'].spec, 6)
            if force:
                for k in FORCED_ZERO:
                    exp.writes.append((k, P.const(0)))
            ek = _lamkey(exp)
            probs = []
            for route, r in out[1].items():
                seen = []
                for t in _kernel_terms(r):
                    if 'lam.ABD' in t.f['panel']:
                        seen.append((t.f['fn'] + ' reads panel.lam.ABD', t.f['panel']['lam.ABD']))
                    if 'Finput' in t.f['args'] or t.f['fn'] in ('fkL_num', 'fkG_num', 'calc_fint'):
                        seen.append((t.f['fn'] + ' receives', t.f['args'].get('Finput')))
                if not seen:
                    probs.append('%s: no kernel term found' % route)
                for what, m_ in seen:
                    if not isinstance(m_, panelctx.LamMatrix) or _lamkey(m_) != ek:
                        probs.append('%s: %s %s, expected %s%s' % (route, what, pycheck.describe(m_), pycheck.describe(exp),
                                                                  ' with the 16/26 entries of A, B, D set to zero' if force else ''))
            report(led, name, func, probs, replay=replay_one_laminate if probs else None, signature='one-laminate')
    led.solver_time('z3-feasibility', it.solver_time)


_RPL = {}


def replay_one_laminate():
    """real Panel with force_orthotropic_laminate and an angle-ply stack: analytic k0 against the numerically integrated k0 of the
    undeformed state (the two kinds of kernel must see the same laminate)"""
    if 'r' in _RPL:
        return _RPL['r']
    from ..pyreplay import run_real
    script = '''
import numpy as np
from compmech.panel import Panel
res = {}
for force in (False, True):
    p = Panel(a=1., b=0.6, stack=[30, -60, 15, 15, -60, 30], plyt=1.25e-4, laminaprop=(142.5e9, 8.7e9, 0.28, 5.1e9, 5.1e9, 5.1e9), m=5, n=6)
    p.force_orthotropic_laminate = force
    ka = p.calc_k0(silent=True).toarray()
    c = np.zeros(p.get_size())
    kn = p.calc_k0(silent=True, c=c, nx=14, ny=14, NLgeom=True).toarray()
    res[str(force)] = float(abs(ka - kn).max() / abs(ka).max())
out = {"relative_difference_analytic_vs_numeric_k0": res}
'''
    r = run_real(script, {})
    d = r.get('relative_difference_analytic_vs_numeric_k0', {})
    r['reproduced'] = bool(any(v > 1e-9 for v in d.values()) or r.get('raised'))
    r['input'] = 'plate 1 x 0.6, stack [30,-60,15,15,-60,30], m=5, n=6, force_orthotropic_laminate in {False, True}: calc_k0() vs calc_k0(c=0, nx=ny=14)'
    _RPL['r'] = r
    return r


def _lamkey(m):
    # writes of an exact zero are compared by value, whatever numeric type wrote them (0. / 0)
    eff = {}
    for k, v in m.writes:
        v0 = pysym._unwrap0(v)
        eff[repr(k)] = normal(v0).text() if isinstance(v0, P) else (P.const(v0).text() if isinstance(v0, (int, float)) else repr(v0))
    return (m.spec.key(), m.n, tuple(sorted(eff.items())))


def _kernel_terms(r):
    out = []
    top = pysym._flat_terms(r) if isinstance(r, Opaque) else [r]
    for t in top:
        w_, ts = pycheck.terms_of(t)
        out += [x for k_, x in ts if isinstance(x, Opaque) and x.kind == 'kernel']
    return out


# --------------------------------------------------------------------------
def check_calc_k0_numeric(led):
    """Panel.calc_k0 on the numeric route (a state c and / or a laminate table given): the numerically integrated constitutive matrix of
    the caller's state and laminate, PLUS the same constant pre-load term fkG0(Nxx_cte, Nyy_cte, Nxy_cte) as on the analytic route --
    so that the two routes agree at the undeformed state also for a pre-loaded panel (C14), and kT(0) = k0 (C08)."""
    from ..kernel import InArray, user_array
    func = PF + 'calc_k0'
    it, calls = mk()
    for geom, pre, route in itertools.product(('plate', 'cpanel'), ('none', 'preload'), ('c', 'Fnxny', 'c+Fnxny')):
        extra = dict(Nxx_cte=real('Nxx_cte'), Nyy_cte=real('Nyy_cte'), Nxy_cte=real('Nxy_cte')) if pre == 'preload' else {}
        holder = {}

        def run():
            del calls[:]
            p, kw, want, g = build(it, geom, 'uniform', 'none', extra)
            it.call(it.getattr(p, 'calc_k0'), [], dict(silent=True))
            size = it.call(it.getattr(p, 'get_size'), [], {})
            del calls[:]
            kwargs = dict(silent=True)
            c = Fn = None
            if 'c' in route.split('+'):
                c = user_array('c', shape=(size,))
                kwargs['c'] = c
            if 'Fnxny' in route:
                Fn = InArray('Fnxny_user', shape=(integer('nxq'), integer('nyq'), 6, 6))
                kwargs.update(Fnxny=Fn, nx=integer('nxq'), ny=integer('nyq'))
            holder.update(kw=kw, want=want, g=g, c=c, Fn=Fn, size=size)
            return it.call(it.getattr(p, 'calc_k0'), [], kwargs)
        res = it.explore(run)
        for path, out in res:
            conds = [repr(c_) for c_ in path.conds]
            name = '%s[%s,%s,numeric route: %s]%s' % (func, geom, pre, route, '' if len(res) == 1 else '/' + ' & '.join(c_ for c_ in conds if 'cte' in c_)[:80])
            if out[0] != 'return':
                report(led, name + '/no-exception', func, ['raises %s%s' % (out[1].tname, tuple(str(a)[:80] for a in out[1].eargs))], signature='raise:' + out[1].tname)
                continue
            kw, want, g, c, Fn = (holder[k] for k in ('kw', 'want', 'g', 'c', 'Fn'))
            wrap, terms = pycheck.terms_of(out[1])
            probs = []
            if wrap[:1] != ['symmetrized']:
                probs.append('result is not passed through finalize_symmetric_matrix')
            kern = [t for k_, t in terms if isinstance(t, Opaque) and t.kind == 'kernel']
            expect_G = pre == 'preload' and any('!= 0' in c_ and 'cte' in c_ for c_ in conds)
            names = [t.f['fn'] for t in kern]
            if names != ['fkL_num'] + (['fkG0'] if expect_G else []):
                probs.append('kernel terms %s, expected fkL_num%s' % (names, ' + fkG0(N_cte): the constant pre-load belongs to the matrix on every route' if expect_G else ''))
            else:
                a_ = kern[0].f['args']
                if c is not None and getattr(a_.get('cs'), 'name', None) != 'c':
                    probs.append('fkL_num does not receive the caller state')
                if Fn is not None and panelctx.vkey(a_.get('Finput')) != panelctx.vkey(Fn):
                    probs.append('fkL_num does not receive the caller\'s laminate table')
                if Fn is None and panelctx.vkey(a_.get('Finput')) != panelctx.vkey(want['lam.ABD']):
                    probs.append('fkL_num: laminate is %s, expected the ABD of the panel definition' % pycheck.describe(a_.get('Finput')))
                if expect_G:
                    probs += pycheck.diff_kernel(kern[1], 'fkG0', g['model'], dict(Nxx=kw['Nxx_cte'], Nyy=kw['Nyy_cte'], Nxy=kw['Nxy_cte'], size=holder['size'], row0=0, col0=0), want)
            if any(k_ != 1 for k_, t in terms):
                probs.append('a term is scaled')
            report(led, name, func, probs, signature='k0-numeric:%s' % ';'.join(probs)[:120])
    led.solver_time('z3-feasibility', it.solver_time)
