"""C03 -- geometric stiffness == Hessian of the pre-stress work 1/2 int (Nxx w,x^2 + 2 Nxy w,x w,y + Nyy w,y^2).

Functions under contract:
  panel/models/{plate,plate_w,cpanel,kpanel}*.pyx : fkG0, fkG0y1y2   (kernel contracts, symbolic loop indices)
  panel/_panel.py : Panel.calc_kG0 (constant-load route and argument pass-through of the state route), Panel.lb pass-through
  panel/models/{plate,cpanel}_clt_donnell_bardell_num.pyx : fkG_num  (integrand-level contract, see c03_num)
"""
import sys

from ..core import run_check
from ..poly import P
from .. import kharness as K, spec_panel as S
from ..pysym import real
from . import kern_common as KC, py_panel, replays

DOFS = {'plate': ('u', 'v', 'w'), 'plate_w': ('w',), 'cpanel': ('u', 'v', 'w'), 'kpanel': ('u', 'v', 'w')}


def prestress_form(model):
    def form(panel, scal, geo):
        ops = S.slope_operators(geo['a'], geo['b'])
        W = {('wx', 'wx'): scal['Nxx'], ('wy', 'wy'): scal['Nyy'], ('wx', 'wy'): scal['Nxy'], ('wy', 'wx'): scal['Nxy']}
        return ops, W, DOFS[model]
    return form


def body(led):
    led.assume('C03: table functions through their C10 contracts; m, n <= 30; coo duplicates are summed (A4)')
    led.trust('cmverif pyx front end, symbolic executor, normaliser; z3')
    for model in ('plate', 'plate_w', 'cpanel', 'kpanel'):
        for fname, y in (('fkG0', False), ('fkG0y1y2', True)):
            KC.run(led, model, fname, ['Nxx', 'Nyy', 'Nxy'], prestress_form(model), y1y2=y, cone_alt=False,
                   replay=replays.panel_matrix('kG0', model, y))
    py_panel.check_calc_kG0(led, replay=replays.panel_matrix('kG0', 'plate', False))
    py_panel.check_calc_kG0_state(led)
    py_panel.check_one_laminate(led)
    # Panel.lb builds the geometric matrix from the state handed in as c (and the constitutive one from ckL): argument pass-through
    from . import c05
    c05.check_panel_lb(led, arguments_only=True)
    from . import c03_num
    c03_num.body(led)
    ok, _ = K.compare(real('Nxx') * 2, real('Nxx'))
    led.canary('2*Nxx vs Nxx', not ok)


def main():
    return run_check('C03', body)


if __name__ == '__main__':
    sys.exit(main())
