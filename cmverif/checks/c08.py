"""C08 -- internal force is the energy gradient, the tangent stiffness its exact Jacobian (integrand level).

Functions under contract:
  panel/models/{plate,cpanel}_clt_donnell_bardell_num.pyx : calc_fint, fkL_num, fkG_num
  panel/_panel.py : Panel.calc_kT, Panel.calc_fint (argument pass-through); assembly parts are in C13.
At an arbitrary integration point (xi, eta, weight symbolic; state sums as canonical sum atoms) the energy density is
      U_pt = weight * (a b / 4) * 1/2 eps(c)^T F eps(c),     eps = Donnell strains with the quadratic slope terms;
the spec differentiates U_pt formally with respect to two amplitude increments t (term A, dof p) and s (term B, dof q):
      fint_A == dU/dt |0 ,      (kL + kG)_AB == d2U/dt ds |0 .
Quadrature points, weights and orders are symbolic, so the identities hold for every rule; fint(c=0)=0 is checked by
substituting zero state sums.
"""
import sys
from fractions import Fraction

import numpy as np

from ..core import run_check, CheckerError
from ..poly import P, normal, rational_close, mono_text
from .. import kharness as K, kernel, pysym, spec_panel as S, kcheck
from ..pysym import integer, real, to_z3
from ..kernel import InArray, OutArray, make_sum, ATOM_DEPS, deps_of, Slot
from .c11_kernel import Fval

MODS = {'plate': 'plate_clt_donnell_bardell_num', 'cpanel': 'cpanel_clt_donnell_bardell_num'}


class LamTable(InArray):
    """per-point laminate table [nx, ny, 6, 6]; requires (C01): each 6x6 is [[A,B],[B,D]] with symmetric blocks, so the
    entry (s,t) is identified with its canonical representative"""
    def sym_load(self, interp, k, node):
        if isinstance(k, tuple) and len(k) == 4:
            px, py, s_, t_ = k
            blk = 'A' if (s_ < 3 and t_ < 3) else ('D' if (s_ >= 3 and t_ >= 3) else 'B')
            x, y = s_ % 3, t_ % 3
            name = 'Ftab_%s%d%d[%s,%s]' % (blk, min(x, y) + 1, max(x, y) + 1, normal(px).text() if isinstance(px, P) else px, normal(py).text() if isinstance(py, P) else py)
            ATOM_DEPS[name] = deps_of(px) | deps_of(py)
            return P.atom(name)
        return InArray.sym_load(self, interp, k, node)


def install(it):
    def scalar(order):
        def c(itp, args, kw):
            return Fval(order, args[0], tuple(args[2:6]), args[1])
        return c
    it.contracts['extern.calc_f'] = scalar(0)
    it.contracts['extern.calc_fxi'] = scalar(1)
    it.contracts['extern.calc_fxixi'] = scalar(2)

    def gauss(itp, args, kw):
        n, pts, wts = args
        nt = normal(n).text() if isinstance(n, P) else str(n)
        pts.arr.fill = 'gauss_x<%s>' % nt
        wts.arr.fill = 'gauss_w<%s>' % nt
        return None
    it.contracts['extern.leggauss_quad'] = gauss
    old_asarray = it.np.asarray
    it.np.asarray = lambda x, dtype=None: x if isinstance(x, InArray) else old_asarray(x, dtype)
    old_empty = getattr(it.np, 'empty', None)
    it.np.empty = lambda shape=None, dtype=None: InArray('unused-dummy', shape=tuple(shape))


def state_sum(dof, ox, oy, xi, eta, m, n, col0, scale=None):
    i, j = integer('i'), integer('j')
    d = 'uvw'[dof]
    col = col0 + 3 * (j * m + i) + dof
    cidx = 'cs[%s]' % normal(col).text()
    ATOM_DEPS[cidx] = {'i', 'j'} | deps_of(m) | deps_of(col0)
    term = P.atom(cidx) * Fval(ox, i, S.flagset(d, 'x'), xi) * Fval(oy, j, S.flagset(d, 'y'), eta)
    if scale is not None:
        term = term * scale
    return make_sum('j', 0, n, make_sum('i', 0, m, term, []), [])


def energy_derivatives(model, panel, F, xi, eta, weight, col0, NL, A, B, p, q):
    """formal derivatives of U_pt w.r.t. increments t (dof p of term A=(I,J)) and s (dof q of term B=(K,L))"""
    a, b, r = panel.attrs['a'], panel.attrs['b'], panel.attrs['r']
    m, n = panel.attrs['m'], panel.attrs['n']
    sx, sy = 2 / a, 2 / b
    t, s = P.atom('$t'), P.atom('$s')

    def shape(d, ox, oy, who):
        I, J = who
        return Fval(ox, P.atom(I), S.flagset(d, 'x'), xi) * Fval(oy, P.atom(J), S.flagset(d, 'y'), eta)

    def field(dof, ox, oy):
        d = 'uvw'[dof]
        val = state_sum(dof, ox, oy, xi, eta, m, n, col0) * (sx ** ox) * (sy ** oy)
        if p == dof:
            val = val + t * shape(d, ox, oy, A) * (sx ** ox) * (sy ** oy)
        if q == dof:
            val = val + s * shape(d, ox, oy, B) * (sx ** ox) * (sy ** oy)
        return val
    ux, uy = field(0, 1, 0), field(0, 0, 1)
    vx, vy = field(1, 1, 0), field(1, 0, 1)
    w0, wx, wy = field(2, 0, 0), field(2, 1, 0), field(2, 0, 1)
    wxx, wyy, wxy = field(2, 2, 0), field(2, 0, 2), field(2, 1, 1)
    half = Fraction(1, 2)
    eps = [ux + NL * half * wx * wx,
           vy + (w0 / r if model == 'cpanel' else 0) + NL * half * wy * wy,
           uy + vx + NL * wx * wy,
           -wxx, -wyy, -2 * wxy]
    U = P.const(0)
    for s_ in range(6):
        for t_ in range(6):
            U = U + F[s_][t_] * eps[s_] * eps[t_]
    U = U * half * weight * a * b * Fraction(1, 4)
    dU_dt = U.diff('$t').subs({'$t': 0, '$s': 0})
    d2U = U.diff('$t').diff('$s').subs({'$t': 0, '$s': 0})
    return dU_dt, d2U


def F_of(kind, panel, ptx, pty):
    if kind == 'uniform':
        return panel.attrs['lam'].attrs['ABD']
    tab = LamTable('Fnxny')
    return [[tab.sym_load(None, (ptx, pty, s_, t_), None) for t_ in range(6)] for s_ in range(6)]


def run(model, fname, NLgeom, kind):
    it = K.make_interp(counters=('c',))
    install(it)
    it.max_paths = 2000
    panel = K.sym_panel(it)
    it.facts.append(to_z3(panel.attrs['r']) > 0)
    f = K.kernel_func(it, K.__name__ and 'compmech.panel.models.' + MODS[model], fname)
    size, row0, col0 = integer('size'), integer('row0'), integer('row0')
    nx, ny = integer('nx'), integer('ny')
    it.facts += [to_z3(nx) >= 2, to_z3(ny) >= 2]
    cs = InArray('cs')
    Fin = panel.attrs['lam'].attrs['ABD'] if kind == 'uniform' else LamTable('Fnxny', shape=(nx, ny, 6, 6))

    def thunk():
        if fname == 'calc_fint':
            return it.call(f, [cs, Fin, panel, size, col0, nx, ny], {})
        return it.call(f, [cs, Fin, panel, size, row0, col0, nx, ny], {'NLgeom': NLgeom})
    res = it.explore(thunk)
    return it, res, panel, (size, row0, col0, nx, ny)


def groups_by_ordinal(coo):
    """slots in emission order with whatever of row/col/val was stored"""
    groups = {}
    for arr, key in ((coo.f['r'], 'row'), (coo.f['c'], 'col'), (coo.f['v'], 'val')):
        for (k, v, mode, conds, line, lv) in arr.stores:
            if not isinstance(k, Slot):
                raise CheckerError('line %d: store with a non-slot index' % line)
            g = groups.setdefault(k.seq, {'conds': conds, 'loopvars': lv, 'line': line})
            g[key] = v
            if key == 'val':
                g['conds'] = conds
    return [groups[k] for k in sorted(groups)]


def merged_emissions(res):
    """the kernels write row/col only at the first integration point (ptx == 0 and pty == 0) and accumulate values at every
    point; slots correspond by ordinal (slot determinacy is checked), so rows/cols are taken from the first-point path"""
    per_path = []
    for path, out in res:
        if out[0] != 'return':
            continue
        g = groups_by_ordinal(out[1])
        if g:
            per_path.append((path, g))
    if not per_path:
        return None, []
    with_rows = [pg for pg in per_path if all('row' in x for x in pg[1])]
    generic = [pg for pg in per_path if not all('row' in x for x in pg[1])] or with_rows
    if not with_rows:
        raise CheckerError('no path stores the row/col indices')
    rows = with_rows[0][1]
    out = []
    for path, g in generic:
        if len(g) != len(rows):
            raise CheckerError('slot sequences of different length on two paths (slot determinacy violated)')
        out.append((path, [dict(x, row=rw['row'], col=rw['col']) for x, rw in zip(g, rows)]))
    return rows, out


def cmp(led, name, func, code, spec, sig=None):
    ok, bad, _ = rational_close(code if isinstance(code, P) else P.const(code), spec)
    if ok:
        led.ok(name, func)
    else:
        led.fail(name, func, {'residual': [{'monomial': mono_text(m_)[:160], 'code': str(x), 'spec': str(y)} for m_, x, y in bad[:3]], 'n_bad': len(bad)},
                 signature=sig or 'residual')
    return ok


def check_tangent(led, model, kind):
    """kL + kG (NLgeom=1) == d2U/dt ds for symbolic term indices"""
    fL = 'compmech/panel/models/%s.pyx:fkL_num' % MODS[model]
    fG = 'compmech/panel/models/%s.pyx:fkG_num' % MODS[model]
    led.function(fL)
    led.function(fG)
    itL, resL, panel, (size, row0, col0, nx, ny) = run(model, 'fkL_num', 1, kind)
    itG, resG, panelG, _ = run(model, 'fkG_num', 1, kind)
    for (path, out) in list(resL) + list(resG):
        if out[0] == 'raise':
            led.fail('%s/no-exception[%s]' % (fL, kind), fL, {'raises': out[1].tname, 'args': [str(x)[:100] for x in out[1].eargs]}, signature='raise:' + out[1].tname)
    _, emL = merged_emissions(resL)
    _, emG = merged_emissions(resG)
    if not emL or not emG:
        led.fail('%s/emits[%s]' % (fL, kind), fL, {'reason': 'no emission path'}, signature='empty')
        return
    m, n = panel.attrs['m'], panel.attrs['n']
    pathL, gL = emL[0]
    pathG, gG = emG[0]
    ptx, pty = P.atom('ptx'), P.atom('pty')
    xi, eta = P.atom('gauss_x<1*nx>[1*ptx]'), P.atom('gauss_x<1*ny>[1*pty]')
    weight = P.atom('gauss_w<1*nx>[1*ptx]') * P.atom('gauss_w<1*ny>[1*pty]')
    F = F_of(kind, panel, ptx, pty)
    tot = {}
    roles = None
    for which, groups in (('kL', gL), ('kG', gG)):
        for g in groups:
            lv = [v for v in g['loopvars'] if v not in ('ptx', 'pty')]
            dr = K.decode_index(g['row'], row0, 3, m, lv)
            dc = K.decode_index(g['col'], col0, 3, m, lv)
            if dr is None or dc is None:
                led.fail('%s/placement[%s]' % (fL if which == 'kL' else fG, kind), fL, {'row': str(g['row']), 'col': str(g['col'])}, signature='placement')
                continue
            I, J, p = dr
            Kk, L, q = dc
            if roles is None:
                roles = (I, J, Kk, L)
            if roles != (I, J, Kk, L):
                # the two kernels may name their loop variables differently: rename
                g_val = g['val']
                for old, new in zip((I, J, Kk, L), roles):
                    pass
            tot[(p, q)] = tot.get((p, q), P.const(0)) + g['val']
    if roles is None:
        return
    I, J, Kk, L = roles
    for p in range(3):
        for q in range(3):
            _, d2U = energy_derivatives(model, panel, F, xi, eta, weight, col0, 1, (I, J), (Kk, L), p, q)
            cmp(led, '%s+fkG_num/tangent-entry[%d,%d]==d2U[%s,%s]' % (fL, p, q, kind, 'NLgeom=1'), fL, tot.get((p, q), P.const(0)), d2U, sig='tangent%d%d' % (p, q))
    # slot determinacy: guard conditions involve indices only
    for which, (path, groups) in (('fkL_num', emL[0]), ('fkG_num', emG[0])):
        dep = set()
        for g in groups:
            for c in g['conds']:
                if kcheck.is_index_cond(c):
                    dep |= c.b.atoms()
        stray = sorted(a for a in dep if a not in (I, J, Kk, L, 'm', 'n', 'row0', 'ptx', 'pty', 'nx', 'ny', 'i', 'j', 'k', 'l'))
        nm = 'compmech/panel/models/%s.pyx:%s/slot-determinacy[%s]' % (MODS[model], which, kind)
        led.ok(nm, fL) if not stray else led.fail(nm, fL, {'depends_on': stray}, signature='slots')
    led.solver_time('z3-feasibility', itL.solver_time + itG.solver_time)


def check_fint(led, model, kind):
    func = 'compmech/panel/models/%s.pyx:calc_fint' % MODS[model]
    led.function(func)
    it, res, panel, (size, row0, col0, nx, ny) = run(model, 'calc_fint', None, kind)
    m, n = panel.attrs['m'], panel.attrs['n']
    ptx, pty = P.atom('ptx'), P.atom('pty')
    xi, eta = P.atom('gauss_x<1*nx>[1*ptx]'), P.atom('gauss_x<1*ny>[1*pty]')
    weight = P.atom('gauss_w<1*nx>[1*ptx]') * P.atom('gauss_w<1*ny>[1*pty]')
    F = F_of(kind, panel, ptx, pty)
    done = False
    for path, out in res:
        if out[0] != 'return':
            led.fail('%s/no-exception[%s]' % (func, kind), func, {'raises': out[1].tname, 'args': [str(x)[:100] for x in out[1].eargs]}, signature='raise:' + out[1].tname)
            continue
        fint = out[1]
        if not isinstance(fint, OutArray):
            led.fail('%s/returns-vector[%s]' % (func, kind), func, {'returned': repr(fint)}, signature='ret')
            continue
        if not normal(fint.length - size).is_zero():
            led.fail('%s/length[%s]' % (func, kind), func, {'length': str(fint.length)}, signature='len')
        seen = {}
        for (k, v, mode, conds, line, lv) in fint.stores:
            lvs = [x for x in lv if x not in ('ptx', 'pty')]
            dr = K.decode_index(k, col0, 3, m, lvs)
            if dr is None or mode != '+=':
                led.fail('%s/placement[%s]@%d' % (func, kind, line), func, {'index': str(k), 'mode': mode}, signature='placement')
                continue
            I, J, p = dr
            seen[p] = seen.get(p, P.const(0)) + v
            roles = (I, J)
        for p in range(3):
            dU, _ = energy_derivatives(model, panel, F, xi, eta, weight, col0, 1, roles, ('$K', '$L'), p, None)
            ok = cmp(led, '%s/entry[%d]==dU/dc[%s]' % (func, p, kind), func, seen.get(p, P.const(0)), dU, sig='fint%d' % p)
            # internal force of the undeformed panel: zero state sums
            zero = {a_: 0 for a_ in normal(seen.get(p, P.const(0))).atoms() if a_.startswith('SUM{')}
            z = normal(seen.get(p, P.const(0)).subs(zero))
            nm = '%s/entry[%d]-vanishes-at-the-undeformed-state[%s]' % (func, p, kind)
            led.ok(nm, func) if z.is_zero() else led.fail(nm, func, {'value_at_c=0': z.text()[:200]}, signature='fint0')
        done = True
    if not done:
        led.fail('%s/emits[%s]' % (func, kind), func, {'reason': 'no returning path'}, signature='empty')
    led.solver_time('z3-feasibility', it.solver_time)


def body(led):
    led.assume('C08: identities hold at every integration point for symbolic points/weights/orders (hence for every rule); the accuracy of the '
               'quadrature itself (Gauss exactness for the quartic integrand) is the C10 contract of leggauss_quad')
    led.assume('C08: state sums are canonical sum terms over the series; the per-point laminate table has symmetric [[A,B],[B,D]] blocks (C01)')
    led.trust('cmverif pyx front end, symbolic executor (generic-iteration schema with accumulators), normaliser')
    for model in ('plate', 'cpanel'):
        for kind in ('uniform', 'table'):
            check_fint(led, model, kind)
            check_tangent(led, model, kind)
    from . import py_panel
    py_panel.check_calc_kT_fint(led)
    py_panel.check_one_laminate(led)
    py_panel.check_calc_k0_numeric(led)
    # assemblies (the property names them): tangent and internal force are the sums of the panels' own terms at their ranges plus the
    # connection matrix / connection matrix times the state (same obligations as in C13)
    from . import py_assembly as A
    A.check_matrix(led, 'calc_kT', ['fkL_num', 'fkG_num'], with_conn=True, state=True)
    A.check_matrix(led, 'calc_fint', ['calc_fint'], with_conn=True, state=True)
    # the way Analysis.static calls them: with the load level (no prescribed amplitudes in an assembly: the result does not depend on it)
    A.check_matrix(led, 'calc_kT', ['fkL_num', 'fkG_num'], with_conn=True, state=True, extra_kwargs={'inc': real('inc_level')})
    A.check_matrix(led, 'calc_fint', ['calc_fint'], with_conn=True, state=True, extra_kwargs={'inc': real('inc_level')})


def main():
    return run_check('C08', body)


if __name__ == '__main__':
    sys.exit(main())
