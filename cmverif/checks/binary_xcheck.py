"""Thorough tier only: numeric cross-checks of the INSTALLED compiled extensions against the contracts that were proved on the .pyx text
(the extensions cannot be rebuilt in this sandbox, so the proofs speak about the source and these runs about the binary that
the test suite executes).  Bounded, labelled as such; skipped for a module whose .pyx differs from the commit the binary was
built from.  A disagreement between a discharged proof and the binary is a checker error (engine or specification wrong, or a
stale binary), never a violation."""
from .. import pyreplay

FIELD = '''
import numpy as np
from compmech.panel import Panel
from compmech.panel.models import clt_bardell_field as F, clt_bardell_field_w as FW
rs = np.random.RandomState(5)
worst = {}
for mod, model, num in ((F, 'cpanel_clt_donnell_bardell', 3), (FW, 'plate_clt_donnell_bardell_w', 1)):
    p = Panel(a=2., b=1., r=(3. if num == 3 else None), m=5, n=4, stack=[0, 45, -45, 90], plyt=1.25e-4, laminaprop=(142.5e9, 8.7e9, 0.28, 5.1e9, 5.1e9, 5.1e9), model=model)
    p._rebuild()
    p.r = p.r or 0.
    c = rs.rand(num*5*4)
    for size in (1, 2, 3, 5, 8, 13, 16, 17, 31, 64, 101):
        xs = rs.rand(size)*2.; ys = rs.rand(size)
        perm = rs.permutation(size)
        funcs = [('fuvw', lambda nc, X, Y: mod.fuvw(c, p, X, Y, nc))]
        if num == 3:
            funcs += [('fstrain0', lambda nc, X, Y: mod.fstrain(c, p, X, Y, nc, 0)), ('fstrain1', lambda nc, X, Y: mod.fstrain(c, p, X, Y, nc, 1))]
        for name, f in funcs:
            ref = [np.array(a) for a in f(1, xs, ys)]
            scale = max(max(abs(a).max() for a in ref), 1e-300)
            one = [np.array([np.array(f(1, xs[k:k+1], ys[k:k+1])[i])[0] for k in range(size)]) for i in range(len(ref))]
            d = max(abs(a - b).max() for a, b in zip(ref, one))/scale
            key = '%s.%s/point-by-point' % (mod.__name__.split('.')[-1], name)
            worst[key] = max(worst.get(key, 0.), float(d))
            for nc in (2, 3, 4, 7, 16):
                got = [np.array(a) for a in f(nc, xs, ys)]
                ok_len = all(len(a) == size for a in got)
                d = max(abs(a - b).max() for a, b in zip(ref, got))/scale if ok_len else 1.
                key = '%s.%s/thread-count' % (mod.__name__.split('.')[-1], name)
                worst[key] = max(worst.get(key, 0.), float(d))
                gotp = [np.array(a) for a in f(nc, xs[perm], ys[perm])]
                d = max(abs(a[perm] - b).max() for a, b in zip(ref, gotp))/scale
                key = '%s.%s/order' % (mod.__name__.split('.')[-1], name)
                worst[key] = max(worst.get(key, 0.), float(d))
out = {'worst_relative_deviation': worst}
'''

CONN = '''
import numpy as np
from numpy.polynomial.legendre import leggauss
from compmech.panel import Panel
from compmech.panel import connections as C
from compmech.sparse import make_symmetric
rs = np.random.RandomState(7)
lp = (142.5e9, 8.7e9, 0.28, 5.1e9, 5.1e9, 5.1e9)
def panel(a, b, m, n):
    p = Panel(a=a, b=b, m=m, n=n, stack=[0, 90, 90, 0], plyt=1.25e-4, laminaprop=lp, model='plate_clt_donnell_bardell')
    for f in ('u1tx','u1rx','u2tx','u2rx','v1tx','v1rx','v2tx','v2rx','w1tx','w1rx','w2tx','w2rx','u1ty','u1ry','u2ty','u2ry','v1ty','v1ry','v2ty','v2ry','w1ty','w1ry','w2ty','w2ry'):
        setattr(p, f, float(rs.randint(0, 2)))
    p._rebuild(); p.r = 0.
    return p
def dense(M):
    M = np.asarray(M.todense())
    return M
res = {}
kt, kr, dsb = 3.7, 0.9, 0.013
xg, wg = leggauss(40)
for kind in ('SSycte', 'SSxcte', 'BFycte', 'BFxcte', 'SB'):
    worst_psd, worst_en = 0., 0.
    for trial in range(3):
        if kind.endswith('ycte'):
            p1, p2 = panel(1.3, 0.7, 4, 3), panel(1.3, 0.45, 3, 5)
        elif kind.endswith('xcte'):
            p1, p2 = panel(1.3, 0.7, 4, 3), panel(0.9, 0.7, 3, 5)
        else:
            p1, p2 = panel(1.3, 0.7, 4, 3), panel(1.3, 0.7, 3, 5)
        n1, n2 = 3*p1.m*p1.n, 3*p2.m*p2.n
        size = n1 + n2
        c1, c2 = rs.rand()*0.9 + 0.05, rs.rand()*0.9 + 0.05
        if kind == 'SSycte':
            y1, y2 = c1*p1.b, c2*p2.b
            k11 = C.kCSSycte.fkCSSycte11(kt, kr, p1, y1, size, 0, 0); k12 = C.kCSSycte.fkCSSycte12(kt, kr, p1, p2, y1, y2, size, 0, n1); k22 = C.kCSSycte.fkCSSycte22(kt, kr, p1, p2, y2, size, n1, n1)
        elif kind == 'BFycte':
            y1, y2 = c1*p1.b, c2*p2.b
            k11 = C.kCBFycte.fkCBFycte11(kt, kr, p1, y1, size, 0, 0); k12 = C.kCBFycte.fkCBFycte12(kt, kr, p1, p2, y1, y2, size, 0, n1); k22 = C.kCBFycte.fkCBFycte22(kt, kr, p1, p2, y2, size, n1, n1)
        elif kind == 'SSxcte':
            x1, x2 = c1*p1.a, c2*p2.a
            k11 = C.kCSSxcte.fkCSSxcte11(kt, kr, p1, x1, size, 0, 0); k12 = C.kCSSxcte.fkCSSxcte12(kt, kr, p1, p2, x1, x2, size, 0, n1); k22 = C.kCSSxcte.fkCSSxcte22(kt, kr, p1, p2, x2, size, n1, n1)
        elif kind == 'BFxcte':
            x1, x2 = c1*p1.a, c2*p2.a
            k11 = C.kCBFxcte.fkCBFxcte11(kt, kr, p1, x1, size, 0, 0); k12 = C.kCBFxcte.fkCBFxcte12(kt, kr, p1, p2, x1, x2, size, 0, n1); k22 = C.kCBFxcte.fkCBFxcte22(kt, kr, p1, p2, x2, size, n1, n1)
        else:
            k11 = C.kCSB.fkCSB11(kt, dsb, p1, size, 0, 0); k12 = C.kCSB.fkCSB12(kt, dsb, p1, p2, size, 0, n1); k22 = C.kCSB.fkCSB22(kt, p1, p2, size, n1, n1)
        Kd = dense(make_symmetric(k11 + k22)) + dense(k12) + dense(k12).T
        w = np.linalg.eigvalsh((Kd + Kd.T)/2)
        worst_psd = max(worst_psd, float(-w.min()/w.max()))
        # energy by quadrature of the jump, with the package's own field recovery
        c = rs.rand(size) - 0.5
        ca, cb = c[:n1].copy(), c[n1:].copy()
        def fields(p, cc, xs, ys):
            u, v, w_, px, py = p.uvw(cc, xs=xs, ys=ys)
            return [np.asarray(q).ravel() for q in (u, v, w_, px, py)]
        if kind.endswith('ycte'):
            xs = (xg + 1)/2*p1.a
            A = fields(p1, ca, xs, np.ones_like(xs)*y1); B = fields(p2, cb, xs, np.ones_like(xs)*y2)
            wq = wg*p1.a/2
            rot = (-A[4]) - (-B[4])      # w,y jump (phiy = -w,y)
        elif kind.endswith('xcte'):
            ys = (xg + 1)/2*p1.b
            A = fields(p1, ca, np.ones_like(ys)*x1, ys); B = fields(p2, cb, np.ones_like(ys)*x2, ys)
            wq = wg*p1.b/2
            rot = (-A[3]) - (-B[3])
        else:
            X, Y = np.meshgrid((xg + 1)/2*p1.a, (xg + 1)/2*p1.b)
            A = fields(p1, ca, X.ravel(), Y.ravel()); B = fields(p2, cb, X.ravel(), Y.ravel())
            wq = np.outer(wg*p1.b/2, wg*p1.a/2).ravel()
            rot = 0.*A[0]
        best = None
        for s in (1, -1):
            if kind.startswith('SS'):
                J = [A[0] - B[0], A[1] - B[1], A[2] - B[2]]
            elif kind == 'BFycte':
                J = [A[0] - B[0], A[1] - s*B[2], A[2] + s*B[1]]
            elif kind == 'BFxcte':
                J = [A[0] - s*B[2], A[1] - B[1], A[2] + s*B[0]]
            else:
                J = [A[0] + s*dsb*(-A[3]) - B[0], A[1] + s*dsb*(-A[4]) - B[1], A[2] - B[2]]
            E = 0.5*kt*sum((j*j*wq).sum() for j in J) + 0.5*kr*(rot*rot*wq).sum()
            Ec = 0.5*c.dot(Kd).dot(c)
            d = abs(E - Ec)/max(abs(E), 1e-300)
            best = d if best is None else min(best, d)
        worst_en = max(worst_en, float(best))
    res[kind] = {'negative_eigenvalue_ratio': worst_psd, 'energy_relative_deviation': worst_en}
out = {'by_kind': res}
'''


def check_fields(led):
    lab = 'compmech/panel/models (installed binary): fuvw / fstrain'
    # the clauses checked here (thread count, order, point-by-point) concern the wrappers and the u, v, w, slope kernels; cfstrain was
    # repaired at source level after the build, which does not affect them
    ok_text = (pyreplay.functions_match_build('compmech/panel/models/clt_bardell_field.pyx', ['fuvw', 'fstrain', 'cfuvw', 'cfwx', 'cfwy'])
               and pyreplay.binary_matches_source(['compmech/panel/models/clt_bardell_field_w.pyx']))
    if not ok_text:
        led.bounded_item('field wrappers: numeric cross-check skipped, the installed extension was not built from the current text of fuvw / fstrain')
        return
    led.bounded_item('numeric cross-check of the installed field extensions (thorough tier): 11 point counts 1..101 x thread counts {1,2,3,4,7,16}, random points, '
                     'a permutation, point-by-point evaluation; one cylindrical and one w-only panel')
    r = pyreplay.run_real(FIELD, {}, timeout=1500)
    if r.get('raised') or r.get('replay_error'):
        led.error('numeric cross-check of the field wrappers could not run: %s' % (r.get('raised') or r.get('replay_error')))
        return
    for key, d in sorted((r.get('worst_relative_deviation') or {}).items()):
        name = '%s/numeric-cross-check/%s' % (lab, key)
        if d <= 1e-12:
            led.ok(name, lab, backend='numeric(bounded)')
        else:
            led.error('%s: the binary deviates by %.3g although the wrapper contract was proved on the .pyx text' % (name, d))


def check_connections(led):
    lab = 'compmech/panel/connections (installed binary)'
    files = ['compmech/panel/connections/%s.pyx' % k for k in ('kCSSxcte', 'kCSSycte', 'kCBFxcte', 'kCBFycte', 'kCSB')]
    if not (pyreplay.binary_matches_source(files) and pyreplay.functions_match_build('compmech/panel/models/clt_bardell_field.pyx', ['fuvw', 'cfuvw', 'cfwx', 'cfwy'])):
        led.bounded_item('connection kernels: numeric cross-check skipped, the installed extension was not built from the current .pyx text')
        return
    led.bounded_item('numeric cross-check of the installed connection extensions (thorough tier): 5 kinds x 3 random panel pairs (unequal sizes, orders, random edge flags, '
                     'interior interface positions): positive semi-definiteness and c^T K c / 2 == quadrature of the jump energy from the package\'s own field recovery')
    r = pyreplay.run_real(CONN, {}, timeout=1500)
    if r.get('raised') or r.get('replay_error'):
        led.error('numeric cross-check of the connection kernels could not run: %s' % (r.get('raised') or r.get('replay_error')))
        return
    for kind, d in sorted((r.get('by_kind') or {}).items()):
        for key, tol in (('negative_eigenvalue_ratio', 1e-9), ('energy_relative_deviation', 1e-8)):
            name = '%s/numeric-cross-check/%s/%s' % (lab, kind, key)
            if d[key] <= tol:
                led.ok(name, lab, backend='numeric(bounded)')
            else:
                led.error('%s: %.3g although the kernel contract was proved on the .pyx text' % (name, d[key]))


STIFF = '''
import numpy as np
from numpy.polynomial.legendre import leggauss
from compmech.panel import Panel
from compmech.stiffener.models import bladestiff1d_clt_donnell_bardell as B1, bladestiff2d_clt_donnell_bardell as B2, tstiff2d_clt_donnell_bardell as T2
from compmech.sparse import make_symmetric
rs = np.random.RandomState(11)
lp = (142.5e9, 8.7e9, 0.28, 5.1e9, 5.1e9, 5.1e9)
FL = ('u1tx','u1rx','u2tx','u2rx','v1tx','v1rx','v2tx','v2rx','w1tx','w1rx','w2tx','w2rx','u1ty','u1ry','u2ty','u2ry','v1ty','v1ry','v2ty','v2ry','w1ty','w1ry','w2ty','w2ry')
def panel(a, b, m, n):
    p = Panel(a=a, b=b, m=m, n=n, stack=[0, 90, 90, 0], plyt=1.25e-4, laminaprop=lp, model='plate_clt_donnell_bardell')
    for f in FL:
        setattr(p, f, float(rs.randint(0, 2)))
    p._rebuild(); p.r = 0.
    return p
def fl(p, names):
    return [getattr(p, n) for n in names]
XF = ['u1tx','u1rx','u2tx','u2rx','v1tx','v1rx','v2tx','v2rx','w1tx','w1rx','w2tx','w2rx']
YF = ['u1ty','u1ry','u2ty','u2ry','v1ty','v1ry','v2ty','v2ry','w1ty','w1ry','w2ty','w2ry']
def dense(M):
    return np.asarray(M.todense())
def fields(p, cc, xs, ys):
    return [np.asarray(q).ravel() for q in p.uvw(cc, xs=np.asarray(xs, dtype=float), ys=np.asarray(ys, dtype=float))]
xg, wg = leggauss(40)
res = {}
kt, kr = 2.3, 0.7
worst = 0.; worst_psd = 0.
for trial in range(3):
    # ---- 2-D blade: skin line y = ys <-> flange edge eta = -1
    sk, fla = panel(1.3, 0.7, 4, 3), panel(1.3, 0.09, 3, 4)
    ys = (0.1 + 0.8*rs.rand())*sk.b
    n1, n2 = 3*sk.m*sk.n, 3*fla.m*fla.n
    size = n1 + n2
    kss = B2.fkCss(kt, kr, ys, sk.a, sk.b, sk.m, sk.n, *(fl(sk, XF) + fl(sk, YF) + [size, 0, 0]))
    ksf = B2.fkCsf(kt, kr, ys, sk.a, sk.b, fla.b, sk.m, sk.n, fla.m, fla.n, *(fl(sk, XF) + fl(sk, YF) + fl(fla, XF) + fl(fla, YF) + [size, 0, n1]))
    kff = B2.fkCff(kt, kr, sk.a, fla.b, fla.m, fla.n, *(fl(fla, XF) + fl(fla, YF) + [size, n1, n1]))
    Kd = dense(make_symmetric(kss + kff)) + dense(ksf) + dense(ksf).T
    w = np.linalg.eigvalsh((Kd + Kd.T)/2); worst_psd = max(worst_psd, float(-w.min()/w.max()))
    c = rs.rand(size) - 0.5
    xs = (xg + 1)/2*sk.a
    A = fields(sk, c[:n1].copy(), xs, np.ones_like(xs)*ys); B = fields(fla, c[n1:].copy(), xs, np.zeros_like(xs))
    wq = wg*sk.a/2
    best = None
    for s in (1, -1):
        J = [A[0] - B[0], A[1] - s*B[2], A[2] + s*B[1]]
        rot = (-A[4]) - (-B[4])
        E = 0.5*kt*sum((j*j*wq).sum() for j in J) + 0.5*kr*(rot*rot*wq).sum()
        d = abs(E - 0.5*c.dot(Kd).dot(c))/abs(E)
        best = d if best is None else min(best, d)
    worst = max(worst, float(best))
res['bladestiff2d fkCss/fkCsf/fkCff'] = {'energy_relative_deviation': worst, 'negative_eigenvalue_ratio': worst_psd}
worst = 0.; worst_psd = 0.
for trial in range(3):
    # ---- T stiffener: skin strip y1..y2 <-> base surface
    sk = panel(1.3, 0.7, 4, 3)
    y1 = (0.1 + 0.3*rs.rand())*sk.b; y2 = y1 + (0.1 + 0.3*rs.rand())*sk.b
    ba = panel(1.3, y2 - y1, 3, 4)
    dpb = 0.004
    n1, n2 = 3*sk.m*sk.n, 3*ba.m*ba.n
    size = n1 + n2
    kpp = T2.fkCppy1y2(y1, y2, kt, sk.a, sk.b, dpb, sk.m, sk.n, *(fl(sk, XF) + fl(sk, YF) + [size, 0, 0]))
    kpb = T2.fkCpby1y2(y1, y2, kt, sk.a, sk.b, dpb, sk.m, sk.n, ba.m, ba.n, *(fl(sk, XF) + fl(sk, YF) + fl(ba, XF) + fl(ba, YF) + [size, 0, n1]))
    kbb = T2.fkCbbpby1y2(y1, y2, kt, sk.a, sk.b, ba.m, ba.n, *(fl(ba, XF) + fl(ba, YF) + [size, n1, n1]))
    Kd = dense(make_symmetric(kpp + kbb)) + dense(kpb) + dense(kpb).T
    w = np.linalg.eigvalsh((Kd + Kd.T)/2); worst_psd = max(worst_psd, float(-w.min()/w.max()))
    c = rs.rand(size) - 0.5
    X, Yb = np.meshgrid((xg + 1)/2*sk.a, (xg + 1)/2*ba.b)
    A = fields(sk, c[:n1].copy(), X.ravel(), Yb.ravel() + y1); B = fields(ba, c[n1:].copy(), X.ravel(), Yb.ravel())
    wq = np.outer(wg*ba.b/2, wg*sk.a/2).ravel()
    best = None
    for s in (1, -1):
        J = [A[0] + s*dpb*(-A[3]) - B[0], A[1] + s*dpb*(-A[4]) - B[1], A[2] - B[2]]
        E = 0.5*kt*sum((j*j*wq).sum() for j in J)
        d = abs(E - 0.5*c.dot(Kd).dot(c))/abs(E)
        best = d if best is None else min(best, d)
    worst = max(worst, float(best))
res['tstiff2d fkCppy1y2/fkCpby1y2/fkCbbpby1y2'] = {'energy_relative_deviation': worst, 'negative_eigenvalue_ratio': worst_psd}
out = {'by_family': res}
'''


def check_stiffener_kernels(led):
    lab = 'compmech/stiffener/models (installed binary)'
    files = ['compmech/stiffener/models/%s.pyx' % k for k in ('bladestiff2d_clt_donnell_bardell', 'tstiff2d_clt_donnell_bardell')]
    if not (pyreplay.binary_matches_source(files) and pyreplay.functions_match_build('compmech/panel/models/clt_bardell_field.pyx', ['fuvw', 'cfuvw', 'cfwx', 'cfwy'])):
        led.bounded_item('stiffener connection kernels: numeric cross-check skipped, an extension involved was not built from the current .pyx text')
        return
    led.bounded_item('numeric cross-check of the installed stiffener connection extensions (thorough tier): 3 random configurations per family')
    r = pyreplay.run_real(STIFF, {}, timeout=1500)
    if r.get('raised') or r.get('replay_error'):
        led.error('numeric cross-check of the stiffener kernels could not run: %s' % (r.get('raised') or r.get('replay_error')))
        return
    for fam, d in sorted((r.get('by_family') or {}).items()):
        for key, tol in (('negative_eigenvalue_ratio', 1e-9), ('energy_relative_deviation', 1e-8)):
            name = '%s/numeric-cross-check/%s/%s' % (lab, fam, key)
            if d[key] <= tol:
                led.ok(name, lab, backend='numeric(bounded)')
            else:
                led.error('%s: %.3g although the kernel contract was proved on the .pyx text' % (name, d[key]))
