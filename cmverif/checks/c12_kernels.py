"""C12: the penalty connection kernels kCSSxcte / kCSSycte / kCBFxcte / kCBFycte / kCSB (real .pyx text) against the Hessian of
      kt/2 * Integral(|J|^2) + kr/2 * Integral(Jr^2)
with the interface jump J and the rotation jump Jr written in the two panels' own Ritz series on the stated interface.

The geometric convention of each connection (which component of the second panel meets which component of the first one, and
with which sign) is the package's: skin-skin J = (u1-u2, v1-v2, w1-w2); base-flange along y: J = (u1-u2, v1-w2, w1+v2);
base-flange along x: J = (u1-w2, v1-v2, w1+u2); face to face with offset d: J = (u1 + d w1,x - u2, v1 + d w1,y - v2, w1-w2).
What is proved is that the three blocks 11, 12, 22 of every kernel are the blocks of ONE such quadratic form -- hence the matrix
[[k11, k12], [k12^T, k22]] is a Gram form (positive semi-definite for kt, kr >= 0), vanishes on fields without jump and is
homogeneous of degree one in (kt, kr).
Preconditions (established by the call sites, C12 python layer): the two panels share the interface length (a1 == a2 for the
y = const kinds, b1 == b2 for the x = const kinds, both for the face-to-face kind).
"""
from fractions import Fraction

from ..core import CheckerError
from ..poly import P, normal
from .. import kharness as K, kernel, kcheck, pysym, spec_panel as S
from ..pysym import real, integer, to_z3, Obj
from .c11_kernel import Fval

CONN = 'compmech.panel.connections.'
FLAG_KEYS = [(d, e, k, ax) for d in 'uvw' for ax in 'xy' for e in '12' for k in 'tr']


def sym_panel(it, sfx):
    cls = it.module('compmech.panel._panel').g['Panel']
    p = Obj(cls)
    p.name = 'p' + sfx
    for d, e, k, ax in FLAG_KEYS:
        p.attrs['%s%s%s%s' % (d, e, k, ax)] = real('%s%s%s%s_%s' % (d, e, k, ax, sfx))
    for nm in ('a', 'b'):
        p.attrs[nm] = real(nm + sfx)
    for nm in ('m', 'n'):
        p.attrs[nm] = integer(nm + sfx)
        it.facts += [to_z3(p.attrs[nm]) >= 1, to_z3(p.attrs[nm]) <= 30]
    it.facts += [to_z3(p.attrs['a']) > 0, to_z3(p.attrs['b']) > 0]
    return p


def flags(p, d, ax):
    return tuple(p.attrs['%s%s%s%s' % (d, e, k, ax)] for e, k in (('1', 't'), ('1', 'r'), ('2', 't'), ('2', 'r')))


def make_interp():
    it = K.make_interp()
    it.loop_modes[('*', '*')] = kernel.GenericLoop(counters=('c',), local=True)

    def scalar(order):
        return lambda itp, args, kw: Fval(order, args[0], tuple(args[2:6]), args[1])
    it.contracts['extern.calc_f'] = scalar(0)
    it.contracts['extern.calc_fxi'] = scalar(1)
    return it


# jump operators: per kind, a list of jump components; each component is a list of (panel 1|2, dof, coefficient-builder, ox, oy)
def jumps(kind, p1, p2, dsb, s=1):
    sx1, sy1 = 2 / p1.attrs['a'], 2 / p1.attrs['b']
    sx2, sy2 = 2 / p2.attrs['a'], 2 / p2.attrs['b']
    one = P.const(1)
    T = []      # translation jump components (weight kt)
    R = []      # rotation jump components (weight kr)
    if kind in ('SSycte', 'SSxcte'):
        T = [[(1, 'u', one, 0, 0), (2, 'u', -one, 0, 0)], [(1, 'v', one, 0, 0), (2, 'v', -one, 0, 0)], [(1, 'w', one, 0, 0), (2, 'w', -one, 0, 0)]]
    elif kind == 'BFycte':
        T = [[(1, 'u', one, 0, 0), (2, 'u', -one, 0, 0)], [(1, 'v', one, 0, 0), (2, 'w', -one * s, 0, 0)], [(1, 'w', one, 0, 0), (2, 'v', one * s, 0, 0)]]
    elif kind == 'BFxcte':
        T = [[(1, 'u', one, 0, 0), (2, 'w', -one * s, 0, 0)], [(1, 'v', one, 0, 0), (2, 'v', -one, 0, 0)], [(1, 'w', one, 0, 0), (2, 'u', one * s, 0, 0)]]
    elif kind == 'SB':
        T = [[(1, 'u', one, 0, 0), (1, 'w', dsb * sx1 * s, 1, 0), (2, 'u', -one, 0, 0)],
             [(1, 'v', one, 0, 0), (1, 'w', dsb * sy1 * s, 0, 1), (2, 'v', -one, 0, 0)],
             [(1, 'w', one, 0, 0), (2, 'w', -one, 0, 0)]]
    if kind in ('SSycte', 'BFycte'):
        R = [[(1, 'w', sy1, 0, 1), (2, 'w', -sy2, 0, 1)]]
    elif kind in ('SSxcte', 'BFxcte'):
        R = [[(1, 'w', sx1, 1, 0), (2, 'w', -sx2, 1, 0)]]
    return T, R


def hessian_entry(kind, comps_T, comps_R, kt, kr, A, B, panels, cte):
    """d2/dc_A dc_B of kt/2 int |J|^2 + kr/2 int Jr^2;  A = (panel no, dof, I, J), B likewise (index names)"""
    (pa, da, ia, ja), (pb, db, ib, jb) = A, B
    tot = P({})
    for weight, comps in ((kt, comps_T), (kr, comps_R)):
        for comp in comps:
            for (q1, d1, c1, ox1, oy1) in comp:
                if q1 != pa or d1 != da:
                    continue
                for (q2, d2, c2, ox2, oy2) in comp:
                    if q2 != pb or d2 != db:
                        continue
                    P1, P2 = panels[q1], panels[q2]
                    if kind.endswith('ycte'):
                        # line y = const: int dx = a/2 int dxi ; g evaluated at eta_cte of each panel
                        ix = S.Iatom((ox1, P.atom(ia), flags(P1, d1, 'x')), (ox2, P.atom(ib), flags(P2, d2, 'x')))
                        gy = Fval(oy1, P.atom(ja), flags(P1, d1, 'y'), cte[q1]) * Fval(oy2, P.atom(jb), flags(P2, d2, 'y'), cte[q2])
                        tot = tot + weight * c1 * c2 * ix * gy * panels[1].attrs['a'] * Fraction(1, 2)
                    elif kind.endswith('xcte'):
                        iy = S.Iatom((oy1, P.atom(ja), flags(P1, d1, 'y')), (oy2, P.atom(jb), flags(P2, d2, 'y')))
                        fx = Fval(ox1, P.atom(ia), flags(P1, d1, 'x'), cte[q1]) * Fval(ox2, P.atom(ib), flags(P2, d2, 'x'), cte[q2])
                        tot = tot + weight * c1 * c2 * iy * fx * panels[1].attrs['b'] * Fraction(1, 2)
                    else:
                        ix = S.Iatom((ox1, P.atom(ia), flags(P1, d1, 'x')), (ox2, P.atom(ib), flags(P2, d2, 'x')))
                        iy = S.Iatom((oy1, P.atom(ja), flags(P1, d1, 'y')), (oy2, P.atom(jb), flags(P2, d2, 'y')))
                        tot = tot + weight * c1 * c2 * ix * iy * panels[1].attrs['a'] * panels[1].attrs['b'] * Fraction(1, 4)
    return tot


KINDS = {'SSycte': 'kCSSycte', 'SSxcte': 'kCSSxcte', 'BFycte': 'kCBFycte', 'BFxcte': 'kCBFxcte', 'SB': 'kCSB'}


ORIENTED = ('BFycte', 'BFxcte', 'SB')


def check_kind(led, kind):
    """the property does not fix the orientation of the flange frame / the side of the offset: one orientation s in {+1, -1} must
    fit ALL entries of the three blocks (DESIGN appendix A)"""
    from ..parallel import Rec
    if kind not in ORIENTED:
        return _check_kind(led, kind, 1)
    recs = {}
    for s in (1, -1):
        recs[s] = Rec(getattr(led, 'tier', 'quick'), getattr(led, 'known', ()))
        _check_kind(recs[s], kind, s)
        if not any(c[0] in ('fail', 'undecide', 'error') for c in recs[s].calls):
            recs[s].replay_into(led)
            led.ok('compmech/panel/connections/%s.pyx/one-orientation-for-all-blocks[s=%+d]' % (KINDS[kind], s), 'compmech/panel/connections/%s.pyx:f%s12' % (KINDS[kind], KINDS[kind]))
            return
    # neither orientation fits: report against the one with fewer differences
    best = min((1, -1), key=lambda s: sum(1 for c in recs[s].calls if c[0] == 'fail'))
    recs[best].replay_into(led)


def _check_kind(led, kind, s):
    modname = CONN + KINDS[kind]
    for block in ('11', '12', '22'):
        fname = 'f%s%s' % (KINDS[kind], block)
        lab = 'compmech/panel/connections/%s.pyx:%s' % (KINDS[kind], fname)
        led.function(lab)
        it = make_interp()
        p1, p2 = sym_panel(it, '1'), sym_panel(it, '2')
        kt, kr, dsb = real('kt'), real('kr'), real('dsb')
        # requires: positive penalty constants (C12: "any positive kt, kr"); dsb is a half-thickness sum
        it.facts += [to_z3(kt) > 0, to_z3(kr) > 0, to_z3(dsb) >= 0]
        size, row0, col0 = integer('size'), integer('row0'), integer('col0')
        c1v, c2v = real('cte1'), real('cte2')
        f = K.kernel_func(it, modname, fname)
        sig = [nm for _, nm in it.module(modname).pyx.sigs[fname]]
        vals = dict(kt=kt, kr=kr, dsb=dsb, p1=p1, p2=p2, size=size, row0=row0, col0=col0,
                    ycte1=c1v, ycte2=c2v, xcte1=c1v, xcte2=c2v)
        missing = [nm for nm in sig if nm not in vals]
        if missing:
            raise CheckerError('%s: unexpected parameters %s' % (fname, missing))
        res = it.explore(lambda: it.call(f, [vals[nm] for nm in sig], {}))
        panels = {1: p1, 2: p2}
        # interface coordinate in natural coordinates: eta = 2 y / b - 1 (xi = 2 x / a - 1) of the panel that owns the coordinate
        if kind.endswith('ycte'):
            cte = {1: 2 * c1v / p1.attrs['b'] - 1, 2: 2 * c2v / p2.attrs['b'] - 1}
        elif kind.endswith('xcte'):
            cte = {1: 2 * c1v / p1.attrs['a'] - 1, 2: 2 * c2v / p2.attrs['a'] - 1}
        else:
            cte = {}
        T, R = jumps(kind, p1, p2, dsb, s)
        if kind == 'SB':
            R = []
        pr, pc = {'11': (1, 1), '12': (1, 2), '22': (2, 2)}[block]

        def entry(p, q, I, J, Kk, L, pr=pr, pc=pc):
            return hessian_entry(kind, T, R, kt, kr, (pr, 'uvw'[p], I, J), (pc, 'uvw'[q], Kk, L), panels, cte)
        reads = set('%s%s%s%s' % k for k in FLAG_KEYS) | {'a', 'b', 'm', 'n', '__class__'}
        mr, nr = panels[pr].attrs['m'], panels[pr].attrs['n']
        mc, nc = panels[pc].attrs['m'], panels[pc].attrs['n']
        kcheck.check_kernel(led, it, lab, res, entry, 3, row0, col0, mr, nr, expect_reads=reads, mcol=mc, ncol=nc, full_block=(block == '12'),
                            capacity_factor=lambda cnt: P.const(cnt) * mr * mc * nr * nc)
        led.solver_time('z3-feasibility', it.solver_time)


def body(led):
    led.assume('C12 kernels: the interface jump conventions are the package\'s (module docstring); panels joined along a line share its length, '
               'face-to-face panels share both dimensions (geometry supplied by the caller; the kernels integrate over panel 1\'s interface)')
    led.assume('C12 kernels: kt > 0, kr > 0 (the property quantifies over positive constants; the kernels divide by kt)')
    for kind in KINDS:
        check_kind(led, kind)
