"""Replay of lib/src table functions on the real C code: the file that was
parsed is compiled (gcc -O0 -shared) into a scratch .so and called via ctypes."""
import ctypes
import hashlib
import os
import subprocess
from .core import VERIF

BUILD = os.path.join(VERIF, '.build')


def compile_c(path):
    os.makedirs(BUILD, exist_ok=True)
    with open(path, 'rb') as f:
        h = hashlib.sha1(f.read()).hexdigest()[:16]
    so = os.path.join(BUILD, '%s-%s.so' % (os.path.basename(path)[:-2], h))
    if not os.path.exists(so):
        tmp = so + '.tmp%d' % os.getpid()
        subprocess.check_call(['gcc', '-O0', '-shared', '-fPIC', '-o', tmp, path, '-lm'],
                              stdout=subprocess.DEVNULL, stderr=subprocess.DEVNULL)
        os.replace(tmp, so)
    return ctypes.CDLL(so)


def call_double(lib, fname, sig, args):
    """sig: string of 'i'/'d' for the parameters; returns double"""
    f = getattr(lib, fname)
    f.restype = ctypes.c_double
    f.argtypes = [ctypes.c_int if s == 'i' else ctypes.c_double for s in sig]
    return f(*[int(a) if s == 'i' else float(a) for s, a in zip(sig, args)])
