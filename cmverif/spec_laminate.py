"""Spec functions for C01, written from the property statement: plane-stress
stiffness of an orthotropic ply, tensor rotation to the laminate axes, and the
through-thickness integrals with weights 1, z, z^2."""
from fractions import Fraction
import numpy as np
from .poly import P


def plane_stress_Q(E1, E2, nu12, G12):
    """reduced stiffness; nu21 from the reciprocity relation nu21/E2 = nu12/E1"""
    nu21 = nu12 * E2 / E1
    den = 1 - nu12 * nu21
    return {'11': E1 / den, '22': E2 / den, '12': nu12 * E2 / den, '66': G12}


def rotated_Q(Q, c, s):
    """4th-order tensor rotation of the in-plane stiffness; ply axis 1 at +theta from laminate x.
    returns dict with keys 11,12,16,22,26,66 (engineering shear strain)"""
    C = {}
    for p in (0, 1):
        for q in (0, 1):
            for r in (0, 1):
                for t in (0, 1):
                    C[(p, q, r, t)] = P.const(0)
    C[(0, 0, 0, 0)] = Q['11']
    C[(1, 1, 1, 1)] = Q['22']
    C[(0, 0, 1, 1)] = C[(1, 1, 0, 0)] = Q['12']
    for idx in ((0, 1, 0, 1), (0, 1, 1, 0), (1, 0, 0, 1), (1, 0, 1, 0)):
        C[idx] = Q['66']
    # R[i][p] = e_i(laminate) . e_p(ply):  e_1 = c e_x + s e_y ; e_2 = -s e_x + c e_y
    R = [[c, -s], [s, c]]

    def Cbar(i, j, k, l):
        tot = P.const(0)
        for p in (0, 1):
            for q in (0, 1):
                for r in (0, 1):
                    for t in (0, 1):
                        if C[(p, q, r, t)].is_zero():
                            continue
                        tot = tot + R[i][p] * R[j][q] * R[k][r] * R[l][t] * C[(p, q, r, t)]
        return tot
    x, y = 0, 1
    return {'11': Cbar(x, x, x, x), '12': Cbar(x, x, y, y), '16': Cbar(x, x, x, y),
            '22': Cbar(y, y, y, y), '26': Cbar(y, y, x, y), '66': Cbar(x, y, x, y)}


def rotated_shear(G13, G23, c, s):
    """2nd-order tensor rotation of the transverse shear stiffness; returns (G_yz,yz ; G_yz,xz ; G_xz,xz) = (44, 45, 55)"""
    R = [[c, -s], [s, c]]
    G = [[G13, P.const(0)], [P.const(0), G23]]     # ply axes: index 0 <-> 1z (13), index 1 <-> 2z (23)

    def Gbar(i, j):
        tot = P.const(0)
        for p in (0, 1):
            for q in (0, 1):
                tot = tot + R[i][p] * R[j][q] * G[p][q]
        return tot
    return {'44': Gbar(1, 1), '45': Gbar(1, 0), '55': Gbar(0, 0)}


def QL_matrix(E1, E2, nu12, G12, G13, G23, c, s):
    Q = rotated_Q(plane_stress_Q(E1, E2, nu12, G12), c, s)
    S = rotated_shear(G13, G23, c, s)
    z = P.const(0)
    M = np.empty((5, 5), dtype=object)
    rows = [[Q['11'], Q['12'], Q['16'], z, z],
            [Q['12'], Q['22'], Q['26'], z, z],
            [Q['16'], Q['26'], Q['66'], z, z],
            [z, z, z, S['44'], S['45']],
            [z, z, z, S['45'], S['55']]]
    for i in range(5):
        for j in range(5):
            M[i, j] = rows[i][j]
    return M


def layer_integrals(QL, z0, z1):
    """integrals of QL * (1, z, z^2) over [z0, z1]"""
    return (QL * (z1 - z0),
            QL * ((z1 ** 2 - z0 ** 2) * Fraction(1, 2)),
            QL * ((z1 ** 3 - z0 ** 3) * Fraction(1, 3)))
