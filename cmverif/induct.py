"""Loops over lists of symbolic length: inductive-invariant schema.

``SymList``      a list of N (symbolic) elements; element k is produced by a
                 factory as an object whose fields are select-atoms in k.
``GList``        result of a comprehension over a SymList (element-wise map).
``InductiveFor`` loop annotation: the contract author supplies the invariant as
                 three symbolic states (at 0, at k, at k+1 = spec recurrence) and
                 the state at N.  The engine checks
                    base : actual pre-loop state  == state_at_0
                    step : body(state_at_k, elem_k) == state_at_k1
                 and continues after the loop from state_at_N.  States map
                 places to values; a place is a local name or (object, attr).
"""
import numpy as np

from .poly import P, normal, rational_close
from .core import CheckerError
from . import pysym, kernel
from .pysym import Obj, Poison, _Break, _Continue


class SymList(object):
    def __init__(self, name, n, factory):
        self.name = name
        self.n = n                  # P (integer atom) or int
        self.factory = factory      # index P -> element

    def elem(self, k):
        return self.factory(k)

    def sym_len(self, interp):
        return self.n

    def sym_load(self, interp, k, node):
        if isinstance(k, slice):
            raise CheckerError('slice of symbolic list')
        return self.factory(k if isinstance(k, P) else P.const(k))

    def __repr__(self):
        return '<symlist %s[%s]>' % (self.name, self.n)


class GList(object):
    """element-wise image of a SymList: value(var) for var in 0..n-1"""
    def __init__(self, value, var, n):
        self.value, self.var, self.n = value, var, n

    def sym_len(self, interp):
        return self.n

    def total(self):
        v = self.value if isinstance(self.value, P) else P.const(self.value)
        return kernel.make_sum(self.var, 0, self.n, v, [])


def indexed_atom(base, k, integer=False):
    """atom  base[k]  depending on the index expression k"""
    kt = normal(k).text() if isinstance(k, P) else str(k)
    a = '%s[%s]' % (base, kt)
    if isinstance(k, P):
        d = kernel.deps_of(k)
        if d:
            kernel.ATOM_DEPS[a] = d
    if integer:
        pysym.INT_ATOMS.add(a)
    return P.atom(a)


def values_equal(a, b):
    """structural equality of two symbolic values (arrays element-wise)"""
    if isinstance(a, np.ndarray) or isinstance(b, np.ndarray):
        a = np.asarray(a, dtype=object)
        b = np.asarray(b, dtype=object)
        if a.shape != b.shape:
            return False, 'shape %s vs %s' % (a.shape, b.shape)
        for idx in np.ndindex(a.shape):
            ok, why = values_equal(a[idx], b[idx])
            if not ok:
                return False, '%s: %s' % (list(idx), why)
        return True, None
    if isinstance(a, (int, P)) and isinstance(b, (int, P)) and not isinstance(a, bool) and not isinstance(b, bool):
        pa = a if isinstance(a, P) else P.const(a)
        pb = b if isinstance(b, P) else P.const(b)
        ok, bad, _ = rational_close(pa, pb)
        if ok:
            return True, None
        from .poly import mono_text
        return False, 'residual ' + '; '.join('%s: code %s spec %s' % (mono_text(m), x, y) for m, x, y in bad[:3])
    if a is b:
        return True, None
    try:
        if a == b and type(a) == type(b):
            return True, None
    except Exception:
        pass
    return False, '%r vs %r' % (a, b)


class InductiveFor(object):
    def __init__(self, name, var, state_at_0, state_at_k, state_at_k1, state_at_N, report):
        """state_* : callables (interp, fr) -> {place: value}; place = 'local' or (Obj, 'attr').
        report(kind, place, ok, why) records the obligation."""
        self.name = name
        self.var = var
        self.s0, self.sk, self.sk1, self.sN = state_at_0, state_at_k, state_at_k1, state_at_N
        self.report = report

    def _get(self, interp, fr, place):
        if isinstance(place, tuple):
            o, attr = place
            o = o(fr) if callable(o) else o
            return o.attrs.get(attr)
        return fr.l.get(place)

    def _set(self, interp, fr, place, v):
        if isinstance(place, tuple):
            o, attr = place
            o = o(fr) if callable(o) else o
            o.attrs[attr] = v
        else:
            fr.l[place] = v

    def run_for(self, interp, s, it, fr):
        raise CheckerError('InductiveFor applies to loops over SymList')

    def run_list(self, interp, s, lst, fr):
        import ast
        if s.orelse:
            raise CheckerError('for/else in inductive loop')
        # base
        for place, want in self.s0(interp, fr).items():
            have = self._get(interp, fr, place)
            ok, why = values_equal(have, want)
            self.report('base', place, ok, why)
        # every variable assigned in the body that is not part of the invariant is poisoned
        assigned = kernel.assigned_names(s.body)
        k = pysym.integer(self.var)
        inv = self.sk(interp, fr)
        for n in assigned:
            if n not in inv and n in fr.l:
                fr.l[n] = Poison(n)
        for place, v in inv.items():
            self._set(interp, fr, place, v.copy() if isinstance(v, np.ndarray) else v)
        n0 = len(interp.path.conds)
        interp.path.conds.append(pysym.compare('>=', k, 0))
        interp.path.conds.append(pysym.compare('<', k, lst.n))
        interp.assign(s.target, lst.elem(k), fr)
        try:
            interp.exec_block(s.body, fr)
        except _Continue:
            pass
        except _Break:
            raise CheckerError('break in inductive loop')
        for place, want in self.sk1(interp, fr).items():
            have = self._get(interp, fr, place)
            ok, why = values_equal(have, want)
            self.report('step', place, ok, why)
        del interp.path.conds[n0:]
        for n in assigned:
            if n in fr.l:
                fr.l[n] = Poison(n)
        for place, v in self.sN(interp, fr).items():
            self._set(interp, fr, place, v)


def path_equalities(path):
    """equalities decided along an execution path, solved for one plain symbol each:  {atom: P}.  Only 'lhs == rhs' decisions in which
    some atom occurs linearly, in a single monomial, with a constant coefficient, are used (x == 0, x == y, t0 == t1 + c ...)."""
    from .pysym import Cond
    eqs = []

    def walk(c):
        if not isinstance(c, Cond):
            return
        if c.kind == 'cmp' and c.a == '==' and isinstance(c.b, P):
            eqs.append(c.b)
        elif c.kind == 'and':
            walk(c.a)
            walk(c.b)
    for c in getattr(path, 'conds', []):
        walk(c)
    mapping = {}
    for p in eqs:
        p = p.subs(mapping) if mapping else p
        for m, c in sorted(p.t.items(), key=lambda kv: repr(kv[0])):
            if len(m) == 1 and m[0][1] == 1 and isinstance(m[0][0], str):
                a = m[0][0]
                rest = P({mm: cc for mm, cc in p.t.items() if mm != m})
                if a in rest.atoms() or any(a in str(x) for x in rest.atoms() if not isinstance(x, str)):
                    continue
                sol = rest * P.const(-1 / c)
                mapping = {k: v.subs({a: sol}) for k, v in mapping.items()}
                mapping[a] = sol
                break
    return mapping


def values_equal_on_path(a, b, path):
    """values_equal, and if that fails, once more with the equalities decided along the path substituted into both sides"""
    ok, why = values_equal(a, b)
    if ok:
        return ok, why
    mp = path_equalities(path)
    if not mp:
        return ok, why

    def sub(v):
        if isinstance(v, np.ndarray):
            out = np.empty(v.shape, dtype=object)
            for idx in np.ndindex(v.shape):
                out[idx] = sub(v[idx])
            return out
        if not isinstance(v, P):
            return v
        # function atoms (cos(...), sin(...)) whose argument mentions a substituted symbol are rebuilt from the substituted argument
        from . import shims
        full = dict(mp)
        for at in v.atoms():
            base = shims.TRIG_BASE.get(at) if isinstance(at, str) else None
            if base is not None and (base[1].atoms() & set(mp)):
                fn = {'cos': shims.sym_cos, 'sin': shims.sym_sin}.get(base[0])
                if fn is not None:
                    full[at] = fn(base[1].subs(mp))
        return normal(v.subs(full))
    ok2, why2 = values_equal(sub(a), sub(b))
    return (True, None) if ok2 else (False, why2 + ' (with the path equalities %s substituted)' % ', '.join('%s = %s' % (k, v.text()) for k, v in sorted(mp.items())))
