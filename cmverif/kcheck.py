"""Generic contract check for a triplet-emitting matrix kernel (DESIGN 2.3).

Contract of a kernel  K(panel, size, row0, col0, ...):
  requires 1<=m,n<=30, a,b>0, row0==col0 (established by the call sites), F symmetric
  ensures  for all row terms A=(i,j,p) and column terms B=(k,l,q) with
           R = row0+num*(j*m+i)+p <= C = col0+num*(l*m+k)+q :
               sum of the values emitted at (R, C)  ==  spec(A, B)
  so that make_symmetric(K) is the full (symmetric) spec matrix.
"""
import time
import z3

from .poly import P, normal
from .core import CheckerError
from . import pysym, vc, kharness as K
from .pysym import Cond, to_z3, cond_z3, integer

_abs_cache = {}


def abstract_int(p):
    """monomial-abstracted integer term: every product of atoms is an independent Int"""
    p = p if isinstance(p, P) else P.const(p)
    terms = []
    for m, c in p.t.items():
        if c.denominator != 1:
            raise CheckerError('non-integer coefficient in an index expression: %s' % p)
        if not m:
            terms.append(z3.IntVal(int(c)))
            continue
        if len(m) == 1 and m[0][1] == 1:
            v = z3.Int('i!' + m[0][0])
        else:
            key = m
            if key not in _abs_cache:
                _abs_cache[key] = z3.Int('mono!%d' % len(_abs_cache))
            v = _abs_cache[key]
        terms.append(int(c) * v)
    return z3.Sum(terms) if terms else z3.IntVal(0)


def abstract_cond(c):
    if isinstance(c, bool):
        return z3.BoolVal(c)
    if c.kind == 'cmp':
        try:
            e = abstract_int(c.b)
        except CheckerError:
            return None
        return {'==': e == 0, '!=': e != 0, '<': e < 0, '<=': e <= 0, '>': e > 0, '>=': e >= 0}[c.a]
    if c.kind == 'not':
        x = abstract_cond(c.a)
        return None if x is None else z3.Not(x)
    if c.kind in ('and', 'or'):
        x, y = abstract_cond(c.a), abstract_cond(c.b)
        if x is None or y is None:
            return None
        return z3.And(x, y) if c.kind == 'and' else z3.Or(x, y)
    return None


def is_index_cond(c):
    return isinstance(c, Cond) and c.kind == 'cmp' and all(a in pysym.INT_ATOMS for a in c.b.atoms())


def residual_signature(code, spec, roles):
    """hash of the residual normal form with loop-variable names replaced by their roles"""
    import hashlib
    from .poly import clear_pair
    from .kernel import rename_var
    try:
        c, s_, _ = clear_pair(normal(code), normal(spec))
        d = normal(c - s_)
    except Exception:
        d = normal(code - spec)
    for name, role in zip(roles, ('%I', '%J', '%K', '%L')):
        d = rename_var(d, name, role)
    txt = d.text()
    return 'residual:' + hashlib.sha1(txt.encode()).hexdigest()[:16]


def check_kernel(led, it, func_label, results, spec_entry, num, row0, col0, m, n, dofs_emitted_ok=None,
                 expect_reads=None, allow_guard=True, replay=None, capacity_factor=None, loop_roles=None,
                 alt_specs=None, extra_index_atoms=(), collect=None, mcol=None, ncol=None, full_block=False):
    """results: it.explore output of the kernel call.  spec_entry(p, q, I, J, Kk, L) -> P
    mcol, ncol: series orders of the column terms when they differ from those of the row terms (coupling blocks);
    full_block: the block lies off the diagonal of the global matrix, every element of it must be emitted (no symmetry guard)"""
    mcol = m if mcol is None else mcol
    ncol = n if ncol is None else ncol
    emit_paths = 0
    for path, out in results:
        if out[0] == 'raise':
            # a raising path must be infeasible under the precondition ... explore() already pruned
            led.fail('%s/no-exception' % func_label, func_label,
                     {'raises': out[1].tname, 'args': [str(a) for a in out[1].eargs], 'path': [repr(c) for c in path.conds][:6]},
                     signature='raise', replay=replay() if replay else None)
            continue
        coo = out[1]
        if not (isinstance(coo, pysym.Opaque) and coo.kind == 'coo'):
            led.fail('%s/returns-coo' % func_label, func_label, {'returned': repr(coo)}, signature='ret')
            continue
        em = K.emissions(coo)
        if not em:
            continue
        emit_paths += 1
        tag = '' if emit_paths == 1 else '#%d' % emit_paths
        seen = {}
        roles = None
        for g in em:
            lv = g['loopvars']
            dr = K.decode_index(g['row'], row0, num, m, lv)
            dc = K.decode_index(g['col'], col0, num, mcol, lv)
            if dr is None or dc is None:
                led.fail('%s/placement%s@%s' % (func_label, tag, g['line']), func_label,
                         {'row': str(g['row']), 'col': str(g['col']),
                          'meaning': 'row/col are not row0+num*(j*m+i)+p / col0+num*(l*m+k)+q for loop indices'},
                         signature='placement', replay=replay() if replay else None)
                continue
            I, J, p = dr
            Kk, L, q = dc
            if roles is None:
                roles = (I, J, Kk, L)
            elif roles != (I, J, Kk, L):
                led.fail('%s/placement-consistent%s' % (func_label, tag), func_label, {'roles': [roles, (I, J, Kk, L)]}, signature='roles')
                continue
            key = (p, q)
            seen[key] = seen.get(key, P.const(0)) + g['val']
            g['pq'] = key
        if roles is None:
            continue
        I, J, Kk, L = roles
        if collect is not None:
            collect['values'] = dict(seen)
            collect['roles'] = roles
        # slot determinacy: placement and guard depend on the four role indices, m, n and the offsets only
        allowed = {I, J, Kk, L} | set(m.atoms()) | set(n.atoms()) | set(mcol.atoms()) | set(ncol.atoms()) | set(row0.atoms()) | set(col0.atoms())
        dep = set()
        for g in em:
            dep |= g['row'].atoms() | g['col'].atoms()
            for c in g['conds']:
                if is_index_cond(c):
                    dep |= {a for a in c.b.atoms() if a not in extra_index_atoms}
        stray = sorted(dep - allowed)
        name = '%s/slot-determinacy%s' % (func_label, tag)
        if stray:
            led.fail(name, func_label, {'depends_on': stray, 'meaning': 'slot/placement depends on something other than the term indices'}, signature='slots')
        else:
            led.ok(name, func_label)
        # value obligations (one per (p,q) of the block), missing entries must be zero in the spec
        for p in range(num):
            for q in range(num):
                spec = spec_entry(p, q, I, J, Kk, L)
                code = seen.get((p, q), P.const(0))
                ok, res = K.compare(code, spec)
                name = '%s/entry[%d,%d]%s' % (func_label, p, q, tag)
                if ok:
                    led.ok(name, func_label, sample=({'spec': normal(spec).text()[:400], 'row_term': [I, J], 'col_term': [Kk, L]} if (p, q) == (num - 1, num - 1) else None))
                else:
                    sig = None
                    for aname, afn in (alt_specs or {}).items():
                        if K.compare(code, afn(p, q, I, J, Kk, L))[0]:
                            sig = aname
                            break
                    if sig is None:
                        sig = residual_signature(code, spec, (I, J, Kk, L))
                    led.fail(name, func_label, {'residual': res, 'emitted': (p, q) in seen, 'signature': sig,
                                               'meaning': 'value written at (row+%d, col+%d) differs from the spec Hessian entry for symbolic loop indices' % (p, q)},
                             signature=sig, replay=replay() if replay else None)
        # guard: every element with R <= C is emitted
        base = [c for c in path.conds if is_index_cond(c)]
        ranges = []
        for v, hi in ((I, m), (Kk, mcol), (J, n), (L, ncol)):
            ranges += [abstract_int(P.atom(v)) >= 0, abstract_int(P.atom(v)) < abstract_int(hi)]
        guard = [c for c in em[0]['conds'] if is_index_cond(c)]
        outer = [c for c in guard if c.b.atoms() and c.b.atoms() <= set(extra_index_atoms)]
        guard = [c for c in guard if c not in outer]
        ranges += [abstract_cond(c) for c in outer]
        gz = [abstract_cond(c) for c in guard]
        if any(x is None for x in gz):
            led.undecide('%s/guard%s' % (func_label, tag), func_label, 'guard not an index condition')
        else:
            rowb = abstract_int(normal(row0 + num * (P.atom(J) * m + P.atom(I))))
            colb = abstract_int(normal(col0 + num * (P.atom(L) * mcol + P.atom(Kk))))
            pz, qz = z3.Int('p!'), z3.Int('q!')
            s = z3.Solver()
            s.set('timeout', 10000)
            s.add(*ranges)
            s.add(pz >= 0, pz < num, qz >= 0, qz < num)
            if not full_block:
                s.add(abstract_int(row0) == abstract_int(col0))
                s.add(rowb + pz <= colb + qz)
            s.add(z3.Not(z3.And(*gz)) if gz else z3.BoolVal(False))
            t = time.time()
            r = s.check()
            led.solver_time('z3', time.time() - t)
            name = '%s/%s%s' % (func_label, 'whole-block-emitted' if full_block else 'upper-triangle-complete', tag)
            if r == z3.unsat:
                led.ok(name, func_label, backend='z3')
            elif r == z3.sat:
                led.fail(name, func_label, {'model': str(s.model()), 'guard': [repr(c) for c in guard],
                                            'meaning': 'an element on or above the diagonal is skipped by the symmetry guard'},
                         backend='z3', signature='guard', replay=replay() if replay else None)
            else:
                led.undecide(name, func_label, 'z3 unknown')
        # capacity: slots used <= allocated length
        if capacity_factor is not None:
            length = coo.f['v'].length
            want = capacity_factor(len(em))
            ok, res = K.compare(length if isinstance(length, P) else P.const(length), want)
            name = '%s/capacity%s' % (func_label, tag)
            if ok:
                led.ok(name, func_label)
            else:
                # larger is fine (zeros), smaller overflows
                d = normal((length if isinstance(length, P) else P.const(length)) - want)
                st, mdl, dt = vc.prove(it, Cond('cmp', '>=', d), [])
                led.solver_time('z3', dt)
                if st == 'valid':
                    led.ok(name, func_label, backend='z3')
                else:
                    led.fail(name, func_label, {'allocated': str(length), 'needed': str(want),
                                                'meaning': 'the COO arrays are shorter than the number of emitted triplets (out-of-bounds write with boundscheck=False)'},
                             signature='capacity', replay=None)
        # side obligations (divisions)
        done = set()
        for ob in path.obligations:
            kind, cond, conds, lineno, txt, where = ob
            if txt in done:
                continue
            done.add(txt)
            st, mdl, dt = vc.prove_nonzero(it, cond, [c for c in conds if not is_index_cond(c)])
            led.solver_time('z3', dt)
            name = '%s/no-ZeroDivision[%s]%s' % (func_label, txt, tag)
            if st == 'valid':
                led.ok(name, func_label, backend='z3')
            elif st == 'invalid':
                led.fail(name, func_label, {'line': lineno, 'model': mdl}, backend='z3', signature=txt)
            else:
                led.undecide(name, func_label, str(mdl))
        # frame: attributes read / written
        reads = sorted({a for (k, o, a) in [x for x in path.log if x[0] == 'read'] if o in ('panel', 'p1', 'p2')})
        writes = sorted({(o, a) for (k, o, a) in [x for x in path.log if x[0] == 'write']})
        name = '%s/frame-no-writes%s' % (func_label, tag)
        if writes:
            led.fail(name, func_label, {'writes': writes}, signature='frame')
        else:
            led.ok(name, func_label)
        if expect_reads is not None:
            extra = [a for a in reads if a not in expect_reads]
            name = '%s/frame-reads%s' % (func_label, tag)
            if extra:
                led.fail(name, func_label, {'unexpected_reads': extra}, signature='reads')
            else:
                led.ok(name, func_label)
    if emit_paths == 0:
        led.fail('%s/emits-something' % func_label, func_label, {'reason': 'no path of the kernel writes a triplet'}, signature='empty',
                 replay=replay() if replay else None)
    return emit_paths
